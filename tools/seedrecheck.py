#!/usr/bin/env python3
"""Re-run the quick checks against stored seeded changes (seeded/<id>/patch.diff): apply to /repo, run the check of the
change's property (plus the checks recorded earlier), undo, update meta.json.  PATCHES /repo: run nothing else meanwhile.

usage: tools/seedrecheck.py [id ...]      (default: all)"""
import glob
import json
import os
import subprocess
import sys

V = os.path.abspath(os.path.join(os.path.dirname(os.path.abspath(__file__)), ".."))
REPO = "/repo"


def sh(cmd, **kw):
    return subprocess.run(cmd, shell=True, capture_output=True, text=True, **kw)


def main():
    ids = sys.argv[1:] or sorted(os.path.basename(os.path.dirname(p)) for p in glob.glob(os.path.join(V, "seeded", "*", "meta.json")))
    if sh(f"git -C {REPO} status --short").stdout.strip():
        print("/repo is not clean")
        return 1
    rows = []
    for sid in ids:
        d = os.path.join(V, "seeded", sid)
        m = json.load(open(os.path.join(d, "meta.json")))
        a = sh(f"git -C {REPO} apply {d}/patch.diff")
        if a.returncode:
            a = sh(f"cd {REPO} && patch -p1 --fuzz=3 < {d}/patch.diff")
        if a.returncode:
            print(sid, "patch does not apply", a.stderr[-200:])
            sh(f"git -C {REPO} checkout -- . && git -C {REPO} clean -fdq")
            continue
        try:
            props = [m["property"]] + [p for p in m.get("checks", {}) if p != m["property"]]
            caught = {}
            for p in props:
                c = sh(f"./check {p} quick", cwd=V, timeout=3600)
                out = c.stdout.split("\n")
                lines = [l for l in out if l.startswith("VIOLATION")]
                first = out[out.index(lines[0]) + 1].strip()[:200] if lines else ""
                caught[p] = {"exit": c.returncode, "violations": len(lines), "first": first, "inconclusive": [l[:200] for l in out if l.startswith("INCONCLUSIVE")][:2]}
        finally:
            sh(f"git -C {REPO} checkout -- . && git -C {REPO} clean -fdq")
        m["checks"] = caught
        m["caught_by"] = [p for p, v in caught.items() if v["exit"] == 1 and v["violations"] > 0]
        m["flagged_inconclusive_by"] = [p for p, v in caught.items() if v["exit"] == 2]
        m["rechecked_with_verif"] = sh(f"git -C {V} log --format=%h -1").stdout.strip() + "+"
        json.dump(m, open(os.path.join(d, "meta.json"), "w"), indent=1)
        own = caught[m["property"]]
        rows.append((sid, own["exit"] if own["violations"] or own["exit"] != 1 else "1-without-VIOLATION-line", own["first"][:120]))
        print(rows[-1], flush=True)
    bad = [r for r in rows if r[1] != 1]
    print(f"{len(rows)} re-checked; not caught by own check: {[r[0] for r in bad]}")
    return 0


if __name__ == "__main__":
    sys.exit(main())
