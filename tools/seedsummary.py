#!/usr/bin/env python3
"""regenerate seeded/SUMMARY.md from seeded/*/meta.json"""
import glob
import json
import os

V = os.path.join(os.path.dirname(os.path.abspath(__file__)), "..")
rows = []
for mp in sorted(glob.glob(os.path.join(V, "seeded", "*", "meta.json"))):
    m = json.load(open(mp))
    own = m["checks"].get(m["property"], {})
    verdict = "caught (exit 1)" if own.get("exit") == 1 and own.get("violations", 0) > 0 else ("inconclusive (exit 2)" if own.get("exit") == 2 else "missed (exit 0)")
    others = [p for p in m.get("caught_by", []) if p != m["property"]]
    rows.append((m["id"], m["property"], verdict, ",".join(others), (m.get("summary") or "").replace("|", "/").replace("\n", " ")[:150], (own.get("first") or "").replace("|", "/")[:140]))
n = len(rows)
caught = sum(1 for r in rows if r[2].startswith("caught"))
L = ["# Seeded changes", "", f"{n} changes; {caught} reported as replayed violations by the check of their own property (quick tier).", "",
     "Round 1: `Cxx-m?` (pinned tree); round 2: `Cxxb-m?`; round 3: `Cxxc-m?` / `Cxxd-m?` (repaired tree, rarely exercised paths).", "",
     "| id | property | own check | also caught by | change | first violation line |", "|---|---|---|---|---|---|"]
for r in rows:
    L.append("| " + " | ".join(r) + " |")
open(os.path.join(V, "seeded", "SUMMARY.md"), "w").write("\n".join(L) + "\n")
print(n, caught, [r[0] for r in rows if not r[2].startswith("caught")])
