#!/usr/bin/env python3
"""Regenerates MANIFEST.json from the table below (kept in one place so it stays valid)."""
import json, os, sys

HERE = os.path.dirname(os.path.dirname(os.path.abspath(__file__)))

CHECKS = {
    "C01": dict(
        category="translation_validation",
        technique="symbolic execution of generated Python + bp.py (own z3 BV proxies), unsat vs reference layout",
        text="For every message of the schema families the real generated encode() and the real bp.py are executed symbolically (all in-range values of every leaf at once); z3 proves out-bytes == specified layout per path, or returns values that are replayed natively.",
        note="Bounded by the schema families (F_shape, quick F_grid slice, seeded random tail); CPython int/bytearray modelled by guarded BV-192 / SymBytes, validated against native CPython on witness and extreme values every run; z3 trusted.",
        design="6/C01",
    ),
    "C02": dict(
        category="translation_validation",
        technique="symbolic execution of generated Python + bp.py (own z3 BV proxies): encode->decode->encode, unsat for all values",
        text="For every message of the families, encode() -> decode() into a fresh message -> encode() run symbolically through the real generated module and bp.py; z3 proves per path that no exception escapes, every decoded leaf equals the input leaf and lies in range, and the second encoding equals the first and the specified bytes; models are replayed natively before being reported.",
        note="Same bounds and trusted base as C01; enum leaves fork per member, sign handling is if-converted (declared AST transform); known finding D15 (enum without zero member) is reported as KNOWN-FINDING via its cause key.",
        design="6/C02",
    ),
    "C05": dict(
        category="translation_validation",
        technique="symbolic execution of the OLD generated decoder on the specified wire of the NEW schema (z3 BV), unsat per evolution",
        text="For every evolution (single steps and two-step chains of the two permitted extension steps on every extensible node of the family) the old version's real generated decoder runs symbolically on the specified encoding of the new version's symbolic values; z3 proves every old leaf equals the encoded value; models are replayed natively (new real encoder -> old real decoder).",
        note="Bounded family F_evo; runtimes covered are listed in evidence coverage.parts (Python and C (LLVM IR) now; Go via the Go-source interpreter when present).",
        design="6/C05",
    ),
    "C07": dict(
        category="translation_validation",
        technique="symbolic execution with unconstrained 128-bit integers (z3 BV): out bytes == layout of low n bits",
        text="The real Python encoder runs on messages whose integer leaves are free 128-bit ints; z3 proves the output equals the specified layout of each leaf's low n bits (no bit of another field or of padding changes), the length equals ceil(N/8) and the emitted BYTES_LENGTH equals ceil(N/8).",
        note="Python (unconstrained ints) and C (arbitrary storage of integer fields; every IR load/store bounds-checked against a buffer of exactly BYTES_LENGTH bytes and a struct of exactly sizeof bytes), standard and -O mode. Sanitizer and guard-zone builds named in the quantifier are not used (dynamic technique).",
        design="6/C07",
    ),
    "C12": dict(
        category="translation_validation",
        technique="differential symbolic execution of two generated encoders (Python; C runtime, C -O little- and big-endian paths as clang IR) on shared z3 variables, unsat bytes-differ query; native replay through gcc-built code",
        text="For each pair (schema, rewritten schema) of F_rw both real generated Python encoders are executed symbolically on corresponding leaves; z3 proves equal length and equal bytes for all values, without any reference model; models are replayed natively on both.",
        note="Bounded family F_rw (11 rewrites x ~20 bases + seeded random bases, compositions of 2-3).",
        design="6/C12",
    ),
    "C14": dict(
        category="translation_validation",
        technique="symbolic execution per grid cell (z3 BV): encode == spec and round trip for ALL values of the leaf",
        text="The property's own finite space {bool, byte, uint1..64, int1..64} x offset 0..7 x 6 positions is enumerated (thorough: completely; quick: fixed slice); for each cell one symbolic run proves encode == specified bits and decode(encode(v)) == v with pad/tail untouched for every value, which subsumes the basis values.",
        note="Runtimes covered are listed in evidence coverage.parts (Python, C LE/BE at -O0/-O2, C -O generator; Go when the engine is present).",
        design="6/C14",
    ),
    "C08": dict(
        category="other",
        technique="bounded symbolic execution of the real lexer/parser/validators under z3-Int proxies (token templates), all paths, accept <=> constraint predicate",
        text="Token templates (real Lexer on concrete text, designated literal/width tokens replaced by z3 integers) are run through the real ply parser and AST validators along every feasible path; per path z3 proves accepted <=> the documented-constraint predicate for all hole values, that only ParserError escapes and that it cites the offending file and line; one witness per path is re-parsed by the real compiler under normal builtins.",
        note="Bounded by the template catalogue (numeric rules at top level, nested 1-2 deep, via alias, via imported file; value-independent rules as concrete templates, marked so). CLI exit status / absence of output files are observed only when replaying violations.",
        design="6/C08",
    ),
    "C09": dict(
        category="other",
        technique="bounded symbolic execution (all paths) of real parser+linter+renderers over templates and token-level mutations; z3 regex inclusion and repetition-ambiguity queries for the lexer's token regexes; CrossHair on the escape loop; watchdog + real CLI for hangs",
        text="Kernel of totality: (a) every C08 template and constant-expression shape is explored along all paths for all values of its numeric holes, then linted and rendered by the real C/Go/Python renderers on accepting paths; (c) single token-level mutations (insert/replace/delete/truncate at every position over a 49-entry vocabulary with symbolic integer literals and widths) of four base schemas (thorough: pairs, free sequences); (d) edge-shaped schemas rendered for all values of their constants; (b) z3 proves by regex inclusion that every text a lexer rule can match satisfies its action's precondition, CrossHair confirms the escape loop. Only ParserError/OSError/RendererError may end a path; anything else is replayed through the real CLI (traceback) first.",
        note="Kernel only: arbitrary text (byte-level mutations) is outside (lexing is C code); token types and positions are enumerated, numeric values are the solver's; never-hangs: exponential backtracking of the token regexes is decided by an ambiguity query, everything else only within the time limits (a template that exceeds 120 s is replayed through the real CLI under 20 s). Known finding D3 (empty enum as Python field).",
        design="6/C09",
    ),
    "C13": dict(
        category="other",
        technique="symbolic execution of real parser+renderers on expression templates (z3 Int, float quotient model L_fpq): value term == independent evaluation, emitted literal term == value; symbolic backtracking interpretation of the string-token regex over symbolic characters (where a literal ends); CrossHair for string emission (+ a concrete Unicode sweep) and for the text -> value step of decimal integer tokens",
        text="All constant-expression shapes with <= 3 operators (flat and every parenthesisation; decimal/hex/referenced/imported operands, symbolic values) go through the real lexer+parser; z3 proves the constant's value equals an independent precedence-climbing evaluation, that the same term arrives as array capacity and max_bytes, and that the literal the real C/Go/Python renderers emit is the constant's own term; booleans by a literal table; strings by CrossHair over the real escape loop and format_str_value with a reference literal decoder.",
        note="`/` asserted where dividend >= 0 and divisor > 0; string emission: CrossHair 3-4 characters over printable ASCII + tab/CR/LF, beyond that only a concrete sweep of 46 code points x 5 contexts; token extent: opening quote + <= 9 (thorough 13) symbolic characters; integer tokens: decimal digit strings of <= 6 (thorough 9) digits by CrossHair, hex tokens only through the concrete spellings of the templates; decimal rendering itself is Python's str(int).",
        design="6/C13",
    ),
    "C11": dict(
        category="other",
        technique="symbolic execution of the real parser on shadowing templates (z3 Int widths): nbits() == width variable of the innermost visible earlier definition; BV encode == spec for the resolved definition",
        text="Placement variants (the name declared at each of the 4 enclosing levels none/before/after, dotted paths, first dotted component shadowed by a nested message or an import name, imports with/without `as`, constants) run through the real lexer+parser with symbolic widths; z3 proves accepted <=> a visible earlier definition exists and that the field's nbits() is the width variable of the innermost one; a second stage proves with the BV engine that the generated encoder uses the resolved definition's width and members.",
        note="Depth <= 3, one import level; the prefix-of-a-dotted-path case the property leaves open is avoided. My own resolver is encoded in the variant generator.",
        design="6/C11",
    ),
    "C20": dict(
        category="other",
        technique="symbolic execution of the real grammar actions and linter on synthetic tokens with symbolic line/offset/column (z3 Int); differential render-before/after-lint; exit logic for all warning counts",
        text="Kernel: (a) every definition kind and references at depth <= 2 are parsed from synthetic tokens whose line numbers, line-start offsets and columns are z3 integers; z3 proves lineno/1-based column of each name, brace positions, indent == column offset, the indent rule silent at 4*depth and firing on a wrong positive indent, and the enum-zero rule <=> no member is 0; (b) warnings of name-perturbed schemas cite file and line under enumerated layouts through the real lexer; (c) check-only mode calls fatal <=> parse error or (lint enabled and count > 0) for every count; (d) rendering before and after lint() is identical for all values of 4 templates.",
        note="Naming rules themselves (case converters, regexes) are outside; runs of blank lines are abstracted by one NEWLINE token (p_newline is idempotent); 1-based columns are the convention the language server documents.",
        design="6/C20",
    ),
    "C17": dict(
        category="other",
        technique="symbolic execution of _main.main over SymBool switches (exhaustive case split of the flag space) with a refusal predicate; textual differential of -F output",
        text="main() runs for real with -O and -c as symbolic booleans (forked by the engine), fatal() stubbed, over lang x endian x filter x marker placements (message, array, nested message, imported and transitively imported file); per path z3 checks refusal-with-diagnostic-and-no-output <=> (-O with a marker) or (-O for py) or (-F without -O); with -O -F every subset of message names is compared with the unfiltered output: exactly the named messages get Encode/Decode, textually identical, every declaration still emitted.",
        note="The flag space is finite: symbolic execution degenerates to an exhaustive case split (exhaustive: true), schemas are one bounded family; argparse and diagnostic wording are outside.",
        design="6/C17",
    ),
    "C03": dict(
        category="translation_validation",
        technique="symbolic interpretation of clang LLVM IR of generated C + bitproto.c (own interpreter, z3 BV, bounds-checked memory): encode/decode == reference for all values",
        text="The real generated C and the real bitproto.c are lowered by clang 14 (-O0..-O3, separate and single translation unit) and interpreted symbolically: Encode<Msg> on a struct of symbolic in-range leaves must give the specified bytes, Decode<Msg> of the specified bytes into a zeroed struct must give every field's storage as the sign/zero-extended leaf, for all values; data-dependent branches are if-converted; models are replayed natively through a gcc-built shared object.",
        note="Bounded by the schema families; trusted: clang front/middle end, my IR interpreter (validated against native gcc code on witness/extreme values every run), z3. Back end and gcc's optimiser are outside.",
        design="6/C03", engine="llsym",
    ),
    "C04": dict(
        category="translation_validation",
        technique="symbolic interpretation of clang LLVM IR of `bitproto c -O` output (x86-64 and s390x), Go -O via Go-source interpreter: == reference / standard mode for all values",
        text="For every traditional schema of the families the -O output is generated with --endian little/big/both, lowered for x86-64 (both preprocessor branches) and s390x, and interpreted symbolically: encode bytes == specified bytes (== standard mode, C03), decode into a zeroed struct == the values, for all values. The Go optimization-mode Encode/Decode statements are interpreted by the Go-source interpreter against the same reference (when that engine is present, see coverage.parts).",
        note="Go results are interpreter-only (no Go toolchain). C++ compilation of the output is outside.",
        design="6/C04", engine="llsym",
    ),
    "C06": dict(
        category="translation_validation",
        technique="symbolic interpretation of clang LLVM IR for a true big-endian target (s390x) with a big-endian memory model: same wire bytes as the little-endian reference",
        text="The runtime library and generated code are lowered by clang for s390x-linux-gnu (big-endian datalayout; the host-detection macros fire) and interpreted with big-endian storage: encode/decode against the same specified little-endian wire for all values, over the (width x offset x storage size) grid and the structural family; the -O big-endian branch on s390x and forced on x86-64.",
        note="No big-endian host to run natively: the BE configuration rests on the interpreter core validated on x86-64; counterexamples are reported as interpreter-only unless the forced -DBP_BIG_ENDIAN x86 build can reproduce them (unsigned, prefix-free messages; all -O output).",
        design="6/C06", engine="llsym",
    ),
    "C19": dict(
        category="translation_validation",
        technique="symbolic interpretation of the generated Go + lib/go/bitproto.go by an own Go-source interpreter (z3 BV): == reference (== Python); helper terms Go == Python on their whole domain",
        text="There is no Go toolchain, so the generated Go standard-mode output and the real Go runtime are executed from source by a Go-subset interpreter with z3 data: Encode() == specified bytes (== Python, C01), Decode() == values, Size() == ceil(N/8), struct fields hold their leaves, for all values over the families; the runtime's arithmetic helpers are proved equal to the Python helpers (run through pysym) on their whole argument domain.",
        note="Interpreter-only: fidelity of the Go interpreter is validated only against the reference/Python on extreme values; fails closed on constructs outside its subset. `Smallest covering type` is checked only in the too-small direction.",
        design="6/C19", engine="gosym",
    ),
    "C10": dict(
        category="other",
        technique="Python AST of the real formatter methods -> z3 sequence terms; pairwise injectivity / import-target equality queries; sat models compiled and confirmed by gcc / CPython; symbolic execution of the real BlockComposition.render over symbolic block kinds (closer nesting); plus labelled concrete observations over the schema family (gcc / clang++ layout, CPython import, Go static pass)",
        text="Kernel with a value quantifier: (1) the C name templates (array/message/alias processors and JSON formatters, field-descriptor initialiser, Encode/Decode/Json, user typedef names) are read from the current sources and translated to z3 string terms; for every pair z3 decides whether two distinct sources can yield the same identifier (identifiers <= 8 chars, numbers 1..255); (2) the import statement of C and Python names exactly the file the compiler generates, for every proto name and file stem. Each sat model becomes a schema that is compiled with the real compiler and gcc/CPython before it is reported.",
        note="Solver-decided: name injectivity, import target, closer nesting. compiles-as-C / C++ inclusion with equal layout / Python import / Go well-formedness are value-independent observations of single artefacts: no solver verdict exists for them; they are OBSERVED over the schema family as separate, labelled evidence parts (cxx-header, py-import, go-static). Reserved words are outside. Known findings D9, D9b (template pairs as cause keys, second key for collisions that survive letter-ending names), D12 (empty struct: sizeof 0 in C, 1 in C++).",
        design="6/C10", engine="tmplsym",
    ),
    "C16": dict(
        category="translation_validation",
        technique="symbolic execution of to_dict/to_json (json stub -> value tree, z3 BV) and of the C Json<Msg> IR (vsprintf stub -> segments): structure + leaf equality for all values",
        text="Python: to_dict() runs for real on a message with symbolic leaves and json.dumps is replaced by a stub implementing json's documented type table; C: Json<Msg> is interpreted from clang IR with a vsprintf stub yielding conversion/argument segments that a JSON structure parser consumes. Both must yield an object keyed by the field names in field-number order whose leaves equal the field values for all values (negative numbers, booleans, lists incl. byte arrays, nested objects, enums as numbers); witnesses are replayed through the real json module / the gcc-built library.",
        note="Characters of the decimal rendering (libc / json) and buffer capacity are outside; %lu with a 32-bit argument is recorded as UB-by-the-standard.",
        design="6/C16", engine="pysym+llsym",
    ),
    "C15": dict(
        category="other",
        technique="differential symbolic interpretation of generated C with/without c.name_prefix (z3 BV) + z3 string equality of the API-name templates read from the sources; plus a labelled concrete observation: an independent reference of the documented scheme (letters-only names) against the real outputs of the family",
        text="Kernel only (the clauses with a value quantifier): with c.name_prefix set, the C encoder/decoder found under their documented prefixed names meet the same reference bytes for all values, the offsetof/sizeof constants are identical, the size macro carries the upper-case prefix, and the Python and Go outputs are textually unchanged; the templates of Encode/Decode/Json{Name} and of the output file names are translated from the current sources to z3 strings and proved equal to the documented scheme for every name.",
        note="Not solver-decided: that every definition appears under exactly its schema name, Go field/JSON-tag naming, UPPER_SNAKE macro spelling, nested-name joining -- produced by character-inspecting code (case converters, regexes) that neither CrossHair nor z3 sequences can exhaust beyond 3-character strings here; these are OBSERVED (part documented-names) for names made of letters only over the family, plain and with c.name_prefix.",
        design="6/C15", engine="llsym+tmplsym",
    ),
    "C18": dict(
        category="other",
        technique="symbolic execution of the real compiler over a compilation HISTORY (A, B, A in one run with a new Parser each, z3 Int holes, both language orders, render/lint/render): outputs identical as text + terms, first output == fresh-process output; plus a labelled concrete observation of the process-level clauses (hash seed, directories, paths, -q) through the real CLI",
        text="Kernel only: the one clause with a value quantifier, `independent of whether other schemas were compiled earlier in the same process` (and, with C20d, of whether linting is enabled). In one symbolic run the real parser+linter+renderers compile schema A, then a schema B that re-uses A's names with other values / marks / constant kinds, then A again; for all values of the holes of A and B the first and third rendering of A (C header, C source, Go, Python) must be the same text with the same terms for every symbolic literal. A difference is confirmed natively (one process compiling A, B, A).",
        note="Not solver-decided, only observed on 12 runs x 3 languages of two schemas: independence of the process, PYTHONHASHSEED, working/output directory, relative vs absolute paths -- none is an input that can be made symbolic (the hash seed is fixed before the interpreter starts; id()-based hashing and dict order are properties of the runtime); deciding them means re-running the compiler, i.e. enumerating concrete runs.",
        design="6/C18",
    ),
}

NOT_APPLICABLE = {
}

NOT_YET = "check not built yet in this revision of /verif (see DESIGN.md section 6 for the planned solver-based check)"

def main():
    props = [json.loads(l)["id"] for l in open(os.path.join(HERE, "properties.jsonl"))]
    checks = []
    for pid in props:
        if pid not in CHECKS:
            continue
        c = CHECKS[pid]
        checks.append({
            "property_id": pid,
            "quick_cmd": f"./check {pid} quick",
            "thorough_cmd": f"./check {pid} thorough",
            "evidence_file": f"evidence/{pid}.json",
            "replay_cmd_template": f"./check {pid} --replay {{path}}",
            "engine": c.get("engine", "pysym"),
            "level_claimed": {"category": c["category"], "text": c["text"], "design_ref": c["design"]},
            "level_note": c["note"],
            "technique": c["technique"],
        })
    na = []
    for pid in props:
        if pid in CHECKS:
            continue
        na.append({"property_id": pid, "reason": NOT_APPLICABLE.get(pid, NOT_YET)})
    m = {
        "version": 1,
        "setup_cmd": "./setup.sh",
        "hooks": {
            "guard": "HIT9_BITPROTO_VERIF",
            "enable": "no hooks are needed: checks load /repo's sources directly (own loader / clang IR / Go-source interpreter)",
            "baseline_off_cmd": "cd /repo && /venv/bin/python -m pytest -ra -q -p no:cacheprovider --timeout=900 --continue-on-collection-errors",
            "source_commits": [],
            "add_only": True,
        },
        "engines": [
            {"name": "rxsym", "path": "vlib/rxsym.py", "serves_properties": ["C13", "C09"], "kind_free_text": "backtracking interpreter for Python `re` patterns (parsed by re._parser) over symbolic characters with the engine's match priorities (greedy / lazy, alternatives left to right); decides where a token ends, not only whether it is in the language; validated against re.match on every path's witness"},
            {"name": "tmplsym", "path": "vlib/tmplsym.py", "serves_properties": ["C10", "C15"], "kind_free_text": "translator from the ast of concatenation-template formatter methods to z3 sequence terms"},
            {"name": "gosym", "path": "vlib/gosym.py", "serves_properties": ["C04", "C05", "C14", "C19"], "kind_free_text": "tree-walking interpreter for the Go subset of lib/go/bitproto.go and generated Go (typed values, wrap-around arithmetic as z3 bit-vectors, Go shift semantics, interface dispatch, defer); no Go toolchain exists here"},
            {"name": "llsym", "path": "vlib/llsym.py", "serves_properties": ["C03", "C04", "C05", "C06", "C07", "C12", "C14", "C15", "C16"], "kind_free_text": "symbolic interpreter for clang-14 textual LLVM IR (z3 bit-vectors, concrete pointers, bounds-checked regions, if-conversion, DART forking), x86-64 and s390x data layouts"},
            {"name": "pysym", "path": "vlib/pysym.py", "serves_properties": ["C01", "C02", "C05", "C07", "C08", "C09", "C11", "C12", "C13", "C14", "C17", "C18", "C20"], "kind_free_text": "DART-style symbolic execution of the real Python sources with z3 proxies (BV-192 / Int)"},
        ],
        "checks": checks,
        "not_applicable": na,
        "notes": "Engine interpreter is the tooling venv (python3-vt: z3 5.1, cvc5 1.4, crosshair); /repo sources are loaded from the working tree on every run. Exit 0 = all obligations unsat; 1 = replayed violation; 2 = inconclusive.",
    }
    with open(os.path.join(HERE, "MANIFEST.json"), "w") as f:
        json.dump(m, f, indent=1)
        f.write("\n")

if __name__ == "__main__":
    main()
