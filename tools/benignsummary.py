#!/usr/bin/env python3
"""regenerate benign/SUMMARY.md from benign/*/meta.json"""
import glob
import json
import os

V = os.path.join(os.path.dirname(os.path.abspath(__file__)), "..")
rows = []
for mp in sorted(glob.glob(os.path.join(V, "benign", "*", "meta.json"))):
    m = json.load(open(mp))
    rows.append((m["id"], (m.get("summary") or "").replace("|", "/").replace("\n", " ")[:170], (m.get("observable_difference") or "").replace("|", "/").replace("\n", " ")[:90], m.get("tests", ""), m.get("demo_on_changed_tree", ""),
                 ",".join(m.get("alarms", [])) or "none", ",".join(m.get("inconclusive", [])) or "none"))
L = ["# Behaviour-preserving changes and what the checks do with them", "",
     f"{len(rows)} changes written by independent sub-agents (areas: B1 Python runtime, B2 C runtime, B3 C generators, B4 Python/Go generators, B5 front end, B6 CLI/linter); all 20 quick checks run against each (`tools/benigncheck.py`).",
     f"False alarms (exit 1): {sum(1 for r in rows if r[5] != 'none')}; changes with an inconclusive check (exit 2): {sum(1 for r in rows if r[6] != 'none')}.", "",
     "| id | change | observable difference | pinned tests | demo on changed tree | alarms (exit 1) | inconclusive (exit 2) |", "|---|---|---|---|---|---|---|"]
for r in rows:
    L.append("| " + " | ".join(r) + " |")
open(os.path.join(V, "benign", "SUMMARY.md"), "w").write("\n".join(L) + "\n")
print(len(rows), [r[0] for r in rows if r[5] != "none"], [r[0] for r in rows if r[6] != "none"])
