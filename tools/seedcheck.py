#!/usr/bin/env python3
"""Confirms seeded changes (scratch worktree: patch applies, the 62 pinned tests still pass
against the mutated tree, the demonstration fails with the change and passes without it), then
runs the registered checks against /repo with the change applied and records what catches it.
Usage: tools/seedcheck.py <seedout-dir> [ids...]"""
import json, os, shutil, subprocess, sys, tempfile, time

SEEDOUT = sys.argv[1]
ONLY = set(sys.argv[2:])
VERIF = os.path.dirname(os.path.dirname(os.path.abspath(__file__)))
REPO = "/repo"
TESTS = "tests/test_compiler tests/test_encoding/test_encoding.py::test_encoding_issue52"


def sh(cmd, cwd=None, env=None, timeout=1800):
    e = dict(os.environ)
    if env:
        e.update(env)
    return subprocess.run(cmd, shell=True, cwd=cwd, env=e, capture_output=True, text=True, timeout=timeout)


def apply_patch(tree, patch):
    r = sh(f"git -C {tree} apply {patch}")
    if r.returncode == 0:
        return True, "git apply"
    r = sh(f"patch -p1 --fuzz=3 --no-backup-if-mismatch < {patch}", cwd=tree)
    if r.returncode == 0:
        return True, "patch --fuzz=3 (rebased onto the fix commits)"
    sh(f"git -C {tree} checkout -- .")
    return False, r.stdout[-300:] + r.stderr[-300:]


def main():
    rows = []
    for prop in sorted(os.listdir(SEEDOUT)):
        for m in sorted(os.listdir(os.path.join(SEEDOUT, prop))):
            sid = f"{prop}-{m}"
            prop_id = prop[:3]
            if ONLY and sid not in ONLY and prop not in ONLY:
                continue
            d = os.path.join(SEEDOUT, prop, m)
            patch = os.path.join(d, "patch.diff")
            demo = next((os.path.join(d, f) for f in ("demo.py", "demo.sh") if os.path.exists(os.path.join(d, f))), None)
            if not os.path.exists(patch) or not demo:
                continue
            meta = json.load(open(os.path.join(d, "meta.json"))) if os.path.exists(os.path.join(d, "meta.json")) else {}
            wt = tempfile.mkdtemp(prefix="seedwt-")
            os.rmdir(wt)
            sh(f"git -C {REPO} worktree add -q --detach {wt} HEAD")
            ran = []
            try:
                ok, how = apply_patch(wt, patch)
                ran.append(f"apply: {how}")
                if not ok:
                    rows.append((sid, "PATCH-FAILS", how))
                    continue
                rebased = sh(f"git -C {wt} diff").stdout
                t = sh(f"/venv/bin/python -m pytest -q -p no:cacheprovider --timeout=900 {TESTS}", cwd=wt, env={"PYTHONPATH": f"{wt}/compiler:{wt}/lib/py"})
                tests_ok = " passed" in t.stdout and " failed" not in t.stdout
                ran.append("pytest (PYTHONPATH=<wt>/compiler:<wt>/lib/py): " + t.stdout.strip().split("\n")[-1])
                runner = "/venv/bin/python" if demo.endswith(".py") else "sh"
                dm = sh(f"{runner} {demo} {wt}", timeout=1800)
                ran.append(f"demo with change: exit {dm.returncode}")
                sh(f"git -C {wt} checkout -- .")
                dp = sh(f"{runner} {demo} {wt}", timeout=1800)
                ran.append(f"demo without change: exit {dp.returncode}")
                confirmed = tests_ok and dm.returncode != 0 and dp.returncode == 0
            finally:
                sh(f"git -C {REPO} worktree remove --force {wt}")
                shutil.rmtree(wt, ignore_errors=True)
            if not confirmed:
                rows.append((sid, "NOT-CONFIRMED", "; ".join(ran)))
                continue
            # run the registered checks against /repo with the change applied
            rp = os.path.join(tempfile.gettempdir(), f"seed-{sid}.diff")
            open(rp, "w").write(rebased)
            caught = {}
            try:
                ok, _ = apply_patch(REPO, rp)
                props = [prop_id] + [p for p in EXTRA.get(sid, [])]
                for p in props:
                    c = sh(f"./check {p} quick", cwd=VERIF, timeout=3600)
                    lines = [l for l in c.stdout.split("\n") if l.startswith("VIOLATION")]
                    first = ""
                    if lines:
                        i = c.stdout.split("\n").index(lines[0])
                        first = c.stdout.split("\n")[i + 1].strip()[:200]
                    caught[p] = {"exit": c.returncode, "violations": len(lines), "first": first, "inconclusive": [l[:200] for l in c.stdout.split("\n") if l.startswith("INCONCLUSIVE")][:2]}
            finally:
                sh(f"git -C {REPO} checkout -- .")
                sh(f"git -C {REPO} clean -fdq -e nothing >/dev/null 2>&1 || true")
            out = os.path.join(VERIF, "seeded", sid)
            os.makedirs(out, exist_ok=True)
            open(os.path.join(out, "patch.diff"), "w").write(rebased)
            shutil.copy(demo, os.path.join(out, os.path.basename(demo)))
            meta_out = {"id": sid, "property": prop_id, "summary": meta.get("summary", ""), "needs": meta.get("needs", ""), "files_changed": meta.get("files_changed", []),
                        "confirmed": {"what_i_ran": ran, "tests_still_pass": True, "demo_fails_with_change": True, "demo_passes_without": True, "base": sh(f"git -C {REPO} log --format=%h -1").stdout.strip()},
                        "checks": caught, "caught_by": [p for p, v in caught.items() if v["exit"] == 1 and v["violations"] > 0], "flagged_inconclusive_by": [p for p, v in caught.items() if v["exit"] == 2]}
            json.dump(meta_out, open(os.path.join(out, "meta.json"), "w"), indent=1)
            rows.append((sid, "caught by " + ",".join(meta_out["caught_by"]) if meta_out["caught_by"] else ("INCONCLUSIVE " + ",".join(meta_out["flagged_inconclusive_by"]) if meta_out["flagged_inconclusive_by"] else "MISSED"), caught.get(prop_id, {}).get("first", "")))
            print(rows[-1], flush=True)
    print("\n".join(f"{a:10} {b:30} {c}" for a, b, c in rows))


EXTRA = {
    "C03b-m2": ["C14"], "C07b-m1": ["C14", "C03"], "C14b-m1": ["C03"], "C03b-m1": ["C14"], "C06b-m2": ["C04"], "C19b-m2": ["C04"], "C05b-m2": ["C01"], "C20b-m2": ["C08"], "C20b-m1": ["C18"],
    "C10-m2": ["C01"], "C07-m2": ["C03"], "C10-m1": [], "C14-m1": ["C03"], "C05-m2": [], "C12-m1": ["C11"], "C12-m2": ["C13"], "C20-m2": [], "C02-m2": ["C01"],
}

if __name__ == "__main__":
    main()
