#!/usr/local/bin/python3-vt
"""Self-test of the schema generators (not a registered check): for a range of VERIF_SEED values every schema the
families produce -- F_shape with its random tail, every rewritten schema of F_rw, both sides of every F_evo pair -- must
be accepted by the real compiler on the pristine tree, and no checked message may exceed the enum-combination budget.
A rejected schema here is a bug in the generator (it would surface as a false alarm of C12 / C05 under that seed).

usage: tools/famcheck.py [first_seed last_seed] [quick|thorough]"""
from __future__ import annotations

import os
import sys

sys.path.insert(0, os.path.join(os.path.dirname(os.path.abspath(__file__)), ".."))

from vlib.common import Scratch, pmap  # noqa: E402
from vlib.compile import CompileError, compile_inproc, write_files  # noqa: E402
from vlib.families import f_evo, f_rw, f_shape  # noqa: E402


def accept(case, sc, tag, style=None):
    src = sc.path(tag)
    os.makedirs(src, exist_ok=True)
    files = case.proto.files(style) if style is not None else case.proto.files(getattr(case, "style", None))
    write_files(files, src)
    try:
        compile_inproc(src, case.proto.fname(), "py", sc.path(tag + "_out"))
    except CompileError as e:
        return f"{e}"
    return None


def one(job):
    sd, quick = job
    bad = []
    n = 0
    with Scratch() as sc:
        for c in f_shape(quick, sd):
            n += 1
            r = accept(c, sc, f"s{n}")
            if r and "reject" not in c.tags:
                bad.append(f"seed {sd} F_shape {c.name}: {r}")
        for rc in f_rw(quick, sd):
            n += 1
            r = accept(rc.b, sc, f"r{n}", rc.style_b)
            if r:
                bad.append(f"seed {sd} F_rw {rc.name}: {r}")
        for ec in f_evo(quick, sd):
            for side, c in (("old", ec.old), ("new", ec.new)):
                n += 1
                r = accept(c, sc, f"e{n}")
                if r:
                    bad.append(f"seed {sd} F_evo {ec.name} {side}: {r}")
    return n, bad


def main() -> int:
    a = int(sys.argv[1]) if len(sys.argv) > 2 else 1
    b = int(sys.argv[2]) if len(sys.argv) > 2 else 20
    quick = (sys.argv[3] if len(sys.argv) > 3 else "quick") == "quick"
    res = pmap(one, [(sd, quick) for sd in range(a, b + 1)])
    tot = 0
    rc = 0
    for st, r in res:
        if st != "ok":
            print("ERROR", r)
            rc = 1
            continue
        n, bad = r
        tot += n
        for x in bad:
            print("REJECTED", x)
            rc = 1
    print(f"{tot} generated schemas compiled, seeds {a}..{b}, {'quick' if quick else 'thorough'}")
    return rc


if __name__ == "__main__":
    sys.exit(main())
