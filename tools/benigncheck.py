#!/usr/bin/env python3
"""Run every quick check against behaviour-preserving changes (refactorings written by independent sub-agents):
apply to /repo, run all 20 checks, undo; store benign/<id>/{patch.diff, demo.py, meta.json}.  A VIOLATION here is a
false alarm of the machinery (or a change that is not equivalent after all: then say which).  PATCHES /repo.

usage: tools/benigncheck.py <outdir with <id>/m<k>/{patch.diff,meta.json,demo.py}> [ids]"""
import json
import os
import shutil
import subprocess
import sys

V = os.path.abspath(os.path.join(os.path.dirname(os.path.abspath(__file__)), ".."))
REPO = "/repo"
PROPS = os.environ.get("BENIGN_PROPS", "").split(",") if os.environ.get("BENIGN_PROPS") else [f"C{i:02d}" for i in range(1, 21)]


def sh(cmd, **kw):
    return subprocess.run(cmd, shell=True, capture_output=True, text=True, **kw)


def main():
    root = sys.argv[1]
    only = sys.argv[2:]
    if sh(f"git -C {REPO} status --short").stdout.strip():
        print("/repo is not clean")
        return 1
    for area in sorted(os.listdir(root)):
        if only and area not in only:
            continue
        for mk in sorted(os.listdir(os.path.join(root, area))):
            d = os.path.join(root, area, mk)
            if not os.path.exists(os.path.join(d, "patch.diff")):
                continue
            sid = f"{area}-{mk}"
            if os.environ.get("BENIGN_IDS") and sid not in os.environ["BENIGN_IDS"].split(","):
                continue
            meta = json.load(open(os.path.join(d, "meta.json"))) if os.path.exists(os.path.join(d, "meta.json")) else {}
            a = sh(f"git -C {REPO} apply {d}/patch.diff")
            if a.returncode:
                print(sid, "patch does not apply:", a.stderr[-200:])
                continue
            res = {}
            try:
                t = sh(f"cd {REPO} && /venv/bin/python -m pytest -q -p no:cacheprovider --timeout=900 tests/test_compiler tests/test_encoding/test_encoding.py::test_encoding_issue52 2>&1 | tail -1")
                tests = t.stdout.strip()
                demo = ""
                if os.path.exists(os.path.join(d, "demo.py")):
                    dm = sh(f"/venv/bin/python {d}/demo.py {REPO}", timeout=900)
                    demo = f"exit {dm.returncode}"
                for p in PROPS:
                    c = sh(f"./check {p} quick", cwd=V, timeout=3600)
                    out = c.stdout.split("\n")
                    viol = [l for l in out if l.startswith("VIOLATION")]
                    first = out[out.index(viol[0]) + 1].strip()[:240] if viol else ""
                    inc = [l[:240] for l in out if l.startswith("INCONCLUSIVE")][:2]
                    res[p] = {"exit": c.returncode, "violations": len(viol), "first": first, "inconclusive": inc}
            finally:
                sh(f"git -C {REPO} checkout -- . && git -C {REPO} clean -fdq")
            out = os.path.join(V, "benign", sid)
            os.makedirs(out, exist_ok=True)
            if os.environ.get("BENIGN_PROPS") and os.path.exists(os.path.join(out, "meta.json")):
                old = json.load(open(os.path.join(out, "meta.json")))["checks"]
                old.update(res)
                res = old
            shutil.copy(os.path.join(d, "patch.diff"), out)
            if os.path.exists(os.path.join(d, "demo.py")):
                shutil.copy(os.path.join(d, "demo.py"), out)
            meta_out = {"id": sid, "summary": meta.get("summary", ""), "why_equivalent": meta.get("why_equivalent", ""), "observable_difference": meta.get("observable_difference", ""),
                        "files_changed": meta.get("files_changed", []), "tests": tests, "demo_on_changed_tree": demo, "checks": res,
                        "alarms": [p for p, v in res.items() if v["exit"] == 1], "inconclusive": [p for p, v in res.items() if v["exit"] == 2]}
            json.dump(meta_out, open(os.path.join(out, "meta.json"), "w"), indent=1)
            print(sid, "tests:", tests, "| demo:", demo, "| alarms:", meta_out["alarms"], "| inconclusive:", meta_out["inconclusive"], flush=True)
            for p in meta_out["alarms"] + meta_out["inconclusive"]:
                print("    ", p, res[p]["first"] or res[p]["inconclusive"][:1], flush=True)
    return 0


if __name__ == "__main__":
    sys.exit(main())
