"""SchemaModel: my own data structure for bitproto schemas.

It prints `.bitproto` text and -- independently of the compiler's AST -- computes the resolved
type of every field, the flattened list of wire items (leaves and 16-bit prefixes) with their
bit offsets, N and ceil(N/8).  The reference encoder (`spec_*`) is built from these items only;
it shares no code with the compiler or the runtimes.
"""
from __future__ import annotations

from dataclasses import dataclass, field
from typing import Any, Dict, List, Optional, Sequence, Tuple, Union

# --------------------------------------------------------------------------- types


@dataclass
class TBase:
    kind: str  # 'bool' | 'byte' | 'uint' | 'int'
    n: int = 0

    def text(self) -> str:
        if self.kind in ("bool", "byte"):
            return self.kind
        return f"{self.kind}{self.n}"

    def width(self) -> int:
        return {"bool": 1, "byte": 8}.get(self.kind, self.n)


@dataclass
class TRef:
    """Reference to a named definition.  `target` is the definition the *generator* intends
    (its own resolution); `text_` is the (possibly dotted) name written in the schema."""

    target: Any  # Enum | Alias | Message
    text_: Optional[str] = None

    def text(self) -> str:
        return self.text_ or self.target.name


@dataclass
class TArray:
    el: Union[TBase, TRef]
    cap: int
    ext: bool = False
    cap_text: Optional[str] = None  # e.g. a constant name or nothing

    def text(self) -> str:
        return f"{self.el.text()}[{self.cap_text or self.cap}]" + ("'" if self.ext else "")


Type = Union[TBase, TRef, TArray]

# --------------------------------------------------------------------------- definitions


@dataclass
class Enum:
    name: str
    width: int
    members: List[Tuple[str, int]]
    comment: Optional[str] = None


@dataclass
class Alias:
    name: str
    to: Union[TBase, TArray]


@dataclass
class Const:
    name: str
    expr: str  # text of the right-hand side
    value: Any = None


@dataclass
class Field:
    type: Type
    name: str
    number: int
    comment: Optional[str] = None


@dataclass
class Message:
    name: str
    fields: List[Field] = field(default_factory=list)
    ext: bool = False
    nested: List[Any] = field(default_factory=list)  # Enum | Message, printed before fields
    options: List[Tuple[str, str]] = field(default_factory=list)
    comment: Optional[str] = None

    def sorted_fields(self) -> List[Field]:
        return sorted(self.fields, key=lambda f: f.number)


@dataclass
class Import:
    proto: "Proto"
    as_name: Optional[str] = None


@dataclass
class Proto:
    name: str
    defs: List[Any] = field(default_factory=list)  # Const | Enum | Alias | Message, in order
    imports: List[Import] = field(default_factory=list)
    options: List[Tuple[str, str]] = field(default_factory=list)
    filename: Optional[str] = None  # defaults to <name>.bitproto

    def fname(self) -> str:
        return self.filename or f"{self.name}.bitproto"

    def stem(self) -> str:
        return self.fname().rsplit(".", 1)[0]

    def messages(self) -> List[Message]:
        out: List[Message] = []

        def rec(ds: Sequence[Any]) -> None:
            for d in ds:
                if isinstance(d, Message):
                    rec(d.nested)
                    out.append(d)

        rec(self.defs)
        return out

    def files(self, style: Optional["Style"] = None) -> Dict[str, str]:
        """All files (this proto and, transitively, its imports): filename -> text."""
        out: Dict[str, str] = {}

        def rec(p: "Proto") -> None:
            if p.fname() in out:
                return
            out[p.fname()] = print_proto(p, style)
            for im in p.imports:
                rec(im.proto)

        rec(self)
        return out


# --------------------------------------------------------------------------- printer


@dataclass
class Style:
    semi: bool = False
    indent: str = "    "
    blank_between: int = 1
    comments: bool = False
    trailing_ws: bool = False


def print_proto(p: Proto, st: Optional[Style] = None) -> str:
    st = st or Style()
    out: List[str] = []
    sc = ";" if st.semi else ""
    if st.comments:
        out.append(f"// schema {p.name}")
    out.append(f"proto {p.name}{sc}")
    out.append("")
    for im in p.imports:
        if im.as_name:
            out.append(f'import {im.as_name} "{im.proto.fname()}"{sc}')
        else:
            out.append(f'import "{im.proto.fname()}"{sc}')
    for k, v in p.options:
        out.append(f"option {k} = {v}{sc}")
    if p.imports or p.options:
        out.append("")

    def pdef(d: Any, ind: str) -> None:
        if isinstance(d, Const):
            out.append(f"{ind}const {d.name} = {d.expr}{sc}")
        elif isinstance(d, Alias):
            out.append(f"{ind}type {d.name} = {d.to.text()}{sc}")
        elif isinstance(d, Enum):
            if st.comments or d.comment:
                out.append(f"{ind}// {d.comment or 'enum ' + d.name}")
            out.append(f"{ind}enum {d.name} : uint{d.width} {{")
            for n, v in d.members:
                out.append(f"{ind}{st.indent}{n} = {v}{sc}")
            out.append(f"{ind}}}")
        elif isinstance(d, Message):
            if st.comments or d.comment:
                out.append(f"{ind}// {d.comment or 'message ' + d.name}")
            out.append(f"{ind}message {d.name}{chr(39) if d.ext else ''} {{")
            for k, v in d.options:
                out.append(f"{ind}{st.indent}option {k} = {v}{sc}")
            for nd in d.nested:
                pdef(nd, ind + st.indent)
            for f in d.fields:
                if f.comment:
                    out.append(f"{ind}{st.indent}// {f.comment}")
                out.append(f"{ind}{st.indent}{f.type.text()} {f.name} = {f.number}{sc}")
            out.append(f"{ind}}}")
        else:
            raise TypeError(d)

    for d in p.defs:
        pdef(d, "")
        for _ in range(st.blank_between):
            out.append("")
    txt = "\n".join(out).rstrip("\n") + "\n"
    if st.trailing_ws:
        txt = "\n".join(l + ("  " if l and not l.lstrip().startswith("//") else "") for l in txt.split("\n"))
    return txt


# --------------------------------------------------------------------------- layout


@dataclass
class Leaf:
    path: Tuple[Any, ...]  # steps: ('f', field_name) | ('i', index)
    kind: str  # bool | byte | uint | int | enum
    n: int
    off: int
    enum: Optional[Enum] = None
    via_alias: bool = False

    @property
    def signed(self) -> bool:
        return self.kind == "int"

    def pname(self) -> str:
        s = ""
        for k, v in self.path:
            s += (("." if s else "") + v) if k == "f" else f"[{v}]"
        return s


@dataclass
class Prefix:
    off: int
    value: int
    what: str  # 'message' | 'array'
    path: Tuple[Any, ...]


@dataclass
class Layout:
    items: List[Union[Leaf, Prefix]]
    nbits: int

    @property
    def nbytes(self) -> int:
        return (self.nbits + 7) // 8

    def leaves(self) -> List[Leaf]:
        return [x for x in self.items if isinstance(x, Leaf)]

    def prefixes(self) -> List[Prefix]:
        return [x for x in self.items if isinstance(x, Prefix)]


def type_nbits(t: Type) -> int:
    if isinstance(t, TBase):
        return t.width()
    if isinstance(t, TArray):
        return t.cap * type_nbits(t.el) + (16 if t.ext else 0)
    tg = t.target
    if isinstance(tg, Enum):
        return tg.width
    if isinstance(tg, Alias):
        return type_nbits(tg.to)
    if isinstance(tg, Message):
        return message_nbits(tg)
    raise TypeError(tg)


def message_nbits(m: Message) -> int:
    return sum(type_nbits(f.type) for f in m.fields) + (16 if m.ext else 0)


def layout(m: Message) -> Layout:
    items: List[Union[Leaf, Prefix]] = []
    off = 0

    def rec_type(t: Type, path: Tuple[Any, ...], via_alias: bool) -> None:
        nonlocal off
        if isinstance(t, TBase):
            items.append(Leaf(path, t.kind, t.width(), off, None, via_alias))
            off += t.width()
        elif isinstance(t, TArray):
            if t.ext:
                items.append(Prefix(off, t.cap, "array", path))
                off += 16
            for k in range(t.cap):
                rec_type(t.el, path + (("i", k),), via_alias)
        else:
            tg = t.target
            if isinstance(tg, Enum):
                items.append(Leaf(path, "enum", tg.width, off, tg, via_alias))
                off += tg.width
            elif isinstance(tg, Alias):
                rec_type(tg.to, path, True)
            elif isinstance(tg, Message):
                rec_msg(tg, path)
            else:
                raise TypeError(tg)

    def rec_msg(mm: Message, path: Tuple[Any, ...]) -> None:
        nonlocal off
        if mm.ext:
            items.append(Prefix(off, message_nbits(mm), "message", path))
            off += 16
        for f in mm.sorted_fields():
            rec_type(f.type, path + (("f", f.name),), False)

    rec_msg(m, ())
    assert off == message_nbits(m), (off, message_nbits(m))
    return Layout(items, off)


# --------------------------------------------------------------------------- reference encoder


def spec_encode(lay: Layout, values: Dict[Tuple[Any, ...], int]) -> bytes:
    """Concrete reference encoder: wire bit k = bit (k - off_f) of leaf f (two's complement
    truncated to the width), prefixes as constants, bits >= N zero."""
    acc = 0
    for it in lay.items:
        if isinstance(it, Prefix):
            acc |= (it.value & 0xFFFF) << it.off
        else:
            v = int(values.get(it.path, 0))
            acc |= (v & ((1 << it.n) - 1)) << it.off
    return acc.to_bytes(lay.nbytes, "little") if lay.nbytes else b""


def spec_decode(lay: Layout, data: bytes) -> Dict[Tuple[Any, ...], int]:
    acc = int.from_bytes(data, "little")
    out: Dict[Tuple[Any, ...], int] = {}
    for it in lay.leaves():
        v = (acc >> it.off) & ((1 << it.n) - 1)
        if it.signed and v >> (it.n - 1):
            v -= 1 << it.n
        out[it.path] = v
    return out


def spec_bytes_z3(lay: Layout, terms: Dict[Tuple[Any, ...], Any]) -> List[Any]:
    """Reference encoder over z3 terms: `terms[path]` is a BitVec of exactly leaf.n bits (the
    low n bits of the value).  Returns a list of ceil(N/8) 8-bit terms."""
    import z3

    parts = []
    for it in lay.items:
        if isinstance(it, Prefix):
            parts.append(z3.BitVecVal(it.value & 0xFFFF, 16))
        else:
            t = terms[it.path]
            assert t.size() == it.n, (it.path, t.size(), it.n)
            parts.append(t)
    if not parts:
        return []
    pad = (-lay.nbits) % 8
    if pad:
        parts.append(z3.BitVecVal(0, pad))
    stream = z3.Concat(*reversed(parts)) if len(parts) > 1 else parts[0]
    return [z3.simplify(z3.Extract(8 * i + 7, 8 * i, stream)) for i in range(lay.nbytes)]


def leaf_range(l: Leaf) -> Tuple[int, int]:
    if l.kind == "int":
        return -(1 << (l.n - 1)), (1 << (l.n - 1)) - 1
    return 0, (1 << l.n) - 1
