"""Static well-formedness of a generated Go file (the part of C10 that needs no Go toolchain): the file parses in the
Go subset of E3, brackets balance, every import is used, every identifier that is not a selector is declared somewhere
in the file (package level, parameter, receiver, short variable declaration, struct field, composite-literal key),
predeclared, or the name of an import.  Token-level and deliberately permissive about *where* a local is visible: it
finds names that exist nowhere (a type of another file used without its package qualifier, a helper that was renamed)."""
from __future__ import annotations

from typing import Any, List, Set, Tuple

from .common import Inconclusive
from .gosym import Parser, golex

PREDECLARED = set("""bool byte complex64 complex128 error float32 float64 int int8 int16 int32 int64 rune string uint uint8 uint16 uint32
uint64 uintptr true false iota nil append cap close complex copy delete imag len make new panic print println real recover min max any _""".split())


def _type_fields(ty: Any, out: Set[str]) -> None:
    if isinstance(ty, tuple):
        if ty and ty[0] == "struct":
            for n, t in ty[1]:
                out.add(n)
                _type_fields(t, out)
        else:
            for x in ty[1:]:
                _type_fields(x, out)


def check(src: str, path: str = "") -> List[str]:
    """list of problems (empty = well formed); raises Inconclusive when the file is outside the parsed subset"""
    toks = golex(src)
    pkg, imports, decls = Parser(list(toks)).file()
    problems: List[str] = []
    # brackets
    stack: List[Tuple[str, int]] = []
    pair = {")": "(", "]": "[", "}": "{"}
    for t in toks:
        if t.k != "op":
            continue
        if t.v in "([{":
            stack.append((t.v, t.line))
        elif t.v in ")]}":
            if not stack or stack[-1][0] != pair[t.v]:
                problems.append(f"line {t.line}: unbalanced {t.v!r}")
                break
            stack.pop()
    if stack:
        problems.append(f"line {stack[-1][1]}: {stack[-1][0]!r} is never closed")
    # imports
    imp_names = []
    for nm, p in imports:
        name = nm or p.rstrip("/").split("/")[-1]
        if name != "_":
            imp_names.append(name)
    body_start = 0
    for i, t in enumerate(toks):
        if t.k == "kw" and t.v in ("type", "func", "var", "const"):
            body_start = i
            break
    used_pkgs = set()
    for i in range(body_start, len(toks) - 1):
        t = toks[i]
        if t.k == "id" and toks[i + 1].k == "op" and toks[i + 1].v == "." and not (i > 0 and toks[i - 1].k == "op" and toks[i - 1].v == "."):
            used_pkgs.add(t.v)
    for name in imp_names:
        if name not in used_pkgs:
            problems.append(f"import {name!r} is not used")
    # declarations
    declared: Set[str] = set(imp_names)
    for d in decls:
        if d[0] == "func":
            _, name, recv, params, results, _body = d
            declared.add(name)  # functions, and method names where they are declared
            if recv is not None:
                declared.add(recv[0])
            for n, _t in list(params) + list(results):
                if n:
                    declared.add(n)
        elif d[0] == "type":
            declared.add(d[1])
            _type_fields(d[2], declared)
        elif d[0] in ("var", "const"):
            declared.update(d[1])
    n = len(toks)
    for i, t in enumerate(toks):
        if t.k != "id":
            continue
        nxt = toks[i + 1] if i + 1 < n else None
        # short variable declarations and range clauses: a, b := ...
        if nxt is not None and nxt.k == "op" and nxt.v in (":=", ","):
            j = i
            names = []
            while j < n and toks[j].k == "id" and toks[j + 1].k == "op" and toks[j + 1].v == ",":
                names.append(toks[j].v)
                j += 2
            if j < n and toks[j].k == "id" and toks[j + 1].k == "op" and toks[j + 1].v == ":=":
                names.append(toks[j].v)
                declared.update(names)
        if i > 0 and toks[i - 1].k == "kw" and toks[i - 1].v in ("var", "const", "type", "func"):
            declared.add(t.v)
        if nxt is not None and nxt.k == "op" and nxt.v == ":" and not (i > 0 and toks[i - 1].k == "kw" and toks[i - 1].v == "case"):
            declared.add(t.v)  # composite-literal key or label
    for i in range(body_start, n):
        t = toks[i]
        if t.k != "id":
            continue
        if i > 0 and toks[i - 1].k == "op" and toks[i - 1].v == ".":
            continue  # selector: resolved against a type, not a scope
        if t.v in declared or t.v in PREDECLARED:
            continue
        problems.append(f"line {t.line}: identifier {t.v!r} is declared nowhere in the file and is not qualified by an import")
    # de-duplicate, keep order
    seen = set()
    out = []
    for p in problems:
        key = p.split(": ", 1)[-1]
        if key not in seen:
            seen.add(key)
            out.append(p)
    return out
