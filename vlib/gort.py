"""Go-side harness pieces for E3: real compiler -> generated Go -> gosym; mapping of schema
leaves onto Go struct fields (by position: struct fields are in field-number order)."""
from __future__ import annotations

import os
from typing import Any, Dict, List, Optional, Tuple

import z3

from . import gosym
from .common import REPO, Inconclusive
from .compile import CompileError, compile_inproc, write_files
from .families import Case
from .gosym import BASIC, Arr, Interp, Ptr, Slice, SliceT, Struct, V, under
from .schema import Alias, Enum, Layout, Leaf, Message, TArray, TBase, TRef, layout

GOLIB = os.path.join(REPO, "lib", "go", "bitproto.go")
GOLIB_PATH = "github.com/hit9/bitproto/lib/go"


class GoBuild:
    def __init__(self, case: Case, scratch_dir: str, optimize: bool = False, tag: str = ""):
        self.case = case
        self.dir = os.path.join(scratch_dir, f"go_{case.name}{tag}")
        self.src = os.path.join(self.dir, "src")
        self.gen = os.path.join(self.dir, "gen")
        os.makedirs(self.src, exist_ok=True)
        files = case.proto.files(getattr(case, "style", None))
        write_files(files, self.src)
        self.stems = []
        for fn in files:
            compile_inproc(self.src, fn, "go", self.gen, optimize=optimize)
            self.stems.append(fn.rsplit(".", 1)[0])

    def interp(self) -> Tuple[Interp, Any]:
        I = Interp()
        I.load(GOLIB, GOLIB_PATH)
        # imported packages first (reverse order of discovery: dependencies are discovered after their users)
        for st in reversed(self.stems[1:]):
            I.load(os.path.join(self.gen, st + "_bp.go"), st + "_bp")
        main = I.load(os.path.join(self.gen, self.stems[0] + "_bp.go"), self.stems[0] + "_bp")
        return I, main


def go_type_name(chain: List[str]) -> str:
    return "".join(chain)


def leaf_slots(I: Interp, gval: Any, msg: Message) -> List[Tuple[Any, Any]]:
    """(container, key) of every leaf of msg inside the Go value gval, in layout order.
    container is a dict (struct fields) or a list (array elements)."""
    out: List[Tuple[Any, Any]] = []

    def rec_type(t: Any, cont: Any, key: Any) -> None:
        v = cont[key]
        if isinstance(t, TBase):
            out.append((cont, key))
        elif isinstance(t, TArray):
            if not isinstance(v, Arr) or len(v.els) != t.cap:
                raise Inconclusive(f"Go value for array {t.text()} is {type(v).__name__} of {len(getattr(v, 'els', []))}")
            for k in range(t.cap):
                rec_type(t.el, v.els, k)
        else:
            tg = t.target
            if isinstance(tg, Enum):
                out.append((cont, key))
            elif isinstance(tg, Alias):
                rec_type(tg.to, cont, key)
            elif isinstance(tg, Message):
                if not isinstance(v, Struct):
                    raise Inconclusive(f"Go value for message {tg.name} is {type(v).__name__}")
                rec_msg(tg, v)
            else:
                raise TypeError(tg)

    def rec_msg(m: Message, st: Struct) -> None:
        keys = list(st.f.keys())
        fs = m.sorted_fields()
        if len(keys) != len(fs):
            raise Inconclusive(f"Go struct for {m.name} has {len(keys)} fields, schema has {len(fs)}")
        for k, f in zip(keys, fs):
            rec_type(f.type, st.f, k)

    rec_msg(msg, gval)
    return out


def set_leaf(slot: Tuple[Any, Any], l: Leaf, term: Any) -> None:
    cont, key = slot
    cur = cont[key]
    if not isinstance(cur, V):
        raise Inconclusive(f"leaf {l.pname()} is a {type(cur).__name__} in Go")
    u = under(cur.t)
    if isinstance(u, gosym.BoolT):
        if l.kind != "bool":
            raise Inconclusive(f"leaf {l.pname()} is bool in Go but {l.kind} in the schema")
        cont[key] = V(cur.t, (term == 1) if gosym.is_sym(term) else bool(term))
        return
    if not isinstance(u, gosym.IntT):
        raise Inconclusive(f"leaf {l.pname()} has Go type {cur.t}")
    if isinstance(term, int):
        cont[key] = V(cur.t, term & ((1 << u.bits) - 1))
        return
    n = term.size()
    if u.bits < n:
        raise GoTypeTooSmall(f"Go type {cur.t} ({u.bits} bits) cannot hold {l.pname()} ({n} bits)")
    if u.bits > n:
        term = z3.SignExt(u.bits - n, term) if l.kind == "int" else z3.ZeroExt(u.bits - n, term)
    if (l.kind == "int") != u.signed and l.kind in ("int", "uint"):
        raise GoTypeTooSmall(f"Go type {cur.t} signedness differs from {l.kind}{l.n} at {l.pname()}")
    cont[key] = V(cur.t, gosym.simp(term))


class GoTypeTooSmall(Exception):
    pass


def get_leaf(slot: Tuple[Any, Any], l: Leaf) -> Tuple[Any, int, bool]:
    """(value term or python value, bits, is_bool)"""
    cont, key = slot
    cur = cont[key]
    u = under(cur.t)
    if isinstance(u, gosym.BoolT):
        return cur.v, 1, True
    return cur.v, u.bits, False


def go_bytes(sl: Any) -> List[Any]:
    if not isinstance(sl, Slice):
        raise Inconclusive(f"Encode() returned {type(sl).__name__}")
    return [b.v for b in sl.arr[sl.off:sl.off + sl.len]]


def wire_slice(cells: List[Any]) -> Slice:
    return Slice([V(BASIC["uint8"], c) for c in cells], 0, len(cells), SliceT(BASIC["uint8"]))
