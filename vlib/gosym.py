"""E3 `gosym`: symbolic interpreter for the Go subset used by lib/go/bitproto.go and the
generated Go files (there is no Go toolchain in this sandbox, so no go/ssa: the translator
works from source).  Values carry their Go type; arithmetic wraps at the type's width
(z3 bit-vectors), shifts follow the Go spec, untyped constants adopt the other operand's type.
Function bodies are parsed on first call.  Anything outside the subset in *executed* code
raises Unsupported (-> inconclusive).  Symbolic `if` of the shape `if c { return A }; return B`
is merged into an ite, any other symbolic condition forks DART-style through pysym.ENGINE."""
import re, sys, time
import z3
from . import pysym
from .common import Inconclusive

# ---------------- lexer
KW = {'package', 'import', 'var', 'const', 'type', 'func', 'struct', 'interface', 'return', 'if', 'else', 'for', 'range', 'switch',
      'case', 'default', 'defer', 'break', 'continue', 'map', 'chan', 'go', 'select', 'fallthrough', 'goto'}
OPS = ['<<=', '>>=', '&^=', '...', '&&', '||', '<-', '++', '--', '==', '!=', '<=', '>=', ':=', '+=', '-=', '*=', '/=', '%=', '&=', '|=', '^=', '<<', '>>', '&^',
       '+', '-', '*', '/', '%', '&', '|', '^', '<', '>', '=', '!', '(', ')', '[', ']', '{', '}', ',', ';', '.', ':']
class Tok:
    __slots__ = ('k', 'v', 'line')
    def __init__(s, k, v, line): s.k = k; s.v = v; s.line = line
    def __repr__(s): return f"{s.k}:{s.v}"
def golex(src):
    toks = []; i = 0; n = len(src); line = 1
    def need_semi():
        if not toks: return False
        t = toks[-1]
        return t.k in ('id', 'int', 'str') or (t.k == 'kw' and t.v in ('return', 'break', 'continue', 'fallthrough')) or (t.k == 'op' and t.v in ('++', '--', ')', ']', '}'))
    while i < n:
        c = src[i]
        if c == '\n':
            if need_semi(): toks.append(Tok('op', ';', line))
            line += 1; i += 1; continue
        if c in ' \t\r': i += 1; continue
        if src.startswith('//', i):
            j = src.find('\n', i); i = n if j < 0 else j; continue
        if src.startswith('/*', i):
            j = src.find('*/', i); line += src.count('\n', i, j); i = j + 2; continue
        if c == '"':
            j = i + 1
            while src[j] != '"':
                j += 2 if src[j] == '\\' else 1
            toks.append(Tok('str', src[i + 1:j], line)); i = j + 1; continue
        if c == '`':
            j = src.find('`', i + 1); toks.append(Tok('str', src[i + 1:j], line)); i = j + 1; continue
        m = re.compile(r'0[xX][0-9a-fA-F]+|\d+').match(src, i)
        if m: toks.append(Tok('int', int(m.group(0), 0), line)); i = m.end(); continue
        m = re.compile(r'[A-Za-z_][A-Za-z0-9_]*').match(src, i)
        if m:
            w = m.group(0); toks.append(Tok('kw' if w in KW else 'id', w, line)); i = m.end(); continue
        for o in OPS:
            if src.startswith(o, i): toks.append(Tok('op', o, line)); i += len(o); break
        else: raise Unsupported(f"go lex {src[i:i+20]!r} line {line}")
    if need_semi(): toks.append(Tok('op', ';', line))
    toks.append(Tok('eof', None, line))
    return toks

# ---------------- parser (AST as tuples)
class Parser:
    def __init__(s, toks): s.t = toks; s.i = 0; s.nolit = 0
    def pk(s, k=0): return s.t[s.i + k]
    def nx(s): t = s.t[s.i]; s.i += 1; return t
    def isop(s, v, k=0): t = s.pk(k); return t.k == 'op' and t.v == v
    def iskw(s, v, k=0): t = s.pk(k); return t.k == 'kw' and t.v == v
    def acc(s, v):
        if s.isop(v): s.i += 1; return True
        return False
    def exp(s, v):
        t = s.nx()
        if not (t.k == 'op' and t.v == v): raise Unsupported(f"go parse: expected {v} got {t} line {t.line}")
    def ident(s):
        t = s.nx()
        if t.k != 'id': raise Unsupported(f"go parse: identifier expected got {t} line {t.line}")
        return t.v
    def skipsemi(s):
        while s.acc(';'): pass
    # ---- file
    def file(s):
        decls = []; s.skipsemi()
        assert s.iskw('package'); s.nx(); pkg = s.ident(); s.skipsemi()
        imports = []
        while s.iskw('import'):
            s.nx()
            if s.acc('('):
                while not s.acc(')'):
                    nm = s.nx().v if s.pk().k == 'id' else None
                    imports.append((nm, s.nx().v)); s.skipsemi()
            else:
                nm = s.nx().v if s.pk().k == 'id' else None
                imports.append((nm, s.nx().v))
            s.skipsemi()
        while s.pk().k != 'eof':
            decls.extend(s.topdecl()); s.skipsemi()
        return pkg, imports, decls
    def topdecl(s):
        t = s.pk()
        if s.iskw('func'): return [s.funcdecl()]
        if s.iskw('type'):
            s.nx(); name = s.ident(); alias = s.acc('='); ty = s.type(); return [('type', name, ty, alias)]
        if s.iskw('var') or s.iskw('const'):
            kind = s.nx().v; out = []
            def one(prev):
                names = [s.ident()]
                while s.acc(','): names.append(s.ident())
                ty = None
                if not s.isop('=') and not s.isop(';') and not s.isop(')'): ty = s.type()
                vals = None
                if s.acc('='):
                    vals = [s.expr()]
                    while s.acc(','): vals.append(s.expr())
                return (kind, names, ty, vals)
            if s.acc('('):
                while not s.acc(')'):
                    out.append(one(None)); s.skipsemi()
            else: out.append(one(None))
            return out
        raise Unsupported(f"go topdecl {t} line {t.line}")
    def funcdecl(s):
        s.nx(); recv = None
        if s.acc('('):
            rn = s.ident(); ptr = s.acc('*'); rt = s.ident(); s.exp(')'); recv = (rn, ptr, rt)
        name = s.ident(); params = s.params(); results = []
        if s.isop('('): results = s.params()
        elif not s.isop('{'): results = [(None, s.type())]
        # capture body lazily
        start = s.i; depth = 0
        while True:
            t = s.nx()
            if t.k == 'op' and t.v == '{': depth += 1
            elif t.k == 'op' and t.v == '}':
                depth -= 1
                if depth == 0: break
        return ('func', name, recv, params, results, (start, s.i))
    def params(s):
        s.exp('('); groups = []
        while not s.acc(')'):
            # either "a, b T" or "T"
            if s.pk().k == 'id' and (s.isop(',', 1) or (not s.isop(')', 1) and not s.isop('.', 1))):
                names = [s.ident()]
                while s.acc(','): names.append(s.ident())
                ty = s.type()
                for n in names: groups.append((n, ty))
            else: groups.append((None, s.type()))
            s.acc(',')
        return groups
    def type(s):
        if s.acc('*'): return ('ptr', s.type())
        if s.acc('('): t = s.type(); s.exp(')'); return t
        if s.acc('['):
            if s.acc(']'): return ('slice', s.type())
            n = s.expr(); s.exp(']'); return ('array', n, s.type())
        if s.iskw('struct'):
            s.nx(); s.exp('{'); fields = []; s.skipsemi()
            while not s.acc('}'):
                names = [s.ident()]
                while s.acc(','): names.append(s.ident())
                ty = s.type()
                if s.pk().k == 'str': s.nx()
                for n in names: fields.append((n, ty))
                s.skipsemi()
            return ('struct', fields)
        if s.iskw('interface'):
            s.nx(); s.exp('{'); depth = 1
            while depth:
                t = s.nx()
                if t.k == 'op' and t.v == '{': depth += 1
                if t.k == 'op' and t.v == '}': depth -= 1
            return ('interface',)
        if s.iskw('func'):
            s.nx(); s.params()
            if s.isop('('): s.params()
            elif s.pk().k in ('id',) or s.isop('*') or s.isop('['): s.type()
            return ('functype',)
        name = s.ident()
        if s.acc('.'): return ('qname', name, s.ident())
        return ('name', name)
    # ---- statements
    def block(s):
        s.exp('{'); out = []; s.skipsemi()
        while not s.acc('}'):
            out.append(s.stmt()); s.skipsemi()
        return ('block', out)
    def simple(s):
        lhs = [s.expr()]
        while s.acc(','): lhs.append(s.expr())
        t = s.pk()
        if t.k == 'op' and t.v in ('=', ':=', '+=', '-=', '|=', '&=', '^=', '<<=', '>>=', '*=', '/=', '%=', '&^='):
            s.nx()
            if s.iskw('range'):
                s.nx(); return ('rangeassign', lhs, s.expr())
            rhs = [s.expr()]
            while s.acc(','): rhs.append(s.expr())
            return ('assign', t.v, lhs, rhs)
        if t.k == 'op' and t.v in ('++', '--'):
            s.nx(); return ('assign', '+=' if t.v == '++' else '-=', lhs, [('int', 1)])
        return ('expr', lhs[0])
    def stmt(s):
        if s.isop('{'): return s.block()
        if s.iskw('return'):
            s.nx(); vals = []
            if not s.isop(';') and not s.isop('}'):
                vals.append(s.expr())
                while s.acc(','): vals.append(s.expr())
            return ('return', vals)
        if s.iskw('defer'): s.nx(); return ('defer', s.expr())
        if s.iskw('break'): s.nx(); return ('break',)
        if s.iskw('continue'): s.nx(); return ('continue',)
        if s.iskw('var'):
            d = s.topdecl(); return ('vardecl', d)
        if s.iskw('if'):
            s.nx(); s.nolit += 1
            init = None; c = s.simple()
            if s.acc(';'): init = c; c = s.simple()
            s.nolit -= 1
            assert c[0] == 'expr'; then = s.block(); els = None
            if s.iskw('else'):
                s.nx(); els = s.stmt() if s.iskw('if') else s.block()
            return ('if', init, c[1], then, els)
        if s.iskw('for'):
            s.nx(); s.nolit += 1
            init = cond = post = None; rng = None
            if s.isop('{'): pass
            else:
                first = None if s.isop(';') else s.simple()
                if first and first[0] == 'rangeassign': rng = first
                elif s.acc(';'):
                    init = first
                    cond = None if s.isop(';') else s.simple()[1]
                    s.exp(';')
                    post = None if s.isop('{') else s.simple()
                else: cond = first[1]
            s.nolit -= 1
            body = s.block()
            if rng: return ('forrange', rng[1], rng[2], body)
            return ('for', init, cond, post, body)
        if s.iskw('switch'):
            s.nx(); s.nolit += 1; tag = None if s.isop('{') else s.simple()[1]; s.nolit -= 1
            s.exp('{'); cases = []; s.skipsemi()
            while not s.acc('}'):
                if s.iskw('default'): s.nx(); vals = None
                else:
                    assert s.iskw('case'); s.nx(); vals = [s.expr()]
                    while s.acc(','): vals.append(s.expr())
                s.exp(':'); body = []; s.skipsemi()
                while not (s.iskw('case') or s.iskw('default') or s.isop('}')):
                    body.append(s.stmt()); s.skipsemi()
                cases.append((vals, body))
            return ('switch', tag, cases)
        return s.simple()
    # ---- expressions
    PREC = [['||'], ['&&'], ['==', '!=', '<', '<=', '>', '>='], ['+', '-', '|', '^'], ['*', '/', '%', '<<', '>>', '&', '&^']]
    def expr(s, lvl=0):
        if lvl == len(s.PREC): return s.unary()
        l = s.expr(lvl + 1)
        while s.pk().k == 'op' and s.pk().v in s.PREC[lvl]:
            o = s.nx().v; r = s.expr(lvl + 1); l = ('bin', o, l, r)
        return l
    def unary(s):
        t = s.pk()
        if t.k == 'op' and t.v in ('-', '!', '^', '&', '*', '+'):
            s.nx(); return ('un', t.v, s.unary())
        return s.primary()
    def primary(s):
        t = s.nx()
        if t.k == 'int': e = ('int', t.v)
        elif t.k == 'str': e = ('str', t.v)
        elif t.k == 'op' and t.v == '(':
            save = s.nolit; s.nolit = 0; e = s.expr(); s.nolit = save; s.exp(')'); e = ('paren', e)
        elif t.k == 'op' and t.v == '[':
            s.i -= 1; ty = s.type(); e = ('typeexpr', ty)
        elif t.k == 'kw' and t.v in ('struct', 'func', 'interface', 'map'):
            raise Unsupported(f"go unsupported literal {t} line {t.line}")
        elif t.k == 'id': e = ('id', t.v)
        else: raise Unsupported(f"go primary {t} line {t.line}")
        while True:
            if s.acc('.'): e = ('sel', e, s.ident())
            elif s.acc('('):
                save = s.nolit; s.nolit = 0; args = []
                while not s.acc(')'):
                    args.append(s.expr()); s.acc(',')
                s.nolit = save; e = ('call', e, args)
            elif s.acc('['):
                save = s.nolit; s.nolit = 0
                a = None if s.isop(':') else s.expr()
                if s.acc(':'):
                    b = None if s.isop(']') else s.expr(); s.exp(']'); e = ('slice', e, a, b)
                else: s.exp(']'); e = ('index', e, a)
                s.nolit = save
            elif s.isop('{') and not s.nolit and e[0] in ('id', 'sel', 'typeexpr'):
                s.nx(); els = []; s.skipsemi()
                while not s.acc('}'):
                    v = s.expr()
                    if s.acc(':'): v = ('kv', v, s.expr())
                    els.append(v); s.acc(','); s.skipsemi()
                e = ('complit', e, els)
            else: return e

# ---------------- runtime
class GoType:
    pass
class IntT(GoType):
    def __init__(s, name, bits, signed): s.name = name; s.bits = bits; s.signed = signed
    def __repr__(s): return s.name
class BoolT(GoType):
    def __repr__(s): return 'bool'
class StrT(GoType): pass
class NamedT(GoType):
    def __init__(s, name, under, pkg): s.name = name; s.under = under; s.pkg = pkg; s.methods = {}
    def __repr__(s): return s.name
class StructT(GoType):
    def __init__(s, fields): s.fields = fields
class PtrT(GoType):
    def __init__(s, to): s.to = to
class SliceT(GoType):
    def __init__(s, el): s.el = el
class ArrT(GoType):
    def __init__(s, n, el): s.n = n; s.el = el
class IfaceT(GoType): pass
class FuncT(GoType): pass
BASIC = {n: IntT(n, b, sg) for n, b, sg in [('int8', 8, True), ('int16', 16, True), ('int32', 32, True), ('int64', 64, True), ('int', 64, True),
                                           ('uint8', 8, False), ('uint16', 16, False), ('uint32', 32, False), ('uint64', 64, False), ('uint', 64, False)]}
BASIC['byte'] = BASIC['uint8']; BASIC['bool'] = BoolT(); BASIC['string'] = StrT()
def under(t):
    while isinstance(t, NamedT): t = t.under
    return t
def is_sym(v): return isinstance(v, z3.ExprRef)
def simp(v):
    if is_sym(v):
        v = z3.simplify(v)
        if z3.is_bv_value(v): return v.as_long()
        if z3.is_true(v): return True
        if z3.is_false(v): return False
    return v
class V:
    """typed value; t None = untyped constant"""
    __slots__ = ('t', 'v')
    def __init__(s, t, v): s.t = t; s.v = v
    def __repr__(s): return f"V({s.t},{s.v})"
class Struct:
    def __init__(s, t, f): s.t = t; s.f = f
class Ptr:
    def __init__(s, obj): s.obj = obj  # pointer to Struct (mutable) or Ref
class Slice:
    def __init__(s, arr, off, ln, t): s.arr = arr; s.off = off; s.len = ln; s.t = t
class Arr:
    def __init__(s, t, els): s.t = t; s.els = els
class Opaque:
    def __init__(s, n): s.n = n
class Pkg:
    def __init__(s, name): s.name = name; s.scope = {}; s.types = {}; s.funcs = {}; s.toks = None
class Func:
    def __init__(s, decl, pkg, recv=None): s.decl = decl; s.pkg = pkg; s.recv = recv; s.body = None
class Bound:
    def __init__(s, fn, recv): s.fn = fn; s.recv = recv
class TypeRef:
    def __init__(s, t): s.t = t
class Ret(Exception):
    def __init__(s, v): s.v = v
class Brk(Exception): pass
class Cont(Exception): pass
class Unsupported(Inconclusive): pass
class GoPanic(Exception):
    """a run-time panic of the interpreted Go program (index out of range, nil dereference)"""
class GoTypeError(GoPanic):
    """the interpreted program violates Go's static typing where this interpreter can see it (operands of a binary
    operation or the two sides of an assignment have different types): the Go compiler would reject the file"""
def same_type(a, b):
    return a is b or (isinstance(a, IntT) and isinstance(b, IntT) and a.name == b.name) or (isinstance(a, BoolT) and isinstance(b, BoolT)) or (isinstance(a, StrT) and isinstance(b, StrT))
def _tname(t): return getattr(t, 'name', None) or repr(t)
def _assignable(val, t, what):
    """Go assignability for the scalar cases that occur in generated code: an untyped constant fits; otherwise identical
    types (a defined type and its underlying predeclared type are NOT assignable to one another)"""
    if isinstance(val, V) and val.t is not None and t is not None and isinstance(under(t), (IntT, BoolT, StrT)) and isinstance(under(val.t), (IntT, BoolT, StrT)) and not same_type(val.t, t):
        raise GoTypeError(f"compile error: cannot use a value of type {_tname(val.t)} as {_tname(t)} in {what}")
NIL = V(None, None)
def _chk(ok, i, n):
    if not ok: raise GoPanic(f"index out of range [{i}] with length {n}")

def wrap(t, x):
    """wrap python int / z3 to type t width"""
    u = under(t)
    if is_sym(x): return simp(x)
    return x & ((1 << u.bits) - 1)
def tobv(x, bits): return x if is_sym(x) else z3.BitVecVal(x, bits)
def signed(x, bits): return x - (1 << bits) if x >> (bits - 1) else x

class Interp:
    def __init__(s): s.pkgs = {}; s.steps = 0
    def load(s, path, importpath=None):
        src = open(path).read(); toks = golex(src); p = Parser(toks); name, imports, decls = p.file()
        pkg = Pkg(name); pkg.toks = toks; s.pkgs[importpath or name] = pkg
        for nm, ip in imports:
            key = ip if ip in s.pkgs else next((k for k in s.pkgs if k.split('/')[-1] == ip.split('/')[-1]), None)
            if key is not None: pkg.scope[nm or s.pkgs[key].name] = s.pkgs[key]
            else: pkg.scope[nm or ip.split('/')[-1]] = Opaque(ip)
        # types first
        for d in decls:
            if d[0] == 'type':
                nt = NamedT(d[1], None, pkg); pkg.types[d[1]] = nt; nt._decl = d
        for d in decls:
            if d[0] == 'type':
                nt = pkg.types[d[1]]; nt.under = s.rtype(d[2], pkg)
                if d[3]: pkg.types[d[1]] = nt.under  # alias
        for d in decls:
            if d[0] == 'func':
                f = Func(d, pkg)
                if d[2]:
                    pkg.types[d[2][2]].methods[d[1]] = f
                else: pkg.scope[d[1]] = f
        for d in decls:
            if d[0] in ('var', 'const'):
                kind, names, ty, vals = d
                t = s.rtype(ty, pkg) if ty else None
                for k, n in enumerate(names):
                    if vals is None: v = s.zero(t)
                    else:
                        v = s.ev(vals[k], {}, pkg)
                        if t is not None and isinstance(v, V): v = s.convert(t, v)
                    if n != '_': pkg.scope[n] = v
        return pkg
    def rtype(s, ty, pkg):
        k = ty[0]
        if k == 'name':
            if ty[1] in pkg.types: return pkg.types[ty[1]]
            if ty[1] in BASIC: return BASIC[ty[1]]
            raise Unsupported("type " + ty[1])
        if k == 'qname':
            p = pkg.scope[ty[1]]
            if isinstance(p, Opaque): return IfaceT()
            return p.types[ty[2]]
        if k == 'ptr': return PtrT(s.rtype(ty[1], pkg))
        if k == 'slice': return SliceT(s.rtype(ty[1], pkg))
        if k == 'array': return ArrT(s.ev(ty[1], {}, pkg).v, s.rtype(ty[2], pkg))
        if k == 'struct': return StructT([(n, s.rtype(t, pkg)) for n, t in ty[1]])
        if k == 'interface': return IfaceT()
        if k == 'functype': return FuncT()
        raise Unsupported("rtype " + repr(ty))
    def zero(s, t):
        u = under(t)
        if isinstance(u, IntT): return V(t, 0)
        if isinstance(u, BoolT): return V(t, False)
        if isinstance(u, StrT): return V(t, "")
        if isinstance(u, StructT): return Struct(t, {n: s.zero(ft) for n, ft in u.fields})
        if isinstance(u, ArrT): return Arr(t, [s.zero(u.el) for _ in range(u.n)])
        if isinstance(u, SliceT): return Slice([], 0, 0, t)
        return NIL
    def copyval(s, v):
        if isinstance(v, Struct): return Struct(v.t, {k: s.copyval(x) for k, x in v.f.items()})
        if isinstance(v, Arr): return Arr(v.t, [s.copyval(x) for x in v.els])
        return v
    def convert(s, t, v):
        u = under(t)
        if isinstance(v, V):
            if isinstance(u, IntT):
                x = v.v
                if v.t is None or not is_sym(x):
                    if isinstance(x, bool): raise Unsupported("bool->int")
                    if v.t is not None:
                        fu = under(v.t)
                        if fu.signed: x = signed(x, fu.bits)
                    return V(t, x & ((1 << u.bits) - 1))
                fu = under(v.t)
                if fu.bits == u.bits: return V(t, x)
                if fu.bits > u.bits: return V(t, simp(z3.Extract(u.bits - 1, 0, x)))
                return V(t, simp(z3.SignExt(u.bits - fu.bits, x) if fu.signed else z3.ZeroExt(u.bits - fu.bits, x)))
            if isinstance(u, (BoolT, StrT)): return V(t, v.v)
        if isinstance(v, Arr) and isinstance(u, ArrT): return Arr(t, v.els)
        if isinstance(v, Slice): return Slice(v.arr, v.off, v.len, t)
        raise Unsupported(f"convert {t} {v}")
    # ---- calls
    def body(s, fn):
        if fn.body is None:
            a, b = fn.decl[5]; p = Parser(fn.pkg.toks[a:b] + [Tok('eof', None, 0)]); fn.body = p.block()
        return fn.body
    def call(s, fn, args, recv=None):
        if isinstance(fn, Bound): return s.call(fn.fn, args, fn.recv)
        d = fn.decl; env = {}
        if d[2]:
            rn, ptr, rt = d[2]
            if not ptr and isinstance(recv, Ptr): recv = recv.obj
            if not ptr: recv = s.copyval(recv)
            env[rn] = recv
        for (pn, pt), a in zip(d[3], args):
            t = s.rtype(pt, fn.pkg)
            if isinstance(a, V) and a.t is None and isinstance(under(t), (IntT,)): a = s.convert(t, a)
            if pn: env[pn] = s.copyval(a)
        body = s.body(fn)
        frame = {'defers': [], 'first': body[1][0] if body[1] else None, 'body': body[1]}
        s.depth = getattr(s, 'depth', 0) + 1
        if s.depth > 200: raise Unsupported("go call depth")
        try:
            try: s.exec(body, [env], fn.pkg, frame)
            finally:
                s.depth -= 1
                for dfn, dargs in reversed(frame['defers']): s.call(dfn, dargs)
        except SymIf as si:
            return s.symif(si, fn, args)
        except Ret as r:
            v = r.v
            if d[4] and isinstance(v, V) and v.t is None:
                v = s.convert(s.rtype(d[4][0][1], fn.pkg), v)
            elif d[4] and isinstance(v, V):
                rt = s.rtype(d[4][0][1], fn.pkg)
                if not isinstance(under(rt), IfaceT) and v.t is not rt and isinstance(under(rt), (IntT, BoolT)): v = V(rt, v.v)
            return v
        return None
    # ---- env
    def lookup(s, name, envs, pkg):
        for e in reversed(envs):
            if name in e: return e[name]
        if name in pkg.scope: return pkg.scope[name]
        if name in pkg.types: return TypeRef(pkg.types[name])
        if name in BASIC: return TypeRef(BASIC[name])
        if name == 'nil': return NIL
        if name == 'true': return V(BASIC['bool'], True)
        if name == 'false': return V(BASIC['bool'], False)
        if name in ('len', 'append', 'make', 'cap'): return ('builtin', name)
        raise Unsupported("name " + name)
    # ---- exec
    def exec(s, st, envs, pkg, frame):
        s.steps += 1
        if s.steps > 3_000_000: raise Inconclusive("go step budget exceeded")
        k = st[0]
        if k == 'block':
            envs = envs + [{}]
            for x in st[1]: s.exec(x, envs, pkg, frame)
            return
        if k == 'expr': s.ev(st[1], envs, pkg); return
        if k == 'return':
            raise Ret(s.ev(st[1][0], envs, pkg) if st[1] else None)
        if k == 'defer':
            c = st[1]; assert c[0] == 'call'
            frame['defers'].append((s.ev(c[1], envs, pkg), [s.ev(a, envs, pkg) for a in c[2]])); return
        if k == 'vardecl':
            for kind, names, ty, vals in st[1]:
                t = s.rtype(ty, pkg) if ty else None
                for i, n in enumerate(names):
                    v = s.ev(vals[i], envs, pkg) if vals else s.zero(t)
                    if t is not None and isinstance(v, V) and v.t is None: v = s.convert(t, v)
                    envs[-1][n] = v
            return
        if k == 'assign':
            op, lhs, rhs = st[1], st[2], st[3]
            if len(lhs) == 2 and len(rhs) == 1:  # v, _ := f()
                raise Unsupported("multi-assign")
            for l, r in zip(lhs, rhs):
                rv = s.ev(r, envs, pkg)
                if op == ':=':
                    if isinstance(rv, V) and rv.t is None and isinstance(rv.v, int) and not isinstance(rv.v, bool): rv = s.convert(BASIC['int'], rv)
                    if l[1] != '_': envs[-1][l[1]] = s.copyval(rv)
                    continue
                if op != '=':
                    cur = s.ev(l, envs, pkg); rv = s.binop(op[:-1], cur, rv)
                else:
                    cur = s.ev(l, envs, pkg) if not (l[0] == 'id' and l[1] == '_') else None
                    if isinstance(rv, V) and rv.t is None and isinstance(cur, V) and cur.t is not None: rv = s.convert(cur.t, rv)
                s.assign(l, s.copyval(rv), envs, pkg)
            return
        if k == 'if':
            envs = envs + [{}]
            if st[1]: s.exec(st[1], envs, pkg, frame)
            c = s.ev(st[2], envs, pkg)
            cv = c.v
            if is_sym(cv):
                # pattern `if c { return A } [else { return B }]` as the first statement of a function
                # is merged by the caller (SymIf); anything else forks
                if frame.get('first') is st and _simple_ret(st) and (st[4] is not None or (len(frame['body']) == 2 and frame['body'][1][0] == 'return' and len(frame['body'][1][1]) == 1)):
                    raise SymIf(cv, st, envs)
                cv = pysym.ENGINE.branch(cv)
            if cv: s.exec(st[3], envs, pkg, frame)
            elif st[4]: s.exec(st[4], envs, pkg, frame)
            return
        if k == 'for':
            envs = envs + [{}]
            if st[1]: s.exec(st[1], envs, pkg, frame)
            while True:
                if st[2] is not None:
                    c = s.ev(st[2], envs, pkg)
                    cv = c.v
                    if is_sym(cv): cv = pysym.ENGINE.branch(cv)
                    if not cv: break
                try: s.exec(st[4], envs, pkg, frame)
                except Brk: break
                except Cont: pass
                if st[3]: s.exec(st[3], envs, pkg, frame)
            return
        if k == 'forrange':
            coll = s.ev(st[2], envs, pkg); items = coll.arr[coll.off:coll.off + coll.len] if isinstance(coll, Slice) else coll.els
            for i, it in enumerate(items):
                e = {}
                if len(st[1]) > 0 and st[1][0][1] != '_': e[st[1][0][1]] = V(BASIC['int'], i)
                if len(st[1]) > 1 and st[1][1][1] != '_': e[st[1][1][1]] = it
                try: s.exec(st[3], envs + [e], pkg, frame)
                except Brk: break
                except Cont: pass
            return
        if k == 'switch':
            tag = s.ev(st[1], envs, pkg)
            if is_sym(tag.v): tag = V(tag.t, pysym.ENGINE.concretize(tag.v, "go switch tag") & ((1 << under(tag.t).bits) - 1))
            dflt = None
            for vals, body in st[2]:
                if vals is None: dflt = body; continue
                for v in vals:
                    cv = s.ev(v, envs, pkg)
                    if cv.v == tag.v or (cv.t is None and (cv.v & ((1 << under(tag.t).bits) - 1)) == tag.v):
                        for x in body: s.exec(x, envs + [{}], pkg, frame)
                        return
            if dflt is not None:
                for x in dflt: s.exec(x, envs + [{}], pkg, frame)
            return
        if k == 'break': raise Brk()
        if k == 'continue': raise Cont()
        raise Unsupported("stmt " + k)
    def assign(s, l, v, envs, pkg):
        k = l[0]
        if k == 'paren': return s.assign(l[1], v, envs, pkg)
        if k == 'id':
            if l[1] == '_': return
            for e in reversed(envs):
                if l[1] in e: e[l[1]] = v; return
            pkg.scope[l[1]] = v; return
        if k == 'sel':
            o = s.ev(l[1], envs, pkg)
            if isinstance(o, Ptr): o = o.obj
            cur = o.f[l[2]]
            if isinstance(v, V) and isinstance(cur, V) and cur.t is not None and v.t is None: v = s.convert(cur.t, v)
            if isinstance(cur, V): _assignable(v, cur.t, f"assignment to field {l[2]}")
            o.f[l[2]] = v; return
        if k == 'index':
            o = s.ev(l[1], envs, pkg); i = s.ev(l[2], envs, pkg).v
            if is_sym(i): i = pysym.ENGINE.concretize(i, "go index")
            if isinstance(o, Slice):
                _chk(0 <= i < o.len, i, o.len)
                if isinstance(o.arr[o.off + i], V): _assignable(v, o.arr[o.off + i].t, "assignment to a slice element")
                o.arr[o.off + i] = v
            else:
                _chk(0 <= i < len(o.els), i, len(o.els))
                if isinstance(o.els[i], V): _assignable(v, o.els[i].t, "assignment to an array element")
                o.els[i] = v
            return
        if k == 'un' and l[1] == '*':
            raise Unsupported("store through *p")
        raise Unsupported("assign to " + k)
    # ---- eval
    def ev(s, e, envs, pkg):
        k = e[0]
        if k == 'int': return V(None, e[1])
        if k == 'str': return V(BASIC['string'], e[1])
        if k == 'paren': return s.ev(e[1], envs, pkg)
        if k == 'id': return s.lookup(e[1], envs, pkg)
        if k == 'typeexpr': return TypeRef(s.rtype(e[1], pkg))
        if k == 'sel':
            o = s.ev(e[1], envs, pkg)
            if isinstance(o, Pkg):
                if e[2] in o.scope: return o.scope[e[2]]
                if e[2] in o.types: return TypeRef(o.types[e[2]])
                raise Unsupported("pkg member " + e[2])
            if isinstance(o, Opaque): return Opaque(o.n + '.' + e[2])
            base = o.obj if isinstance(o, Ptr) else o
            if isinstance(base, Struct):
                if e[2] in base.f: return base.f[e[2]]
                t = base.t
            elif isinstance(base, (V, Arr, Slice)): t = base.t
            else: raise Unsupported(f"sel on {o}")
            if isinstance(t, NamedT) and e[2] in t.methods: return Bound(t.methods[e[2]], o)
            raise Unsupported(f"no field/method {e[2]} on {t}")
        if k == 'index':
            o = s.ev(e[1], envs, pkg); i = s.ev(e[2], envs, pkg).v
            if is_sym(i): i = pysym.ENGINE.concretize(i, "go index")
            if isinstance(o, Slice):
                _chk(0 <= i < o.len, i, o.len); return o.arr[o.off + i]
            _chk(0 <= i < len(o.els), i, len(o.els)); return o.els[i]
        if k == 'slice':
            o = s.ev(e[1], envs, pkg); a = s.ev(e[2], envs, pkg).v if e[2] else 0; b = s.ev(e[3], envs, pkg).v if e[3] else o.len
            return Slice(o.arr, o.off + a, b - a, o.t)
        if k == 'un':
            if e[1] == '&':
                v = s.ev(e[2], envs, pkg)
                if isinstance(v, Struct): return Ptr(v)
                raise Unsupported("& of non-struct")
            v = s.ev(e[2], envs, pkg)
            if e[1] == '*': return v.obj
            if e[1] == '!': return V(v.t, simp(z3.Not(v.v)) if is_sym(v.v) else not v.v)
            if e[1] == '-':
                if v.t is None: return V(None, -v.v)
                return V(v.t, wrap(v.t, -v.v))
            if e[1] == '^':
                if v.t is None: return V(None, ~v.v)
                return V(v.t, wrap(v.t, ~v.v))
            if e[1] == '+': return v
        if k == 'bin':
            if e[1] in ('&&', '||'):
                l = s.ev(e[2], envs, pkg)
                if not is_sym(l.v):
                    if e[1] == '&&' and not l.v: return l
                    if e[1] == '||' and l.v: return l
                    return s.ev(e[3], envs, pkg)
                r = s.ev(e[3], envs, pkg)
                f = z3.And if e[1] == '&&' else z3.Or
                return V(l.t, simp(f(l.v, r.v if is_sym(r.v) else z3.BoolVal(r.v))))
            return s.binop(e[1], s.ev(e[2], envs, pkg), s.ev(e[3], envs, pkg))
        if k == 'complit':
            tr = s.ev(e[1], envs, pkg); t = tr.t; u = under(t)
            if isinstance(u, StructT):
                v = s.zero(t)
                for i, el in enumerate(e[2]):
                    if el[0] == 'kv': n = el[1][1]; x = s.ev(el[2], envs, pkg)
                    else: n = u.fields[i][0]; x = s.ev(el, envs, pkg)
                    ft = dict(u.fields)[n]
                    if isinstance(x, V) and x.t is None and isinstance(under(ft), IntT): x = s.convert(ft, x)
                    v.f[n] = s.copyval(x)
                return v
            if isinstance(u, SliceT):
                els = [s.ev(x, envs, pkg) for x in e[2]]; return Slice(els, 0, len(els), t)
            if isinstance(u, ArrT):
                v = s.zero(t)
                for i, x in enumerate(e[2]): v.els[i] = s.ev(x, envs, pkg)
                return v
            raise Unsupported("complit")
        if k == 'call':
            f = s.ev(e[1], envs, pkg)
            if isinstance(f, TypeRef):
                a = s.ev(e[2][0], envs, pkg); return s.convert(f.t, a)
            args = [s.ev(a, envs, pkg) for a in e[2]]
            if isinstance(f, tuple) and f[0] == 'builtin':
                if f[1] == 'len':
                    a = args[0]; return V(BASIC['int'], a.len if isinstance(a, Slice) else len(a.els))
                if f[1] == 'append':
                    sl = args[0]; arr = sl.arr[sl.off:sl.off + sl.len] + [s.copyval(x) for x in args[1:]]; return Slice(arr, 0, len(arr), sl.t)
                if f[1] == 'make':
                    t = args[0].t; n = args[1].v; return Slice([s.zero(under(t).el) for _ in range(n)], 0, n, t)
            if isinstance(f, Opaque): return Opaque(f.n + '()')
            return s.call(f, args)
        raise Unsupported("expr " + k)
    def symif(s, si, f, args):
        """function whose body hit `if sym { return A }; return B` -> ite"""
        fn = f.fn if isinstance(f, Bound) else f
        body = s.body(fn)[1]
        ifst = si.st
        if not (body and body[0] is ifst and _simple_ret(ifst)): raise Unsupported("go symbolic if shape")
        a = s.ev(ifst[3][1][0][1][0], si.envs, fn.pkg)
        if ifst[4]: b = s.ev(ifst[4][1][0][1][0], si.envs, fn.pkg)
        else:
            if not (len(body) == 2 and body[1][0] == 'return'): raise Unsupported("go symbolic if shape")
            b = s.ev(body[1][1][0], si.envs, fn.pkg)
        rt = s.rtype(fn.decl[4][0][1], fn.pkg); u = under(rt)
        if isinstance(u, IntT):
            a = s.convert(rt, a); b = s.convert(rt, b)
            return V(rt, simp(z3.If(si.c, tobv(a.v, u.bits), tobv(b.v, u.bits))))
        if isinstance(u, BoolT):
            return V(rt, simp(z3.If(si.c, z3.BoolVal(a.v) if not is_sym(a.v) else a.v, z3.BoolVal(b.v) if not is_sym(b.v) else b.v)))
        raise Unsupported("symif type")
    def binop(s, o, l, r):
        if isinstance(l, V) and l.v is None or isinstance(r, V) and r.v is None:  # nil compare
            lv = l if not (isinstance(l, V) and l.v is None) else None; rv = r if not (isinstance(r, V) and r.v is None) else None
            eq = (lv is None and rv is None)
            return V(BASIC['bool'], eq if o == '==' else not eq)
        if not isinstance(l, V) or not isinstance(r, V): raise Unsupported(f"binop on {l} {r}")
        if o in ('<<', '>>'):
            n = r.v
            if is_sym(n): n = pysym.ENGINE.concretize(n, "go shift count")
            if r.t is not None and under(r.t).signed: n = signed(n, under(r.t).bits)
            if n < 0: raise GoPanic("negative shift amount")
            if l.t is None: return V(None, l.v << n if o == '<<' else l.v >> n)
            u = under(l.t); b = u.bits
            if is_sym(l.v):
                if n >= b: x = z3.BitVecVal(0, b) if (o == '<<' or not u.signed) else (l.v >> (b - 1))
                else: x = (l.v << n) if o == '<<' else ((l.v >> n) if u.signed else z3.LShR(l.v, n))
                return V(l.t, simp(x))
            if o == '<<': return V(l.t, (l.v << n) & ((1 << b) - 1))
            x = signed(l.v, b) if u.signed else l.v
            return V(l.t, (x >> n) & ((1 << b) - 1))
        # typed/untyped unification; two typed operands must have identical types
        if l.t is not None and r.t is not None and not same_type(l.t, r.t):
            raise GoTypeError(f"compile error: invalid operation {o}: mismatched types {_tname(l.t)} and {_tname(r.t)}")
        t = l.t if l.t is not None else r.t
        if t is None:
            a, b = l.v, r.v
            if o in ('==', '!=', '<', '<=', '>', '>='): return V(BASIC['bool'], {'==': a == b, '!=': a != b, '<': a < b, '<=': a <= b, '>': a > b, '>=': a >= b}[o])
            return V(None, {'+': a + b, '-': a - b, '*': a * b, '/': (abs(a) // abs(b)) * (1 if (a < 0) == (b < 0) else -1) if b else 0, '%': a % b if b else 0, '&': a & b, '|': a | b, '^': a ^ b, '&^': a & ~b}[o])
        u = under(t)
        if isinstance(u, BoolT):
            a, b = l.v, r.v
            if is_sym(a) or is_sym(b):
                A = a if is_sym(a) else z3.BoolVal(a); B = b if is_sym(b) else z3.BoolVal(b)
                return V(BASIC['bool'], simp(A == B if o == '==' else A != B))
            return V(BASIC['bool'], a == b if o == '==' else a != b)
        if isinstance(u, StrT):
            if o == '+': return V(t, l.v + r.v)
            return V(BASIC['bool'], {'==': l.v == r.v, '!=': l.v != r.v}[o])
        bits = u.bits
        a = l.v if l.t is not None else l.v & ((1 << bits) - 1)
        b = r.v if r.t is not None else r.v & ((1 << bits) - 1)
        if is_sym(a) or is_sym(b):
            A, B = tobv(a, bits), tobv(b, bits)
            if o in ('==', '!=', '<', '<=', '>', '>='):
                if u.signed: c = {'==': A == B, '!=': A != B, '<': A < B, '<=': A <= B, '>': A > B, '>=': A >= B}[o]
                else: c = {'==': A == B, '!=': A != B, '<': z3.ULT(A, B), '<=': z3.ULE(A, B), '>': z3.UGT(A, B), '>=': z3.UGE(A, B)}[o]
                return V(BASIC['bool'], simp(c))
            if o in ('/', '%'):
                if is_sym(b): raise Unsupported("go division by a symbolic value")
                if b == 0: raise GoPanic("integer divide by zero")
                x = (A / B if o == '/' else z3.SRem(A, B)) if u.signed else (z3.UDiv(A, B) if o == '/' else z3.URem(A, B))
                return V(t, simp(x))
            x = {'+': lambda: A + B, '-': lambda: A - B, '*': lambda: A * B, '&': lambda: A & B, '|': lambda: A | B, '^': lambda: A ^ B, '&^': lambda: A & ~B}[o]()
            return V(t, simp(x))
        if o in ('==', '!=', '<', '<=', '>', '>='):
            if u.signed: a, b = signed(a, bits), signed(b, bits)
            return V(BASIC['bool'], {'==': a == b, '!=': a != b, '<': a < b, '<=': a <= b, '>': a > b, '>=': a >= b}[o])
        if u.signed and o in ('/', '%', '*', '+', '-'): a, b = signed(a, bits), signed(b, bits)
        if o == '/': x = (abs(a) // abs(b)) * (1 if (a < 0) == (b < 0) else -1)
        elif o == '%': x = abs(a) % abs(b) * (1 if a >= 0 else -1)
        else: x = {'+': a + b, '-': a - b, '*': a * b, '&': a & b, '|': a | b, '^': a ^ b, '&^': a & ~b}[o]
        return V(t, x & ((1 << bits) - 1))
def _simple_ret(ifst):
    """`if c { return <expr> }` [else { return <expr> }] with nothing else in the arms"""
    then = ifst[3][1]
    if ifst[1] is not None or len(then) != 1 or then[0][0] != 'return' or len(then[0][1]) != 1: return False
    if ifst[4] is not None:
        if ifst[4][0] != 'block' or len(ifst[4][1]) != 1 or ifst[4][1][0][0] != 'return': return False
    return True
class SymIf(Exception):
    def __init__(s, c, st, envs): s.c = c; s.st = st; s.envs = envs

