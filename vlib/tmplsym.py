"""E4 `tmplsym`: Python AST of the *current* formatter sources -> z3 sequence terms, for the
methods whose result is a concatenation template (f-string, str.format, +) of constants and
of values they do not inspect.  Calls to other template methods are inlined; calls that
inspect characters (format_message_name, case converters, os.path.*) become free string
variables constrained to an identifier language.  A method that is no longer a pure template
raises Unsupported (-> inconclusive)."""
from __future__ import annotations

import ast
import os
import re
from typing import Any, Dict, List, Optional, Tuple

import z3

from .common import REPO, Inconclusive

RD = os.path.join(REPO, "compiler", "bitproto", "renderer")


class Unsupported(Inconclusive):
    pass


PASCAL = z3.Concat(z3.Range("A", "Z"), z3.Star(z3.Union(z3.Range("a", "z"), z3.Range("A", "Z"), z3.Range("0", "9"))))
LOWER = z3.Concat(z3.Range("a", "z"), z3.Star(z3.Union(z3.Range("a", "z"), z3.Range("0", "9"))))
NUM = z3.Union(z3.Range("1", "9"), z3.Concat(z3.Range("1", "9"), z3.Range("0", "9")), z3.Concat(z3.Range("1", "2"), z3.Range("0", "9"), z3.Range("0", "9")))


class Abs:
    """abstract AST node: class name + attributes (strings are z3 terms)"""

    def __init__(self, cls: str, **attrs: Any):
        self.cls = cls
        self.attrs = attrs


class Ctx:
    def __init__(self, maxlen: int = 8):
        self.cons: List[Any] = []
        self.opaque: Dict[Any, Any] = {}
        self.n = 0
        self.maxlen = maxlen

    def fresh(self, key: Any, lang: Any, hint: str) -> Any:
        if key not in self.opaque:
            self.n += 1
            v = z3.String(f"{hint}{self.n}")
            self.cons += [z3.InRe(v, lang), z3.Length(v) <= self.maxlen, z3.Length(v) >= 1]
            self.opaque[key] = v
        return self.opaque[key]


OPAQUE_NAME_METHODS = {"format_message_name", "format_alias_name", "format_enum_name", "format_definition_name", "format_constant_name", "format_enum_field_name", "format_message_type"}


class Translator:
    def __init__(self, files: List[str]):
        self.methods: Dict[Tuple[str, str], ast.FunctionDef] = {}
        self.by_name: Dict[str, ast.FunctionDef] = {}
        self.files = files
        for p in files:
            tree = ast.parse(open(p).read(), p)
            for node in ast.walk(tree):
                if isinstance(node, ast.ClassDef):
                    for f in node.body:
                        if isinstance(f, ast.FunctionDef):
                            self.methods[(node.name, f.name)] = f
                            self.by_name.setdefault(f.name, f)  # files are given most-derived first

    def call(self, ctx: Ctx, name: str, args: List[Any], self_obj: Abs, cls: Optional[str] = None) -> Any:
        if name in OPAQUE_NAME_METHODS:
            a = args[0]
            return ctx.fresh(("name", id(a)), PASCAL, "Name")
        if name == "format_case_style":
            # case converters inspect characters; on the PascalCase-looking identifiers of this model they are the
            # identity for the C type-name styles (declared assumption; every model is confirmed by gcc)
            return args[0]
        f = self.methods.get((cls, name)) if cls else None
        f = f or self.by_name.get(name)
        if f is None:
            raise Unsupported(f"no source for method {name}")
        env: Dict[str, Any] = {"self": self_obj}
        params = f.args.args[1:]
        defaults = [None] * (len(params) - len(f.args.defaults)) + list(f.args.defaults)
        for i, a in enumerate(params):
            if i < len(args):
                env[a.arg] = args[i]
            elif defaults[i] is not None:
                env[a.arg] = self.ev(ctx, defaults[i], env)
            else:
                raise Unsupported(f"missing argument {a.arg} of {name}")
        return self.block(ctx, f.body, env, name)

    def block(self, ctx: Ctx, body: List[ast.stmt], env: Dict[str, Any], name: str) -> Any:
        for st in body:
            if isinstance(st, ast.Expr) and isinstance(st.value, ast.Constant):
                continue
            if isinstance(st, ast.Assign) and len(st.targets) == 1 and isinstance(st.targets[0], ast.Name):
                env[st.targets[0].id] = self.ev(ctx, st.value, env)
                continue
            if isinstance(st, ast.Return):
                return self.ev(ctx, st.value, env)
            if isinstance(st, ast.If):
                c = self.truth(self.ev(ctx, st.test, env))
                r = self.block(ctx, st.body if c else st.orelse, env, name)
                if r is not None:
                    return r
                continue
            if isinstance(st, ast.Raise):
                raise Unsupported("reached raise in " + name)
            raise Unsupported(f"statement {type(st).__name__} in {name}: not a pure template any more")
        return None

    def truth(self, v: Any) -> bool:
        if isinstance(v, bool):
            return v
        if isinstance(v, str):
            return bool(v)
        if v is None:
            return False
        if isinstance(v, tuple) and v[0] == "truthy":
            return True
        raise Unsupported("symbolic condition in a template method")

    def tostr(self, v: Any) -> Any:
        if isinstance(v, z3.SeqRef):
            return v
        if isinstance(v, str):
            return z3.StringVal(v)
        if isinstance(v, tuple) and v[0] in ("intstr", "truthy"):
            return v[1]
        raise Unsupported(f"cannot render {v!r} into a template")

    def cat(self, parts: List[Any]) -> Any:
        parts = [p for p in parts if not (z3.is_string_value(p) and p.as_string() == "")]
        if not parts:
            return z3.StringVal("")
        return z3.Concat(*parts) if len(parts) > 1 else parts[0]

    def ev(self, ctx: Ctx, e: ast.expr, env: Dict[str, Any]) -> Any:
        if isinstance(e, ast.Constant):
            return e.value
        if isinstance(e, ast.Name):
            if e.id in env:
                return env[e.id]
            if e.id[:1].isupper():
                return ("class", e.id)  # a definition class used as a selector (e.g. of a case style)
            raise Unsupported("free name " + e.id)
        if isinstance(e, ast.JoinedStr):
            parts = []
            for v in e.values:
                if isinstance(v, ast.Constant):
                    parts.append(z3.StringVal(v.value))
                else:
                    if v.format_spec is not None or v.conversion != -1:
                        raise Unsupported("format spec / conversion in f-string")
                    parts.append(self.tostr(self.ev(ctx, v.value, env)))
            return self.cat(parts)
        if isinstance(e, ast.Attribute):
            o = self.ev(ctx, e.value, env)
            if isinstance(o, Abs):
                if e.attr in o.attrs:
                    return o.attrs[e.attr]
                # cached_property of a block / formatter: translate its body
                f = self.methods.get((o.cls, e.attr))
                if f is not None:
                    return self.block(ctx, f.body, {"self": o}, e.attr)
                raise Unsupported(f"attribute {e.attr} of {o.cls}")
            raise Unsupported("attribute access on " + repr(o)[:40])
        if isinstance(e, ast.BoolOp) and isinstance(e.op, ast.Or):
            for v in e.values:
                x = self.ev(ctx, v, env)
                if isinstance(x, z3.SeqRef) or self.truth(x):
                    return x
            return x
        if isinstance(e, ast.Subscript):
            o = self.ev(ctx, e.value, env)
            if isinstance(o, tuple) and o[0] == "opaque-tuple" and isinstance(e.slice, ast.Constant):
                return o[1][e.slice.value]
            raise Unsupported("subscript")
        if isinstance(e, ast.Call):
            fn = e.func
            if isinstance(fn, ast.Attribute) and isinstance(fn.value, ast.Name) and fn.value.id == "self":
                return self.call(ctx, fn.attr, [self.ev(ctx, a, env) for a in e.args], env["self"], env["self"].cls)
            if isinstance(fn, ast.Attribute) and isinstance(fn.value, ast.Attribute) and isinstance(fn.value.value, ast.Name) and fn.value.value.id == "self" and fn.value.attr == "formatter":
                fm = env["self"].attrs.get("formatter")
                return self.call(ctx, fn.attr, [self.ev(ctx, a, env) for a in e.args], fm, fm.cls if fm else None)
            if isinstance(fn, ast.Name) and fn.id == "isinstance":
                o = self.ev(ctx, e.args[0], env)
                want = [x.id for x in (e.args[1].elts if isinstance(e.args[1], ast.Tuple) else [e.args[1]])]
                return isinstance(o, Abs) and o.cls in want
            if isinstance(fn, ast.Attribute) and fn.attr == "format" and isinstance(fn.value, ast.Constant):
                fmt = fn.value.value
                args = [self.tostr(self.ev(ctx, a, env)) for a in e.args]
                parts = []
                pos = 0
                for m in re.finditer(r"\{(\d*)\}", fmt):
                    if m.start() > pos:
                        parts.append(z3.StringVal(fmt[pos:m.start()]))
                    parts.append(args[int(m.group(1) or 0)])
                    pos = m.end()
                if pos < len(fmt):
                    parts.append(z3.StringVal(fmt[pos:]))
                return self.cat(parts)
            # os.path.* inspect characters: opaque functions of their argument
            src = ast.unparse(fn)
            if src in ("os.path.basename", "os.path.abspath"):
                a = self.ev(ctx, e.args[0], env)
                return ("opaque-str", src, a)
            if src == "os.path.splitext":
                a = self.ev(ctx, e.args[0], env)
                key = ("stem", id(a[2]) if isinstance(a, tuple) and len(a) > 2 else id(a))
                return ("opaque-tuple", (ctx.fresh(key, z3.Union(PASCAL, LOWER), "stem"), z3.StringVal(".bitproto")))
            if isinstance(fn, ast.Attribute):
                o = self.ev(ctx, fn.value, env)
                if isinstance(o, Abs) and fn.attr in o.attrs and callable(o.attrs[fn.attr]):
                    return o.attrs[fn.attr](*[self.ev(ctx, a, env) for a in e.args])
            raise Unsupported("call " + src[:60])
        if isinstance(e, ast.BinOp) and isinstance(e.op, ast.Add):
            return self.cat([self.tostr(self.ev(ctx, e.left, env)), self.tostr(self.ev(ctx, e.right, env))])
        raise Unsupported("expression " + type(e).__name__)
