"""Cross-solver sampling: a seeded sample of the discharged queries is re-decided by cvc5
(1.4 wheel, through its SMT-LIB parser); a differing answer or an error makes the run
inconclusive."""
from __future__ import annotations

import os
import random
from typing import Optional

_RNG: Optional[random.Random] = None
STATS = {"n": 0, "agree": 0, "disagree": 0, "cvc5_unknown": 0, "errors": 0}
NOTES = []


def rate() -> float:
    if os.environ.get("VERIF_XSOLVER_RATE"):
        return float(os.environ["VERIF_XSOLVER_RATE"])
    return 0.02 if os.environ.get("VERIF_TIER") == "thorough" else 0.002


def sample() -> bool:
    global _RNG
    if _RNG is None:
        _RNG = random.Random(int(os.environ.get("VERIF_SEED", "0") or 0) * 31337 + os.getpid())
    return _RNG.random() < rate()


def cvc5_check(smt2: str, tlimit_ms: int = 20000) -> str:
    try:
        import cvc5
    except ImportError:
        return "error: cvc5 not importable"
    try:
        slv = cvc5.Solver()
        slv.setOption("tlimit-per", str(tlimit_ms))
        p = cvc5.InputParser(slv)
        p.setStringInput(cvc5.InputLanguage.SMT_LIB_2_6, "(set-logic ALL)\n" + smt2, "q")
        sm = p.getSymbolManager()
        res = "error: no answer"
        while True:
            cmd = p.nextCommand()
            if cmd.isNull():
                break
            out = cmd.invoke(slv, sm).strip()
            if "(error" in out:
                return "error: " + out[:120]
            if out in ("sat", "unsat", "unknown"):
                res = out
        return res
    except Exception as e:  # parser / option errors
        return f"error: {type(e).__name__}: {e}"[:160]


def cross_check(z3_solver, z3_answer: str) -> None:
    """called with the z3 solver in the state of the query just decided"""
    if z3_answer not in ("sat", "unsat") or not sample():
        return
    ans = cvc5_check(z3_solver.to_smt2())
    STATS["n"] += 1
    if ans == z3_answer:
        STATS["agree"] += 1
    elif ans == "unknown":
        STATS["cvc5_unknown"] += 1
    elif ans.startswith("error"):
        STATS["errors"] += 1
        NOTES.append(ans)
    else:
        STATS["disagree"] += 1
        NOTES.append(f"z3 says {z3_answer}, cvc5 says {ans}")
