"""E1/Z: the real compiler (lexer, ply parser, AST validators, renderers) executed under
z3-Int proxies.  Token sources for the real parser:

* lexed: a concrete template text is tokenised by the REAL Lexer; a filter then replaces the
  *value* of designated tokens (holes) by symbols and wraps every other integer literal in a
  constant ZInt (so all numbers hash alike);
* synthetic: tokens built directly (C20 position kernel).
"""
from __future__ import annotations

import os
import re
from typing import Any, Callable, Dict, List, Optional, Tuple

import z3

from . import pysym
from .common import REPO, Inconclusive, ensure_ply
from .pysym import ENGINE, Engine, SymBool, SymLoader, ZInt

COMPILER_DIR = os.path.join(REPO, "compiler", "bitproto")

_Z: Optional["ZCompiler"] = None


class ZCompiler:
    def __init__(self) -> None:
        ensure_ply()
        pysym.set_domain("Z")
        self.loader = SymLoader("Z", {"bitproto": COMPILER_DIR})
        self.parser_mod = self.loader.load("bitproto.parser")
        self.ast = self.loader.load("bitproto._ast")
        self.errors = self.loader.load("bitproto.errors")
        self.lexer_mod = self.loader.load("bitproto.lexer")
        self.utils = self.loader.load("bitproto.utils")
        # one Parser for the whole process: LALR tables are built once
        self.P = self.parser_mod.Parser()

    def mod(self, name: str) -> Any:
        return self.loader.load(name)

    def reset_parser(self, traditional_mode: bool = False) -> Any:
        if os.environ.get("VERIF_REUSE_PARSER") != "1":
            # what the real parse() does: a NEW Parser per compilation (state that survives between Parser objects --
            # class attributes, mutable default arguments -- is then the code's own); LALR tables are cached by ply
            self.P = self.parser_mod.Parser(traditional_mode=traditional_mode)
            return self.P
        p = self.P
        p.scope_stack.clear()
        p.filepath_stack.clear()
        p.comment_block.clear()
        p.lexer.filepath_stack.clear()
        p.scope_stack_init_length = 0
        p.last_newline_pos = 0
        p.traditional_mode = traditional_mode
        return p


def zc() -> ZCompiler:
    global _Z
    if _Z is None:
        _Z = ZCompiler()
    return _Z


# --------------------------------------------------------------------------- templates

HOLE = re.compile(r"\{(n|x|U|I):(\w+)\}")
PLACEHOLDER = {"n": "7", "x": "0x7", "U": "uint7", "I": "int7"}


class Template:
    """Text with holes:  {n:name} decimal literal, {x:name} hex literal, {U:name} uintN type
    token, {I:name} intN type token.  `render()` gives the placeholder text and the map
    lexpos -> (kind, name); `concrete(vals)` gives real text for given hole values."""

    def __init__(self, text: str):
        self.text = text

    def render(self) -> Tuple[str, Dict[int, Tuple[str, str]]]:
        out = []
        pos = 0
        holes: Dict[int, Tuple[str, str]] = {}
        last = 0
        for m in HOLE.finditer(self.text):
            out.append(self.text[last : m.start()])
            pos += m.start() - last
            ph = PLACEHOLDER[m.group(1)]
            holes[pos] = (m.group(1), m.group(2))
            out.append(ph)
            pos += len(ph)
            last = m.end()
        out.append(self.text[last:])
        return "".join(out), holes

    def names(self) -> List[Tuple[str, str]]:
        return [(m.group(1), m.group(2)) for m in HOLE.finditer(self.text)]

    def concrete(self, vals: Dict[str, int]) -> str:
        def rep(m: Any) -> str:
            k, n = m.group(1), m.group(2)
            v = vals[n]
            return {"n": str(v), "x": hex(v), "U": f"uint{v}", "I": f"int{v}"}[k]

        return HOLE.sub(rep, self.text)


class LexedSource:
    """Token source for ply: the real Lexer on concrete text + value substitution."""

    def __init__(self, z: ZCompiler, text: str, holes: Dict[int, Tuple[str, str]], syms: Dict[str, ZInt], filepath: str, wrap_all: bool = True):
        self.z = z
        self.lx = z.lexer_mod.Lexer()
        self.lx.filepath_stack = z.P.lexer.filepath_stack  # the real lexer reports the current file
        self.lx.input(text)
        self.lexdata = text
        self.holes = holes
        self.syms = syms
        self.wrap_all = wrap_all
        self.used: set = set()

    @property
    def lineno(self) -> int:
        return self.lx.lexer.lineno

    @property
    def lexpos(self) -> int:
        return self.lx.lexer.lexpos

    def input(self, s: str) -> None:
        pass

    def token(self) -> Any:
        t = self.lx.token()
        if t is None:
            return None
        h = self.holes.get(t.lexpos)
        if h is not None:
            kind, name = h
            self.used.add(name)
            sym = self.syms[name]
            if kind in ("n", "x"):
                assert t.type in ("INT_LITERAL", "HEX_LITERAL"), t
                t.value = sym
            else:
                assert t.type in ("UINT_TYPE", "INT_TYPE"), t
                old = t.value
                cls = self.z.ast.Uint if kind == "U" else self.z.ast.Int
                # exactly how t_UINT_TYPE / t_INT_TYPE build the value
                t.value = cls(cap=sym, token=old.token, lineno=old.lineno, filepath=old.filepath)
        elif self.wrap_all and t.type in ("INT_LITERAL", "HEX_LITERAL") and isinstance(t.value, int):
            t.value = ZInt.const(t.value)
        t.lexer = self
        return t


def parse_text(text: str, holes: Dict[int, Tuple[str, str]], syms: Dict[str, ZInt], filepath: str = "", traditional_mode: bool = False) -> Any:
    """the body of Parser.parse_string with our token source"""
    z = zc()
    p = z.reset_parser(traditional_mode)
    src = LexedSource(z, text, holes, syms, filepath)
    import contextlib
    import io

    with p.lexer.maintain_filepath(filepath):
        with p.maintain_filepath(filepath):
            with contextlib.redirect_stderr(io.StringIO()):  # `typedef` deprecation notices
                return p.parser.parse("", lexer=src)


def parse_template(t: Template, syms: Dict[str, ZInt], filepath: str = "", traditional_mode: bool = False) -> Any:
    text, holes = t.render()
    return parse_text(text, holes, syms, filepath, traditional_mode)


# --------------------------------------------------------------------------- plain (native) parse for witness validation


def plain_outcome(text: str, filepath: str = "", traditional_mode: bool = False) -> Tuple[str, Any]:
    """Parse concrete text with the real compiler under normal builtins (same process, plain
    import).  Returns ('ok', proto) | (error class name, exception)."""
    from .compile import load_plain_compiler

    load_plain_compiler()
    import bitproto.parser as bp_parser
    from bitproto.errors import ParserError

    import contextlib
    import io

    try:
        with contextlib.redirect_stderr(io.StringIO()):
            if filepath:
                return "ok", bp_parser.parse(filepath, traditional_mode=traditional_mode)
            return "ok", bp_parser.parse_string(text, traditional_mode=traditional_mode)
    except ParserError as e:
        return type(e).__name__, e
    except Exception as e:  # internal error escaping: C09 territory
        return "!" + type(e).__name__, e
