"""E1 `pysym`: symbolic execution of the real Python sources with z3 proxies.

* The source files themselves are executed (`compile(open(path).read())`) in module objects
  whose `__builtins__` is a private dict; nothing is transcribed.
* `SymInt` / `SymBool` are deliberately NOT subclasses of int: an operation that is not
  implemented raises TypeError (-> inconclusive) instead of silently using a concrete value.
* Two numeric domains: BV (runtime code; W-bit two's complement with a conservative
  bit-bound on every term so Python's unbounded ints are never silently wrapped) and
  Z (compiler code; z3 mathematical integers).
* Forking is DART-style re-execution under a decision prefix.
"""
from __future__ import annotations

import ast
import builtins
import os
import sys
import time
import types
from typing import Any, Callable, Dict, Iterator, List, Optional, Sequence, Tuple

import z3

from .common import Inconclusive

W = 192  # bit-vector width of the BV domain


class EngineSignal(BaseException):
    """Base of engine control-flow exceptions (never caught by `except Exception`)."""


class PathAbort(EngineSignal):
    """Current path is infeasible / abandoned."""


class MergeAbort(EngineSignal):
    """An arm of an if-conversion needed a fork; fall back to forking on the condition."""


class Unsupported(Inconclusive):
    pass


class EncodingOverflow(Inconclusive):
    pass


class BudgetExceeded(Inconclusive):
    pass


# --------------------------------------------------------------------------- engine


class Engine:
    def __init__(self, max_paths: int = 4096, max_conc: int = 256, timeout_ms: int = 60000):
        self.max_paths = max_paths
        self.max_conc = max_conc
        self.timeout_ms = timeout_ms
        self.stats = {"paths": 0, "queries": 0, "unsat": 0, "sat": 0, "unknown": 0, "solver_s": 0.0, "merges": 0, "forks": 0}
        self.sentinels: Dict[str, Any] = {}
        self._reset([])

    # ---- per path state
    def _reset(self, sched: List[Any]) -> None:
        self.pc: List[Any] = []
        self.sched = list(sched)
        self.pos = 0
        self.pending: List[List[Any]] = []
        self.solver = z3.Solver()
        self.solver.set("timeout", self.timeout_ms)
        self.nomerge_fork = 0  # >0: inside an if-conversion arm: forks forbidden
        self.sentinels = {}
        self.notes: List[str] = []
        self.fpq_sites: List[Any] = []  # (n, d, result, exactly-modelled-inexact-region) of every int(n / d)

    def assume(self, e: Any) -> None:
        """Add a harness pre-condition (must be called before the code it constrains)."""
        self.pc.append(e)
        self.solver.add(e)

    def check(self, *extra: Any) -> str:
        t0 = time.time()
        self.solver.push()
        try:
            for e in extra:
                self.solver.add(e)
            r = self.solver.check()
            if str(r) == "unknown":
                # a time-out under load is not an answer: once more in a fresh solver with five times the budget and another seed
                s2 = z3.Solver()
                s2.set("timeout", int(self.timeout_ms) * 5)
                s2.set("random_seed", 7)
                s2.add(*self.solver.assertions())
                r = s2.check()
                self.stats["retries"] = self.stats.get("retries", 0) + 1
        finally:
            self.solver.pop()
        self.stats["queries"] += 1
        self.stats["solver_s"] += time.time() - t0
        s = str(r)
        self.stats[s] = self.stats.get(s, 0) + 1
        return s

    def model(self, *extra: Any) -> Optional[Any]:
        self.solver.push()
        try:
            for e in extra:
                self.solver.add(e)
            r = self.solver.check()
            self.stats["queries"] += 1
            if str(r) == "sat":
                return self.solver.model()
            if str(r) == "unknown":
                raise Inconclusive("solver unknown while extracting a model")
            return None
        finally:
            self.solver.pop()

    def _commit(self, e: Any) -> None:
        self.pc.append(e)
        self.solver.add(e)

    def branch(self, e: Any) -> bool:
        e = z3.simplify(e)
        if z3.is_true(e):
            return True
        if z3.is_false(e):
            return False
        if self.pos < len(self.sched):
            d = self.sched[self.pos]
            self.pos += 1
            self._commit(e if d else z3.Not(e))
            return bool(d)
        t = self.check(e)
        f = self.check(z3.Not(e))
        if "unknown" in (t, f):
            raise Inconclusive("solver unknown at a branch")
        if t == "sat" and f == "sat":
            if self.nomerge_fork:
                raise MergeAbort()
            self.stats["forks"] += 1
            self.pending.append(self.sched[: self.pos] + [False])
            d = True
        elif t == "sat":
            d = True
        elif f == "sat":
            d = False
        else:
            raise PathAbort()
        self.sched.append(d)
        self.pos += 1
        self._commit(e if d else z3.Not(e))
        return d

    def implied(self, e: Any) -> Optional[bool]:
        """True/False if pc decides e, None if both outcomes are feasible."""
        e = z3.simplify(e)
        if z3.is_true(e):
            return True
        if z3.is_false(e):
            return False
        t = self.check(e)
        f = self.check(z3.Not(e))
        if "unknown" in (t, f):
            raise Inconclusive("solver unknown")
        if t == "sat" and f == "sat":
            return None
        if t == "sat":
            return True
        if f == "sat":
            return False
        raise PathAbort()

    def concretize(self, term: Any, what: str = "") -> int:
        """Return a concrete value for an integer term, forking over all feasible values
        (up to max_conc)."""
        term = z3.simplify(term)
        v = _as_const(term)
        if v is not None:
            return v
        if self.pos < len(self.sched):
            v = self.sched[self.pos]
            self.pos += 1
            assert isinstance(v, tuple) and v[0] == "val", ("schedule mismatch", v)
            self._commit(term == _mk_const(term, v[1]))
            return v[1]
        if self.nomerge_fork:
            raise MergeAbort()
        vals: List[int] = []
        self.solver.push()
        try:
            while True:
                r = self.solver.check()
                self.stats["queries"] += 1
                if str(r) == "unknown":
                    raise Inconclusive(f"solver unknown while concretising {what}")
                if str(r) != "sat":
                    break
                mv = self.solver.model().eval(term, model_completion=True)
                v = _as_const(mv)
                assert v is not None
                vals.append(v)
                if len(vals) > self.max_conc:
                    raise BudgetExceeded(f"more than {self.max_conc} feasible values for {what or term}")
                self.solver.add(term != mv)
        finally:
            self.solver.pop()
        if not vals:
            raise PathAbort()
        vals.sort()
        for other in vals[1:]:
            self.pending.append(self.sched[: self.pos] + [("val", other)])
            self.stats["forks"] += 1
        v = vals[0]
        self.sched.append(("val", v))
        self.pos += 1
        self._commit(term == _mk_const(term, v))
        return v

    def sentinel(self, term: Any) -> str:
        k = f"⟦S{len(self.sentinels)}⟧"
        self.sentinels[k] = term
        return k

    # ---- exploration
    def explore(self, fn: Callable[[], Any]) -> Iterator["Path"]:
        """Run fn() once per feasible path. fn may call ENGINE.assume() first. Yields Path
        objects; the engine state (pc, solver) is that of the yielded path until the next one
        is requested."""
        work: List[List[Any]] = [[]]
        n = 0
        while work:
            sched = work.pop()
            self._reset(sched)
            n += 1
            if n > self.max_paths:
                raise BudgetExceeded(f"more than {self.max_paths} paths")
            exc = None
            val = None
            try:
                val = fn()
            except PathAbort:
                work.extend(self.pending)
                continue
            except MergeAbort:
                raise Inconclusive("MergeAbort escaped")
            except Inconclusive:
                raise
            except Exception as e:  # an outcome of the code under test ...
                tb = e.__traceback__
                while tb is not None and tb.tb_next is not None:
                    tb = tb.tb_next
                if tb is not None and tb.tb_frame.f_code.co_filename == __file__ and not getattr(e, "_bpv_modelled", False):
                    # ... unless it comes out of the proxies themselves: unmodelled operation
                    raise Unsupported(f"engine: {type(e).__name__}: {e} (pysym.py:{tb.tb_lineno})")
                exc = e
            work.extend(self.pending)
            self.stats["paths"] += 1
            yield Path(self, val, exc, list(self.pc), list(self.sched), dict(self.sentinels))


class Path:
    def __init__(self, eng: Engine, value: Any, exc: Optional[BaseException], pc: List[Any], sched: List[Any], sentinels: Dict[str, Any]):
        self.eng = eng
        self.value = value
        self.exc = exc
        self.pc = pc
        self.sched = sched
        self.sentinels = sentinels

    def holds(self, phi: Any) -> Tuple[str, Optional[Any]]:
        """Ask pc AND NOT phi. Returns ('unsat', None) if phi holds on the whole path,
        ('sat', model) with a counterexample, or ('unknown', None)."""
        eng = self.eng
        eng.solver.push()
        try:
            eng.solver.add(z3.Not(phi))
            t0 = time.time()
            r = str(eng.solver.check())
            eng.stats["queries"] += 1
            eng.stats["solver_s"] += time.time() - t0
            eng.stats[r] = eng.stats.get(r, 0) + 1
            from . import xsolver

            xsolver.cross_check(eng.solver, r)
            if r == "sat":
                return r, eng.solver.model()
            return r, None
        finally:
            eng.solver.pop()

    def witness(self) -> Any:
        m = self.eng.model()
        if m is None:
            raise Inconclusive("path condition unsatisfiable at the end of a path (vacuous)")
        return m


ENGINE = Engine()


def set_engine(e: Engine) -> None:
    global ENGINE
    ENGINE = e


def _as_const(t: Any) -> Optional[int]:
    if isinstance(t, int):
        return t
    if z3.is_bv_value(t):
        return t.as_signed_long()
    if z3.is_int_value(t):
        return t.as_long()
    return None


def _mk_const(like: Any, v: int) -> Any:
    if z3.is_bv(like):
        return z3.BitVecVal(v, like.size())
    return z3.IntVal(v)


# --------------------------------------------------------------------------- proxies


class SymBool:
    __slots__ = ("e",)

    def __init__(self, e: Any):
        self.e = e

    def __bool__(self) -> bool:
        return ENGINE.branch(self.e)

    def _l(self, o: Any) -> Any:
        if isinstance(o, SymBool):
            return o.e
        if isinstance(o, bool):
            return z3.BoolVal(o)
        return None

    def __and__(self, o: Any) -> Any:
        l = self._l(o)
        if l is None:
            return NotImplemented
        return SymBool(z3.And(self.e, l))

    __rand__ = __and__

    def __or__(self, o: Any) -> Any:
        l = self._l(o)
        if l is None:
            return NotImplemented
        return SymBool(z3.Or(self.e, l))

    __ror__ = __or__

    def __xor__(self, o: Any) -> Any:
        l = self._l(o)
        if l is None:
            return NotImplemented
        return SymBool(z3.Xor(self.e, l))

    __rxor__ = __xor__

    def __invert__(self) -> Any:
        raise TypeError("~ on a symbolic bool")

    def __eq__(self, o: Any) -> Any:  # type: ignore
        l = self._l(o)
        if l is not None:
            return SymBool(self.e == l)
        if isinstance(o, (int, SymInt)):
            return self.as_int() == o
        return False

    def __ne__(self, o: Any) -> Any:  # type: ignore
        r = self.__eq__(o)
        if isinstance(r, SymBool):
            return SymBool(z3.Not(r.e))
        return not r

    def __hash__(self) -> int:
        raise modelled(TypeError("unhashable symbolic bool"))

    def as_int(self) -> "SymInt":
        return _DOMAIN.from_bool(self)

    # arithmetic on bools goes through ints
    def __add__(self, o: Any) -> Any:
        return self.as_int() + o

    __radd__ = __add__

    def __rshift__(self, o: Any) -> Any:
        return self.as_int() >> o

    def __lshift__(self, o: Any) -> Any:
        return self.as_int() << o

    def __index__(self) -> int:
        return int(bool(self))

    def __deepcopy__(self, memo: Any) -> "SymBool":
        return self

    def __copy__(self) -> "SymBool":
        return self

    def __repr__(self) -> str:
        return ENGINE.sentinel(self.e)

    __str__ = __repr__

    def __format__(self, spec: str) -> str:
        return ENGINE.sentinel(self.e)

    def __getattr__(self, n: str) -> Any:
        raise TypeError(f"SymBool has no attribute {n!r} (unmodelled)")


class SymInt:
    """Common base; subclasses BVInt and ZInt implement the arithmetic."""

    __slots__ = ()

    def __bool__(self) -> bool:
        return ENGINE.branch(self.nonzero())

    def __index__(self) -> int:
        c = _as_const(z3.simplify(self.e))  # type: ignore
        if c is not None:
            return c
        return ENGINE.concretize(self.e, "index")  # type: ignore

    def __deepcopy__(self, memo: Any) -> Any:
        return self

    def __copy__(self) -> Any:
        return self

    def __repr__(self) -> str:
        c = _as_const(z3.simplify(self.e))  # type: ignore
        if c is not None:
            return repr(c)
        return ENGINE.sentinel(self.e)  # type: ignore

    __str__ = __repr__

    def __format__(self, spec: str) -> str:
        c = _as_const(z3.simplify(self.e))  # type: ignore
        if c is not None:
            return format(c, spec)
        return ENGINE.sentinel(self.e)  # type: ignore

    def __len__(self) -> int:
        raise TypeError("len() of a symbolic int")

    def __iter__(self) -> Any:
        raise TypeError("iter() of a symbolic int")

    def __contains__(self, x: Any) -> bool:
        raise TypeError("in on a symbolic int")

    def __int__(self) -> int:
        raise TypeError("__int__ on a symbolic int (use the private builtin int)")

    def __float__(self) -> float:
        raise TypeError("float() of a symbolic int")

    def __getattr__(self, n: str) -> Any:
        raise TypeError(f"SymInt has no attribute {n!r} (unmodelled)")


def _bits_of(v: int) -> int:
    return v.bit_length() + 1


def _mkbool(e: Any) -> Any:
    e = z3.simplify(e)
    if z3.is_true(e):
        return True
    if z3.is_false(e):
        return False
    return SymBool(e)


def _mkz(e: Any) -> Any:
    # Z-domain terms are never collapsed to Python ints, even when they fold to a numeral:
    # every number that can reach a dict / set / functools.cache key must hash like a ZInt
    # (constant 0) so that lookups compare with `==` instead of missing by hash.
    return ZInt(z3.simplify(e))


def modelled(exc: BaseException) -> BaseException:
    """tag an exception that the proxies raise *on behalf of* the modelled Python type (so it
    is an outcome of the code under test, not an engine error)"""
    exc._bpv_modelled = True  # type: ignore
    return exc


class BVInt(SymInt):
    """W-bit two's complement term standing for an unbounded Python int whose value is known
    to fit `bits` bits (sign bit included); `nn` = known non-negative."""

    __slots__ = ("e", "bits", "nn")

    def __init__(self, e: Any, bits: int, nn: bool = False):
        if bits > W - 1:
            raise EncodingOverflow(f"term may need {bits} bits > {W}")
        self.e = e
        self.bits = max(bits, 1)
        self.nn = nn

    # -- construction helpers
    @staticmethod
    def var(name: str, n: int, signed: bool) -> "BVInt":
        """n-bit input variable, zero- or sign-extended."""
        x = z3.BitVec(name, n)
        if signed:
            return BVInt(z3.SignExt(W - n, x), n, False)
        return BVInt(z3.ZeroExt(W - n, x), n + 1, True)

    @staticmethod
    def of_term(x: Any, signed: bool) -> "BVInt":
        n = x.size()
        if signed:
            return BVInt(z3.SignExt(W - n, x), n, False)
        return BVInt(z3.ZeroExt(W - n, x), n + 1, True)

    @staticmethod
    def free(name: str, n: int) -> "BVInt":
        """free n-bit two's complement int (negative included)."""
        x = z3.BitVec(name, n)
        return BVInt(z3.SignExt(W - n, x), n, False)

    @staticmethod
    def const(v: int) -> "BVInt":
        return BVInt(z3.BitVecVal(v, W), _bits_of(v), v >= 0)

    @staticmethod
    def from_bool(b: SymBool) -> "BVInt":
        return BVInt(z3.If(b.e, z3.BitVecVal(1, W), z3.BitVecVal(0, W)), 2, True)

    @staticmethod
    def lift(o: Any) -> Optional["BVInt"]:
        if isinstance(o, BVInt):
            return o
        if isinstance(o, SymBool):
            return BVInt.from_bool(o)
        if isinstance(o, int):  # includes bool and IntEnum members
            return BVInt.const(int(o))
        return None

    def _s(self) -> Any:
        e = z3.simplify(self.e)
        if z3.is_bv_value(e):
            return e.as_signed_long()  # a term that folds to a numeral is a plain Python int
        self.e = e
        return self

    def nonzero(self) -> Any:
        return self.e != 0

    def conc(self) -> Optional[int]:
        return _as_const(z3.simplify(self.e))

    # -- arithmetic
    def _bin(self, o: Any, f: Callable[["BVInt", "BVInt"], Any]) -> Any:
        l = BVInt.lift(o)
        if l is None:
            return NotImplemented
        return f(self, l)

    def __add__(self, o: Any) -> Any:
        return self._bin(o, lambda a, b: BVInt(a.e + b.e, max(a.bits, b.bits) + 1, a.nn and b.nn)._s())

    __radd__ = __add__

    def __sub__(self, o: Any) -> Any:
        return self._bin(o, lambda a, b: BVInt(a.e - b.e, max(a.bits, b.bits) + 1, False)._s())

    def __rsub__(self, o: Any) -> Any:
        return self._bin(o, lambda a, b: BVInt(b.e - a.e, max(a.bits, b.bits) + 1, False)._s())

    def __mul__(self, o: Any) -> Any:
        return self._bin(o, lambda a, b: BVInt(a.e * b.e, a.bits + b.bits, a.nn and b.nn)._s())

    __rmul__ = __mul__

    def __neg__(self) -> Any:
        return BVInt(-self.e, self.bits + 1, False)._s()

    def __pos__(self) -> Any:
        return self

    def __invert__(self) -> Any:
        return BVInt(~self.e, self.bits, False)._s()

    def __and__(self, o: Any) -> Any:
        def f(a: "BVInt", b: "BVInt") -> "BVInt":
            if a.nn and b.nn:
                bits = min(a.bits, b.bits)
            elif a.nn:
                bits = a.bits
            elif b.nn:
                bits = b.bits
            else:
                bits = max(a.bits, b.bits)
            return BVInt(a.e & b.e, bits, a.nn or b.nn)._s()

        return self._bin(o, f)

    __rand__ = __and__

    def __or__(self, o: Any) -> Any:
        return self._bin(o, lambda a, b: BVInt(a.e | b.e, max(a.bits, b.bits), a.nn and b.nn)._s())

    __ror__ = __or__

    def __xor__(self, o: Any) -> Any:
        return self._bin(o, lambda a, b: BVInt(a.e ^ b.e, max(a.bits, b.bits), a.nn and b.nn)._s())

    __rxor__ = __xor__

    def _shift_amount(self, o: Any) -> int:
        if isinstance(o, SymInt):
            k = ENGINE.concretize(o.e, "shift amount")  # type: ignore
        elif isinstance(o, int):
            k = int(o)
        else:
            raise TypeError("shift amount")
        if k < 0:
            raise modelled(ValueError("negative shift count"))
        return k

    def __lshift__(self, o: Any) -> Any:
        k = self._shift_amount(o)
        return BVInt(self.e << k, self.bits + k, self.nn)._s()

    def __rshift__(self, o: Any) -> Any:
        k = self._shift_amount(o)
        if k >= W:
            k = W - 1
        return BVInt(self.e >> k, max(self.bits - k, 2 if self.nn else 1), self.nn)._s()

    def __rlshift__(self, o: Any) -> Any:
        k = self._shift_amount(self)
        l = BVInt.lift(o)
        if l is None:
            return NotImplemented
        return l << k

    def __rrshift__(self, o: Any) -> Any:
        k = self._shift_amount(self)
        l = BVInt.lift(o)
        if l is None:
            return NotImplemented
        return l >> k

    def __mod__(self, o: Any) -> Any:
        if isinstance(o, int) and not isinstance(o, bool) and o > 0:
            return BVInt(self.e % z3.BitVecVal(o, W), _bits_of(o), True)._s()  # z3py % on BitVec = bvsmod (sign of divisor) = Python % for o > 0
        raise Unsupported("BV % by a non-constant or non-positive divisor")

    def __floordiv__(self, o: Any) -> Any:
        if isinstance(o, int) and not isinstance(o, bool) and o > 0:
            if o & (o - 1) == 0:
                return self >> (o.bit_length() - 1)
            if self.nn:
                return BVInt(z3.UDiv(self.e, z3.BitVecVal(o, W)), self.bits, True)._s()
        raise Unsupported("BV // unsupported operands")

    def __truediv__(self, o: Any) -> Any:
        raise Unsupported("true division on a symbolic runtime int")

    def __abs__(self) -> Any:
        return BVInt(z3.If(self.e < 0, -self.e, self.e), self.bits + 1, True)._s()

    # -- comparisons (signed, on W bits)
    def _cmp(self, o: Any, f: Callable[[Any, Any], Any]) -> Any:
        l = BVInt.lift(o)
        if l is None:
            return NotImplemented
        return _mkbool(f(self.e, l.e))

    def __lt__(self, o: Any) -> Any:
        return self._cmp(o, lambda a, b: a < b)

    def __le__(self, o: Any) -> Any:
        return self._cmp(o, lambda a, b: a <= b)

    def __gt__(self, o: Any) -> Any:
        return self._cmp(o, lambda a, b: a > b)

    def __ge__(self, o: Any) -> Any:
        return self._cmp(o, lambda a, b: a >= b)

    def __eq__(self, o: Any) -> Any:  # type: ignore
        l = BVInt.lift(o)
        if l is None:
            return False
        return _mkbool(self.e == l.e)

    def __ne__(self, o: Any) -> Any:  # type: ignore
        l = BVInt.lift(o)
        if l is None:
            return True
        return _mkbool(self.e != l.e)

    def __hash__(self) -> int:
        # unhashable on purpose: enum.Enum.__new__ then takes its documented O(n) search,
        # `member._value_ == value`, which forks through SymBool.__bool__.
        raise modelled(TypeError("unhashable symbolic int (BV domain)"))

    def bit_length(self) -> Any:
        raise Unsupported("bit_length in BV domain")

    def low(self, n: int) -> Any:
        """the low n bits as an n-bit term"""
        return z3.simplify(z3.Extract(n - 1, 0, self.e))


class ZQuot:
    """x / 2^k (true division) waiting for int(): valid under 0 <= x < 2^53 (lemma L_fp)."""

    __slots__ = ("n", "d")

    def __init__(self, n: "ZInt", d: int):
        self.n = n
        self.d = d

    def __getattr__(self, n: str) -> Any:
        raise TypeError("ZQuot is only valid as an argument of int()")


class ZFQuot:
    """n / d (true division of ints, i.e. an IEEE double) waiting for int(): see sym_int (model L_fpq)"""

    __slots__ = ("n", "d")

    def __init__(self, n: Any, d: Any):
        self.n = n
        self.d = d

    def __getattr__(self, n: str) -> Any:
        raise TypeError("ZFQuot is only valid as an argument of int()")


_FPQ = [0]


def _fpq_int(n: Any, d: Any) -> Any:
    """int(n / d) for mathematical ints n, d with d != 0 -- model L_fpq of the double-precision quotient:
      * |n|, |d| < 2^53: exactly trunc(n / d) (both operands are doubles; the correctly rounded quotient cannot cross
        an integer: a non-integral n/d is >= 1/|d| away from one, the rounding error is < |n/d| 2^-53 < 1/|d|);
      * d == 1 and 2^53 <= n < 2^54: n rounded to even mantissa (spacing 2, ties to even) -- the one region where
        the inexact result is modelled exactly, so that a counterexample can be confirmed natively;
      * otherwise: some integer within relative error 2^-52 (+1) of the true quotient (sound over-approximation)."""
    _FPQ[0] += 1
    r = z3.Int(f"fpq!{_FPQ[0]}")
    an, ad = z3.If(n >= 0, n, -n), z3.If(d >= 0, d, -d)
    q = an / ad
    t = z3.If((n >= 0) == (d > 0), q, -q)
    B = 2 ** 53
    exact = z3.And(an < B, ad < B)
    tie = z3.And(d == 1, n >= B, n < 2 * B)
    tie_val = z3.If(n % 2 == 0, n, z3.If(((n + 1) / 2) % 2 == 0, n + 1, n - 1))
    slack = q / (2 ** 52) + 1
    ENGINE.assume(z3.Implies(exact, r == t))
    ENGINE.assume(z3.Implies(tie, r == tie_val))
    ENGINE.assume(z3.And(r >= t - slack, r <= t + slack))
    ENGINE.notes.append("L_fpq")
    ENGINE.fpq_sites.append((n, d, r, tie))
    return r


class ZInt(SymInt):
    __slots__ = ("e",)

    def __init__(self, e: Any):
        self.e = e

    @staticmethod
    def var(name: str) -> "ZInt":
        return ZInt(z3.Int(name))

    @staticmethod
    def const(v: int) -> "ZInt":
        return ZInt(z3.IntVal(v))

    @staticmethod
    def from_bool(b: SymBool) -> "ZInt":
        return ZInt(z3.If(b.e, z3.IntVal(1), z3.IntVal(0)))

    @staticmethod
    def lift(o: Any) -> Optional[Any]:
        if isinstance(o, ZInt):
            return o.e
        if isinstance(o, SymBool):
            return z3.If(o.e, z3.IntVal(1), z3.IntVal(0))
        if isinstance(o, int):
            return z3.IntVal(int(o))
        return None

    def nonzero(self) -> Any:
        return self.e != 0

    def conc(self) -> Optional[int]:
        return _as_const(z3.simplify(self.e))

    def _bin(self, o: Any, f: Callable[[Any, Any], Any]) -> Any:
        l = ZInt.lift(o)
        if l is None:
            return NotImplemented
        return _mkz(f(self.e, l))

    def __add__(self, o: Any) -> Any:
        return self._bin(o, lambda a, b: a + b)

    __radd__ = __add__

    def __sub__(self, o: Any) -> Any:
        return self._bin(o, lambda a, b: a - b)

    def __rsub__(self, o: Any) -> Any:
        return self._bin(o, lambda a, b: b - a)

    def __mul__(self, o: Any) -> Any:
        return self._bin(o, lambda a, b: a * b)

    __rmul__ = __mul__

    def __neg__(self) -> Any:
        return _mkz((-self.e))

    def __pos__(self) -> Any:
        return self

    @staticmethod
    def _floordiv(n: Any, d: Any) -> Any:
        # Python floor division on mathematical integers. z3's div floors for d > 0.
        return z3.If(d > 0, n / d, (-n) / (-d))

    def __floordiv__(self, o: Any) -> Any:
        d = ZInt.lift(o)
        if d is None:
            return NotImplemented
        if ENGINE.branch(d == 0):
            raise modelled(ZeroDivisionError("integer division or modulo by zero"))
        return _mkz((ZInt._floordiv(self.e, d)))

    def __rfloordiv__(self, o: Any) -> Any:
        n = ZInt.lift(o)
        if n is None:
            return NotImplemented
        if ENGINE.branch(self.e == 0):
            raise modelled(ZeroDivisionError("integer division or modulo by zero"))
        return _mkz((ZInt._floordiv(n, self.e)))

    def __mod__(self, o: Any) -> Any:
        d = ZInt.lift(o)
        if d is None:
            return NotImplemented
        if ENGINE.branch(d == 0):
            raise modelled(ZeroDivisionError("integer division or modulo by zero"))
        q = ZInt._floordiv(self.e, d)
        return _mkz((self.e - q * d))

    def __rmod__(self, o: Any) -> Any:
        n = ZInt.lift(o)
        if n is None:
            return NotImplemented
        if ENGINE.branch(self.e == 0):
            raise modelled(ZeroDivisionError("integer division or modulo by zero"))
        q = ZInt._floordiv(n, self.e)
        return _mkz((n - q * self.e))

    def __truediv__(self, o: Any) -> Any:
        if isinstance(o, int) and not isinstance(o, bool) and o > 0 and (o & (o - 1)) == 0:
            return ZQuot(self, o)
        d = ZInt.lift(o)
        if d is None:
            return NotImplemented
        return ZFQuot(self.e, d)

    def __rtruediv__(self, o: Any) -> Any:
        n = ZInt.lift(o)
        if n is None:
            return NotImplemented
        return ZFQuot(n, self.e)

    def __lshift__(self, o: Any) -> Any:
        if isinstance(o, int):
            return _mkz((self.e * (1 << o)))
        raise Unsupported("symbolic shift in Z domain")

    def __rshift__(self, o: Any) -> Any:
        if isinstance(o, int):
            return _mkz((self.e / (1 << o)))
        raise Unsupported("symbolic shift in Z domain")

    def __rlshift__(self, o: Any) -> Any:
        # <int> << <symbolic count>: counts are widths (a few dozen feasible values): fork over them
        if isinstance(o, int) and not isinstance(o, bool):
            if ENGINE.branch(self.e < 0):
                raise modelled(ValueError("negative shift count"))
            return o << ENGINE.concretize(self.e, "shift count")
        raise Unsupported("symbolic shift in Z domain")

    def __rrshift__(self, o: Any) -> Any:
        if isinstance(o, int) and not isinstance(o, bool):
            if ENGINE.branch(self.e < 0):
                raise modelled(ValueError("negative shift count"))
            return o >> ENGINE.concretize(self.e, "shift count")
        raise Unsupported("symbolic shift in Z domain")

    def __and__(self, o: Any) -> Any:
        raise Unsupported("bitwise and in Z domain")

    def __or__(self, o: Any) -> Any:
        raise Unsupported("bitwise or in Z domain")

    def __abs__(self) -> Any:
        return _mkz((z3.If(self.e < 0, -self.e, self.e)))

    def _cmp(self, o: Any, f: Callable[[Any, Any], Any]) -> Any:
        l = ZInt.lift(o)
        if l is None:
            return NotImplemented
        return _mkbool(f(self.e, l))

    def __lt__(self, o: Any) -> Any:
        return self._cmp(o, lambda a, b: a < b)

    def __le__(self, o: Any) -> Any:
        return self._cmp(o, lambda a, b: a <= b)

    def __gt__(self, o: Any) -> Any:
        return self._cmp(o, lambda a, b: a > b)

    def __ge__(self, o: Any) -> Any:
        return self._cmp(o, lambda a, b: a >= b)

    def __eq__(self, o: Any) -> Any:  # type: ignore
        l = ZInt.lift(o)
        if l is None:
            return False
        return _mkbool(self.e == l)

    def __ne__(self, o: Any) -> Any:  # type: ignore
        l = ZInt.lift(o)
        if l is None:
            return True
        return _mkbool(self.e != l)

    def __hash__(self) -> int:
        # constant hash + symbolic __eq__: real dict / set / functools.cache lookups with a
        # symbolic key fork on equality with each stored key (which must be wrapped too or
        # hash to 0 -- see the int-literal container transform in the loader).
        return 0

    _bl_n = 0

    def bit_length(self) -> Any:
        # exact for |x| < 2^80; above that an over-approximation: a fresh integer >= 81
        # (sound for proving; a spurious model would fail its native replay -> inconclusive)
        a = z3.If(self.e < 0, -self.e, self.e)
        ZInt._bl_n += 1
        big = z3.Int(f"bitlen!{ZInt._bl_n}")
        ENGINE.assume(big >= 81)
        e = big
        for k in range(80, -1, -1):
            e = z3.If(a < 2 ** k, z3.IntVal(k), e)
        return ZInt(z3.simplify(e))


_DOMAIN: Any = BVInt


def set_domain(d: str) -> None:
    global _DOMAIN
    _DOMAIN = {"BV": BVInt, "Z": ZInt}[d]


def is_sym(x: Any) -> bool:
    return isinstance(x, (SymInt, SymBool))


# --------------------------------------------------------------------------- containers


class SymBytes:
    """list-backed model of `bytearray`: like the real type it rejects any store it cannot
    prove to be in 0..255 (forking into the ValueError outcome when both are feasible)."""

    def __init__(self, src: Any = 0):
        if isinstance(src, SymInt):
            src = src.__index__()
        if isinstance(src, int):
            if src < 0:
                raise modelled(ValueError("negative count"))
            self.cells: List[Any] = [0] * src
        elif isinstance(src, (bytes, bytearray, SymBytes, list, tuple)):
            self.cells = list(src.cells if isinstance(src, SymBytes) else src)
        else:
            raise TypeError(f"bytearray({type(src).__name__})")

    def __len__(self) -> int:
        return len(self.cells)

    def _idx(self, i: Any) -> Any:
        if isinstance(i, SymInt):
            i = i.__index__()
        return i

    def __getitem__(self, i: Any) -> Any:
        i = self._idx(i)
        if isinstance(i, slice):
            return SymBytes(self.cells[i])
        try:
            return self.cells[i]
        except IndexError:
            raise modelled(IndexError("bytearray index out of range"))

    def __setitem__(self, i: Any, v: Any) -> None:
        i = self._idx(i)
        if isinstance(i, slice):
            raise Unsupported("slice store on bytearray model")
        if isinstance(v, SymBool):
            v = v.as_int()
        if isinstance(v, BVInt) and v.nn and v.bits <= 9:
            pass  # 0 <= v <= 255 follows from the term's bit bound
        elif isinstance(v, SymInt):
            ok = (v >= 0) & (v <= 255)
            if not bool(ok):
                raise modelled(ValueError("byte must be in range(0, 256)"))
        elif isinstance(v, int):
            if not (0 <= v <= 255):
                raise modelled(ValueError("byte must be in range(0, 256)"))
            v = int(v)
        else:
            raise modelled(TypeError(f"'{type(v).__name__}' object cannot be interpreted as an integer"))
        if not (-len(self.cells) <= i < len(self.cells)):
            raise modelled(IndexError("bytearray index out of range"))
        self.cells[i] = v

    def __iter__(self) -> Iterator[Any]:
        return iter(self.cells)

    def __eq__(self, o: Any) -> Any:  # type: ignore
        if isinstance(o, (SymBytes, bytes, bytearray)):
            oc = list(o.cells if isinstance(o, SymBytes) else o)
            if len(oc) != len(self.cells):
                return False
            r: Any = True
            for a, b in zip(self.cells, oc):
                c = a == b
                if c is False:
                    return False
                if c is not True:
                    r = c if r is True else (r & c)
            return r
        return False

    def __hash__(self) -> int:
        raise modelled(TypeError("unhashable type: 'bytearray'"))

    def __deepcopy__(self, memo: Any) -> "SymBytes":
        return SymBytes(self.cells)

    def __repr__(self) -> str:
        return f"bytearray(<{len(self.cells)} cells>)"

    NOT_JSON = True


class SymSet:
    """engine container for int-literal set/frozenset literals: membership is a sequence of
    `==` so that symbolic operands are compared, not hashed."""

    def __init__(self, items: Sequence[Any]):
        self.items = list(items)

    def __contains__(self, x: Any) -> bool:
        for it in self.items:
            r = x == it
            if bool(r):
                return True
        return False

    def __iter__(self) -> Iterator[Any]:
        return iter(self.items)

    def __len__(self) -> int:
        return len(self.items)


class SymDict:
    """engine container for dict literals with integer keys."""

    def __init__(self, pairs: Sequence[Tuple[Any, Any]]):
        self.pairs = list(pairs)

    def _find(self, k: Any) -> Optional[int]:
        for i, (kk, _) in enumerate(self.pairs):
            if bool(k == kk):
                return i
        return None

    def __contains__(self, k: Any) -> bool:
        return self._find(k) is not None

    def __getitem__(self, k: Any) -> Any:
        i = self._find(k)
        if i is None:
            raise modelled(KeyError(k))
        return self.pairs[i][1]

    def get(self, k: Any, d: Any = None) -> Any:
        i = self._find(k)
        return d if i is None else self.pairs[i][1]

    def __setitem__(self, k: Any, v: Any) -> None:
        i = self._find(k)
        if i is None:
            self.pairs.append((k, v))
        else:
            self.pairs[i] = (k, v)

    def keys(self) -> List[Any]:
        return [k for k, _ in self.pairs]

    def values(self) -> List[Any]:
        return [v for _, v in self.pairs]

    def items(self) -> List[Tuple[Any, Any]]:
        return list(self.pairs)

    def __iter__(self) -> Iterator[Any]:
        return iter(self.keys())

    def __len__(self) -> int:
        return len(self.pairs)


# --------------------------------------------------------------------------- private builtins


class _IntMeta(type):
    def __instancecheck__(cls, o: Any) -> bool:
        return isinstance(o, (int, SymInt, SymBool))

    def __subclasscheck__(cls, c: Any) -> bool:
        return issubclass(c, int) or c in (SymInt, BVInt, ZInt)


class sym_int(metaclass=_IntMeta):
    """replacement for the builtin `int` inside executed modules"""

    def __new__(cls, x: Any = 0, *a: Any) -> Any:
        if isinstance(x, SymInt):
            return x
        if isinstance(x, SymBool):
            return x.as_int()
        if isinstance(x, ZQuot):
            n = x.n
            ok = ENGINE.implied(z3.And(n.e >= 0, n.e < 2 ** 53))
            if ok is not True:
                raise Unsupported("int(x / 2^k) outside 0 <= x < 2^53 (lemma L_fp does not apply)")
            ENGINE.notes.append("L_fp")
            return _mkz((n.e / x.d))
        if isinstance(x, ZFQuot):
            if ENGINE.branch(x.d == 0):
                raise modelled(ZeroDivisionError("division by zero"))
            # CPython's int / int is correctly rounded and raises when the QUOTIENT does not fit a double
            an, ad = z3.If(x.n >= 0, x.n, -x.n), z3.If(x.d >= 0, x.d, -x.d)
            if ENGINE.branch(an >= ad * (2 ** 1024)):
                raise modelled(OverflowError("integer division result too large for a float"))
            return ZInt(_fpq_int(x.n, x.d))
        return int(x, *a)

    from_bytes = int.from_bytes


class _BoolMeta(type):
    def __instancecheck__(cls, o: Any) -> bool:
        return isinstance(o, (bool, SymBool))


class sym_bool(metaclass=_BoolMeta):
    def __new__(cls, x: Any = False) -> Any:
        if isinstance(x, SymBool):
            return x
        if isinstance(x, SymInt):
            return SymBool(z3.simplify(x.nonzero()))
        return bool(x)


def _map_cls(c: Any) -> Any:
    if c is sym_int:
        return (int, SymInt, SymBool)
    if c is sym_bool:
        return (bool, SymBool)
    if c is SymBytes:
        return (SymBytes, bytearray)
    if isinstance(c, tuple):
        out: List[Any] = []
        for k in c:
            m = _map_cls(k)
            out.extend(m if isinstance(m, tuple) else (m,))
        return tuple(out)
    return c


def sym_isinstance(o: Any, c: Any) -> bool:
    if isinstance(o, (SymInt, SymBool)):
        cs = c if isinstance(c, tuple) else (c,)
        for k in cs:
            if k is sym_int or k is int:
                return True
            if (k is sym_bool or k is bool) and isinstance(o, SymBool):
                return True
            if k is object:
                return True
        return False
    return isinstance(o, _map_cls(c))


def sym_len(x: Any) -> Any:
    return len(x)


def sym_range(*a: Any) -> range:
    return range(*[x.__index__() if isinstance(x, SymInt) else x for x in a])


def _ite_val(c: SymBool, a: Any, b: Any) -> Any:
    """value-level merge; returns NotImplemented if the operands cannot be merged"""
    if a is b:
        return a
    if isinstance(a, (SymBool, bool)) and isinstance(b, (SymBool, bool)) and not (isinstance(a, int) and not isinstance(a, bool)):
        ae = a.e if isinstance(a, SymBool) else z3.BoolVal(a)
        be = b.e if isinstance(b, SymBool) else z3.BoolVal(b)
        return SymBool(z3.simplify(z3.If(c.e, ae, be)))
    if _DOMAIN is BVInt:
        la, lb = BVInt.lift(a), BVInt.lift(b)
        if la is None or lb is None:
            return NotImplemented
        if type(a) is not type(b) and not (isinstance(a, (int, SymInt)) and isinstance(b, (int, SymInt))):
            return NotImplemented
        return BVInt(z3.If(c.e, la.e, lb.e), max(la.bits, lb.bits), la.nn and lb.nn)._s()
    la, lb = ZInt.lift(a), ZInt.lift(b)
    if la is None or lb is None:
        return NotImplemented
    return _mkz((z3.If(c.e, la, lb)))


def sym_minmax(which: str) -> Callable[..., Any]:
    real = min if which == "min" else max

    def f(*args: Any, **kw: Any) -> Any:
        items = list(args[0]) if len(args) == 1 else list(args)
        if kw or not any(is_sym(x) for x in items):
            return real(*args, **kw)
        cur = items[0]
        for x in items[1:]:
            c = (x < cur) if which == "min" else (x > cur)
            if isinstance(c, SymBool):
                m = _ite_val(c, x, cur)
                if m is NotImplemented:
                    cur = x if bool(c) else cur
                else:
                    cur = m
            elif c:
                cur = x
        return cur

    return f


def sym_sum(it: Any, start: Any = 0) -> Any:
    acc = start
    for x in it:
        acc = acc + x
    return acc


def sym_abs(x: Any) -> Any:
    return x.__abs__() if isinstance(x, SymInt) else abs(x)


def sym_divmod(a: Any, b: Any) -> Any:
    if is_sym(a) or is_sym(b):
        return (a // b, a % b)
    return divmod(a, b)


def sym_hex(x: Any) -> str:
    if isinstance(x, SymInt):
        return ENGINE.sentinel(x.e)  # type: ignore
    return hex(x)


def sym_str(x: Any = "", *a: Any) -> Any:
    return str(x, *a)


# if-conversion runtime support -------------------------------------------------


def _cond(t: Any) -> Any:
    """evaluate a test for if-conversion: returns True / False when the path condition
    decides it, else a SymBool"""
    if isinstance(t, SymInt):
        t = SymBool(z3.simplify(t.nonzero()))
    if isinstance(t, SymBool):
        r = ENGINE.implied(t.e)
        if r is None:
            return t
        return r
    return True if t else False


def _merge(c: SymBool, fa: Callable[[], Any], fb: Callable[[], Any]) -> Any:
    """`fa() if c else fb()` for a symbolic c and pure arms: evaluate both arms with forking
    forbidden and merge with ite; fall back to a real fork if that is impossible."""
    ENGINE.nomerge_fork += 1
    try:
        try:
            a = fa()
            b = fb()
            m = _ite_val(c, a, b)
        except MergeAbort:
            m = NotImplemented
        except Exception:
            m = NotImplemented
    finally:
        ENGINE.nomerge_fork -= 1
    if m is NotImplemented:
        return fa() if bool(c) else fb()
    ENGINE.stats["merges"] += 1
    return m


def _ifexp(t: Any, fa: Callable[[], Any], fb: Callable[[], Any]) -> Any:
    c = _cond(t)
    if c is True:
        return fa()
    if c is False:
        return fb()
    return _merge(c, fa, fb)


class _Pure(ast.NodeVisitor):
    OK = (
        ast.Name, ast.Constant, ast.BinOp, ast.UnaryOp, ast.Attribute, ast.Subscript, ast.Compare, ast.Load,
        ast.Add, ast.Sub, ast.Mult, ast.BitOr, ast.BitAnd, ast.BitXor, ast.LShift, ast.RShift, ast.Mod, ast.FloorDiv,
        ast.USub, ast.UAdd, ast.Invert, ast.Not, ast.Eq, ast.NotEq, ast.Lt, ast.LtE, ast.Gt, ast.GtE, ast.Index if hasattr(ast, "Index") else ast.Load,
        ast.Tuple, ast.Store,
    )

    def __init__(self, allow_calls: Sequence[str] = ()):
        self.ok = True
        self.allow_calls = set(allow_calls)

    def generic_visit(self, node: ast.AST) -> None:
        if isinstance(node, ast.Call):
            # pure accessor calls that the runtime/generator uses inside index expressions
            f = node.func
            name = f.attr if isinstance(f, ast.Attribute) else (f.id if isinstance(f, ast.Name) else None)
            if name not in self.allow_calls:
                self.ok = False
        elif not isinstance(node, self.OK):
            self.ok = False
        super().generic_visit(node)


PURE_CALLS = ("i", "int", "bool", "int8", "int16", "int32", "int64", "byte")


def _is_pure(node: ast.AST) -> bool:
    v = _Pure(PURE_CALLS)
    v.visit(node)
    return v.ok


class IfConvert(ast.NodeTransformer):
    """Declared AST transform (part of the encoding):
      * `a if t else b` with pure arms  ->  __ifexp(t, lambda: a, lambda: b)
      * `if t: X op= v` / `if t: X = v` (single statement, no else, pure X and v)
            ->  tmp = __cond(t); if tmp is True: <orig>; elif tmp is False: pass
                else: X = __merge(tmp, lambda: X op v, lambda: X)
    With a concrete test both behave exactly like the original statement."""

    def __init__(self) -> None:
        self.n = 0
        self.sites = 0

    def visit_IfExp(self, node: ast.IfExp) -> Any:
        self.generic_visit(node)
        if _is_pure(node.body) and _is_pure(node.orelse):
            self.sites += 1
            lam = lambda b: ast.Lambda(args=ast.arguments(posonlyargs=[], args=[], kwonlyargs=[], kw_defaults=[], defaults=[]), body=b)
            return ast.copy_location(
                ast.Call(func=ast.Name(id="_bpv_ifexp", ctx=ast.Load()), args=[node.test, lam(node.body), lam(node.orelse)], keywords=[]), node
            )
        return node

    def visit_If(self, node: ast.If) -> Any:
        self.generic_visit(node)
        if node.orelse or len(node.body) != 1:
            return node
        st = node.body[0]
        if isinstance(st, ast.AugAssign):
            tgt, val, op = st.target, st.value, st.op
        elif isinstance(st, ast.Assign) and len(st.targets) == 1:
            tgt, val, op = st.targets[0], st.value, None
        else:
            return node
        if not isinstance(tgt, (ast.Name, ast.Attribute, ast.Subscript)):
            return node
        if not (_is_pure(tgt) and _is_pure(val) and _is_pure(node.test)):
            return node
        self.n += 1
        self.sites += 1
        tmp = f"_bpv_ifc{self.n}"

        def load(t: ast.AST) -> ast.AST:
            import copy

            t2 = copy.deepcopy(t)
            for n in ast.walk(t2):
                if hasattr(n, "ctx"):
                    n.ctx = ast.Load()
            return t2

        lam = lambda b: ast.Lambda(args=ast.arguments(posonlyargs=[], args=[], kwonlyargs=[], kw_defaults=[], defaults=[]), body=b)
        newval = ast.BinOp(left=load(tgt), op=op, right=val) if op is not None else val
        merged = ast.Assign(
            targets=[tgt],
            value=ast.Call(func=ast.Name(id="_bpv_merge", ctx=ast.Load()), args=[ast.Name(id=tmp, ctx=ast.Load()), lam(newval), lam(load(tgt))], keywords=[]),
        )
        pre = ast.Assign(targets=[ast.Name(id=tmp, ctx=ast.Store())], value=ast.Call(func=ast.Name(id="_bpv_cond", ctx=ast.Load()), args=[node.test], keywords=[]))
        is_ = lambda c: ast.Compare(left=ast.Name(id=tmp, ctx=ast.Load()), ops=[ast.Is()], comparators=[ast.Constant(value=c)])
        new_if = ast.If(test=is_(True), body=[st], orelse=[ast.If(test=is_(False), body=[ast.Pass()], orelse=[merged])])
        return [ast.copy_location(pre, node), ast.copy_location(new_if, node)]


class IntContainers(ast.NodeTransformer):
    """Declared AST transform (Z domain): set / dict *literals* whose keys are integer
    constants become engine containers whose membership test is a sequence of `==`."""

    def __init__(self) -> None:
        self.sites = 0

    @staticmethod
    def _isint(n: ast.AST) -> bool:
        return isinstance(n, ast.Constant) and isinstance(n.value, int) and not isinstance(n.value, bool)

    def visit_Set(self, node: ast.Set) -> Any:
        self.generic_visit(node)
        if node.elts and all(self._isint(e) for e in node.elts):
            self.sites += 1
            return ast.copy_location(ast.Call(func=ast.Name(id="_bpv_symset", ctx=ast.Load()), args=[ast.Tuple(elts=node.elts, ctx=ast.Load())], keywords=[]), node)
        return node

    def visit_Dict(self, node: ast.Dict) -> Any:
        self.generic_visit(node)
        if node.keys and all(k is not None and self._isint(k) for k in node.keys):
            self.sites += 1
            pairs = ast.Tuple(elts=[ast.Tuple(elts=[k, v], ctx=ast.Load()) for k, v in zip(node.keys, node.values)], ctx=ast.Load())
            return ast.copy_location(ast.Call(func=ast.Name(id="_bpv_symdict", ctx=ast.Load()), args=[pairs], keywords=[]), node)
        return node


# --------------------------------------------------------------------------- loader


class SymLoader:
    """Loads source files into module objects with private builtins.  `roots` maps a
    top-level package/module name to a directory (package) or file; everything else is
    imported normally."""

    def __init__(self, domain: str, roots: Dict[str, str], ifconvert: bool = True):
        self.domain = domain
        self.roots = dict(roots)
        self.modules: Dict[str, types.ModuleType] = {}
        self.transform_sites = {"ifconvert": 0, "intcontainers": 0}
        self.ifconvert = ifconvert
        self.files: List[str] = []
        b = dict(builtins.__dict__)
        b["int"] = sym_int
        b["bool"] = sym_bool
        b["isinstance"] = sym_isinstance
        b["range"] = sym_range
        b["min"] = sym_minmax("min")
        b["max"] = sym_minmax("max")
        b["sum"] = sym_sum
        b["abs"] = sym_abs
        b["divmod"] = sym_divmod
        b["hex"] = sym_hex
        b["bytearray"] = SymBytes
        b["__import__"] = self._import
        b["_bpv_ifexp"] = _ifexp
        b["_bpv_cond"] = _cond
        b["_bpv_merge"] = _merge
        b["_bpv_symset"] = SymSet
        b["_bpv_symdict"] = SymDict
        self.builtins = b

    def _path_of(self, name: str) -> Optional[Tuple[str, bool]]:
        parts = name.split(".")
        if parts[0] not in self.roots:
            return None
        base = self.roots[parts[0]]
        if base.endswith(".py"):
            return (base, False) if len(parts) == 1 else None
        p = os.path.join(base, *parts[1:])
        if os.path.isdir(p) and os.path.exists(os.path.join(p, "__init__.py")):
            return (os.path.join(p, "__init__.py"), True)
        if os.path.exists(p + ".py"):
            return (p + ".py", False)
        return None

    def load(self, name: str) -> types.ModuleType:
        if name in self.modules:
            return self.modules[name]
        if "." in name:
            self.load(name.rsplit(".", 1)[0])
        r = self._path_of(name)
        if r is None:
            raise ImportError(f"symloader: no module {name}")
        path, is_pkg = r
        # cls.__module__ must resolve through sys.modules (dataclasses looks it up while the
        # class is being created); a prefixed name keeps the symbolic copy apart from a plain
        # import of the same module in this process.
        mod = types.ModuleType(f"sym{self.domain.lower()}.{name}")
        sys.modules[mod.__name__] = mod
        mod.__file__ = path
        mod.__dict__["__builtins__"] = self.builtins
        if is_pkg:
            mod.__path__ = [os.path.dirname(path)]  # type: ignore
            mod.__package__ = name
        else:
            mod.__package__ = name.rpartition(".")[0]
        self.modules[name] = mod
        src = open(path).read()
        self.files.append(path)
        tree = ast.parse(src, path)
        if self.ifconvert:
            t = IfConvert()
            tree = t.visit(tree)
            self.transform_sites["ifconvert"] += t.sites
        if self.domain == "Z":
            t2 = IntContainers()
            tree = t2.visit(tree)
            self.transform_sites["intcontainers"] += t2.sites
        ast.fix_missing_locations(tree)
        try:
            exec(compile(tree, path, "exec"), mod.__dict__)
        except BaseException:
            del self.modules[name]
            raise
        if "." in name:
            parent, _, child = name.rpartition(".")
            setattr(self.modules[parent], child, mod)
        return mod

    def _import(self, name: str, globals: Any = None, locals: Any = None, fromlist: Any = (), level: int = 0) -> Any:
        if level:
            pkg = (globals or {}).get("__package__") or ""
            base = pkg.rsplit(".", level - 1)[0] if level > 1 else pkg
            name = f"{base}.{name}" if name else base
        if name.split(".")[0] in self.roots:
            mod = self.load(name)
            if fromlist:
                for f in fromlist:
                    if f != "*" and not hasattr(mod, f) and self._path_of(f"{name}.{f}"):
                        self.load(f"{name}.{f}")
                return mod
            return self.modules[name.split(".")[0]]
        return builtins.__import__(name, globals, locals, fromlist, 0)
