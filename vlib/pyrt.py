"""Runtime-side harness pieces for E1/BV: load a generated Python module + the real bp.py into
pysym, build messages with symbolic leaves, run encode/decode, compare with the spec."""
from __future__ import annotations

import json
import os
import subprocess
from typing import Any, Dict, List, Optional, Tuple

import z3

from . import pysym
from .common import REPO, VENV_PY, Inconclusive
from .pysym import BVInt, SymBool, SymBytes, SymLoader
from .schema import Layout, Leaf, Message, leaf_range, spec_bytes_z3

BP_PY = os.path.join(REPO, "lib", "py", "bitprotolib")


class PyTarget:
    def __init__(self, gendir: str, modules: List[str]):
        """modules: generated module names (file stems, e.g. 't_bp'); the first is the main one"""
        roots = {"bitprotolib": BP_PY}
        for m in modules:
            roots[m] = os.path.join(gendir, m + ".py")
        pysym.set_domain("BV")
        self.loader = SymLoader("BV", roots)
        self.mods = {m: self.loader.load(m) for m in modules}
        self.main = self.mods[modules[0]]
        self.bp = self.loader.load("bitprotolib.bp")

    def cls(self, name: str) -> Any:
        return getattr(self.main, name)

    def new(self, name: str) -> Any:
        return self.cls(name)()


def py_class_name(chain: List[str]) -> str:
    """Python class name of a (possibly nested) message: enclosing names joined by '_'."""
    return "_".join(chain)


def nav_get(obj: Any, path: Tuple[Any, ...]) -> Any:
    for k, v in path:
        obj = getattr(obj, v) if k == "f" else obj[v]
    return obj


def nav_set(obj: Any, path: Tuple[Any, ...], val: Any) -> None:
    for k, v in path[:-1]:
        obj = getattr(obj, v) if k == "f" else obj[v]
    k, v = path[-1]
    if k == "f":
        setattr(obj, v, val)
    else:
        obj[v] = val


def sym_leaves(lay: Layout, prefix: str = "v", free_bits: Optional[int] = None) -> Tuple[Dict[Tuple[Any, ...], Any], Dict[Tuple[Any, ...], Any], List[Any]]:
    """For every leaf: the n-bit z3 variable (term), the Python-level proxy to store in the
    message, and the list of assumptions (enum membership).
    free_bits: if given, integer leaves are free `free_bits`-bit ints (out-of-range clause of
    C07); the returned term is then the low n bits."""
    terms: Dict[Tuple[Any, ...], Any] = {}
    proxies: Dict[Tuple[Any, ...], Any] = {}
    assumes: List[Any] = []
    for i, l in enumerate(lay.leaves()):
        name = f"{prefix}{i}_{l.pname()}"
        if l.kind == "bool":
            b = z3.Bool(name)
            terms[l.path] = z3.If(b, z3.BitVecVal(1, 1), z3.BitVecVal(0, 1))
            proxies[l.path] = SymBool(b)
        elif free_bits and l.kind in ("uint", "int"):
            x = z3.BitVec(name, free_bits)
            terms[l.path] = z3.Extract(l.n - 1, 0, x)
            proxies[l.path] = BVInt(z3.SignExt(pysym.W - free_bits, x), free_bits, False)
        else:
            x = z3.BitVec(name, l.n)
            terms[l.path] = x
            proxies[l.path] = BVInt.of_term(x, l.kind == "int")
            if l.kind == "enum":
                assert l.enum is not None
                assumes.append(z3.Or(*[x == v for _, v in l.enum.members]) if l.enum.members else z3.BoolVal(False))
    return terms, proxies, assumes


def cell8(c: Any) -> Any:
    """8-bit term of a bytearray cell"""
    if isinstance(c, BVInt):
        return c.low(8)
    if isinstance(c, SymBool):
        return z3.If(c.e, z3.BitVecVal(1, 8), z3.BitVecVal(0, 8))
    if isinstance(c, int):
        return z3.BitVecVal(c, 8)
    raise Inconclusive(f"unexpected cell {type(c).__name__}")


def leaf_term_of(val: Any, l: Leaf) -> Tuple[Any, Any]:
    """(n-bit term of the decoded Python value, in-range formula)"""
    lo, hi = leaf_range(l)
    if l.kind == "bool":
        if isinstance(val, SymBool):
            return z3.If(val.e, z3.BitVecVal(1, 1), z3.BitVecVal(0, 1)), z3.BoolVal(True)
        if isinstance(val, bool):
            return z3.BitVecVal(int(val), 1), z3.BoolVal(True)
        raise Inconclusive(f"bool leaf decoded to {type(val).__name__}")
    b = BVInt.lift(val)
    if b is None:
        raise Inconclusive(f"leaf decoded to {type(val).__name__}")
    inr = z3.And(b.e >= z3.BitVecVal(lo, pysym.W), b.e <= z3.BitVecVal(hi, pysym.W))
    return b.low(l.n), inr


# --------------------------------------------------------------------------- native replay

NATIVE_RUNNER = r'''
import sys, json, importlib, traceback
job = json.load(sys.stdin)
sys.path.insert(0, job["libdir"]); sys.path.insert(0, job["gendir"])
mod = importlib.import_module(job["module"])
def nav_get(obj, path):
    for k, v in path:
        obj = getattr(obj, v) if k == "f" else obj[v]
    return obj
def nav_set(obj, path, val):
    for k, v in path[:-1]:
        obj = getattr(obj, v) if k == "f" else obj[v]
    k, v = path[-1]
    if k == "f": setattr(obj, v, val)
    else: obj[v] = val
def conv(v):
    if isinstance(v, bool): return int(v)
    return int(v)
out = []
for case in job["cases"]:
    r = {}
    try:
        cls = getattr(mod, case["message"])
        m = cls()
        for path, val, kind in case.get("values", []):
            nav_set(m, path, bool(val) if kind == "bool" else val)
        if case["op"] in ("encode", "roundtrip", "json"):
            s = m.encode(); r["bytes"] = bytes(s).hex()
        if case["op"] == "json":
            r["json"] = m.to_json(); r["dict"] = json.loads(json.dumps(m.to_dict(), default=lambda o: list(o)))
        if case["op"] in ("decode", "roundtrip"):
            wire = bytearray.fromhex(case["wire"]) if case["op"] == "decode" else s
            d = getattr(mod, case.get("decode_message", case["message"]))()
            d.decode(wire)
            r["leaves"] = [[p, conv(nav_get(d, p))] for p in case["read"]]
            if case["op"] == "roundtrip":
                r["bytes2"] = bytes(d.encode()).hex()
    except Exception as e:
        tb = traceback.extract_tb(e.__traceback__)
        fr = [f for f in tb if job["gendir"] in f.filename or "bitprotolib" in f.filename]
        last = fr[-1] if fr else tb[-1]
        r["exc"] = type(e).__name__; r["msg"] = str(e)[:200]
        r["frame"] = [last.filename.split("/")[-1], last.name, (last.line or "").strip()]
    out.append(r)
json.dump(out, sys.stdout)
'''


def native_run(gendir: str, module: str, cases: List[Dict[str, Any]], libdir: Optional[str] = None, timeout: int = 120) -> List[Dict[str, Any]]:
    """Run cases through the *unpatched* generated module and bp.py under plain CPython (the
    repository's interpreter), real int and real bytearray."""
    job = {"gendir": gendir, "libdir": libdir or os.path.join(REPO, "lib", "py"), "module": module, "cases": cases}
    p = subprocess.run([VENV_PY, "-c", NATIVE_RUNNER], input=json.dumps(job), capture_output=True, text=True, timeout=timeout,
                       env={"PATH": os.environ.get("PATH", ""), "PYTHONHASHSEED": "0"})
    if p.returncode != 0:
        raise Inconclusive(f"native runner failed: {p.stderr[-400:]}")
    return json.loads(p.stdout)


def model_values(lay: Layout, terms: Dict[Tuple[Any, ...], Any], model: Any) -> List[Any]:
    """[(path, python value, kind)] for every leaf, from a z3 model (signed for int leaves)."""
    out = []
    for l in lay.leaves():
        v = model.eval(terms[l.path], model_completion=True).as_long()
        if l.signed and v >> (l.n - 1):
            v -= 1 << l.n
        out.append([list(map(list, l.path)), v, l.kind])
    return out
