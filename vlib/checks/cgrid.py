"""C parts of C14: the grid through the C runtime (little- and big-endian IR, -O0/-O2) and
through the optimization-mode statement generator."""
from __future__ import annotations

from typing import Any, List, Tuple

from . import cenc
from .cenc import Cfg


def parts(grid: List[Any], q: bool) -> List[Tuple[str, Any, List[Any]]]:
    rt = [Cfg("O0", "x86_64"), Cfg("O2", "x86_64"), Cfg("O0", "s390x"), Cfg("O2", "s390x")]
    op = [Cfg("O2", "x86_64", False, (), True, "both"), Cfg("O2", "x86_64", False, ("BP_BIG_ENDIAN",), True, "both", False), Cfg("O2", "s390x", False, (), True, "both")]
    if q:
        sel = grid[::2]
        return [("c-runtime-le+be", cenc.work, [(c, [cfg], ("encode", "decode")) for i, c in enumerate(sel) for cfg in (rt[i % 2], rt[2 + (i + 1) % 2])]),
                ("c-optimization-mode", cenc.work, [(c, [op[i % 3]], ("encode", "decode")) for i, c in enumerate(sel)])]
    return [("c-runtime-le+be", cenc.work, [(c, [cfg], ("encode", "decode")) for c in grid for cfg in rt]),
            ("c-optimization-mode", cenc.work, [(c, [cfg], ("encode", "decode")) for c in grid for cfg in op])]
