"""C01 Python encoder emits exactly the specified bit layout (E1/BV)."""
from __future__ import annotations

import json

from ..common import Evidence, Report, pmap, repo_files, seed, tier
from ..families import f_grid, f_shape
from . import pyenc
from .agg import aggregate
from .pycommon import RUNTIME_FILES

PROP = "C01"


def cases():
    q = tier() == "quick"
    cs = f_shape(q, seed())
    g = f_grid(True)
    cs += g[:: 4] if q else g  # the complete grid is C14's job; C01 takes the quick grid
    return cs


def main() -> int:
    ev = Evidence(PROP, "translation_validation")
    rep = Report(PROP)
    cs = cases()
    results = pmap(pyenc.work, [(c, "encode") for c in cs])
    tot = aggregate(PROP, ev, rep, results)
    from .. import golden

    gn, gok, gnotes = golden.tiein()
    if gn == 0 or gok != gn:
        rep.inconc(f"reference encoder is not tied to the upstream golden digests: {gnotes}")
    ev.cov = {
        "programs": tot["messages"],
        "disagreements_checked": tot["counterexamples_replayed"],
        "samples": tot["samples"],
        "schema_files": tot["cases"],
        "leaves": tot["leaves"],
        "paths": tot["paths"],
        "obligations": tot["obligations"],
        "queries": {"total": tot["queries"], "unsat": tot["unsat"], "sat": tot["sat"], "unknown": tot["unknown"]},
        "solver_s": tot["solver_s"],
        "if_conversions": tot["merges"],
        "interpreter_validation": {"n": tot["witness"], "agree": tot["witness_agree"]},
        "cross_solver": {"solver": "cvc5 1.4 (wheel)", "n": tot.get("xsolver_n", 0), "agree": tot.get("xsolver_agree", 0), "disagree": tot.get("xsolver_disagree", 0), "cvc5_unknown": tot.get("xsolver_cvc5_unknown", 0), "errors": tot.get("xsolver_errors", 0)},
        "reference_validation": {"upstream_golden_digests": gn, "reproduced_by_reference_encoder_and_python_runtime": gok},
        "functions_encoded": repo_files(RUNTIME_FILES),
        "bounds": "families F_shape (+seeded random tail) and the quick F_grid slice; widths 1..64; all in-range values of every leaf; BV width 192 with overflow guard; <=600 paths per message",
        "outside_claim": "schemas outside the families; CPython int/bytearray are modelled (guarded BV-192, SymBytes); dataclasses/enum run for real",
        "stubs": ["int", "bool", "isinstance", "bytearray->SymBytes", "range", "min", "max", "if-conversion AST transform"],
        "explanation": "one symbolic run of the real generated encode() + bp.py per message and path; single query out-bytes != spec-bytes; unsat = holds for every in-range value",
    }
    ev.assumptions = ["z3 5.1 decides QF_BV queries correctly", "reference encoder (vlib.schema.spec_*) states the specified layout (it reproduces the four golden sha256 digests of the upstream encoding cases on every run)", "proxy semantics validated against native CPython on witness/extreme values each run"]
    return rep.finish(ev)


def replay(path: str) -> int:
    p = json.load(open(path))
    bad, why = pyenc.replay_payload(p)
    print(("FAILS: " if bad else "passes: ") + why)
    return 1 if bad else 0
