"""C10 kernel (E4): (1) no two generated C declarations share a name -- pairwise injectivity
of the name templates read from the current formatter/renderer sources, over identifier strings
and field numbers; (2) a file that imports another schema refers to the file the compiler
actually generates for it (C, Python).  Every sat model is turned into a schema, compiled with
the real compiler and handed to gcc / CPython to confirm."""
from __future__ import annotations

import os
import re
import time
from typing import Any, Callable, Dict, List, Optional, Tuple

import z3

from ..common import REPO, Inconclusive, Scratch, run, tier
from ..compile import compile_cli, write_files
from ..tmplsym import NUM, PASCAL, RD, Abs, Ctx, Translator

PROP = "C10"
FILES = ["compiler/bitproto/renderer/formatter.py", "compiler/bitproto/renderer/impls/c/formatter.py", "compiler/bitproto/renderer/impls/c/renderer_h.py", "compiler/bitproto/renderer/impls/py/formatter.py", "compiler/bitproto/renderer/impls/go/formatter.py"]


def _res(name: str) -> Dict[str, Any]:
    return {"case": name, "messages": 1, "leaves": 0, "paths": 0, "queries": 0, "unsat": 0, "sat": 0, "unknown": 0, "solver_s": 0.0, "merges": 0, "witness": 0, "witness_agree": 0,
            "violations": [], "inconclusive": [], "samples": [], "obligations": 0}


class Side:
    """one set of source definitions: a message (with an array field), an alias, an enum, a constant"""

    def __init__(self, ctx: Ctx, tag: str):
        # a message's generated name is the names of its enclosing messages followed by its own (declared) name
        self.raw = z3.String(f"raw{tag}")
        self.scope = z3.String(f"scope{tag}")
        self.msg = Abs("Message", name=self.raw)
        full = ctx.fresh(("name", id(self.msg)), PASCAL, "Name")
        ctx.cons += [z3.InRe(self.raw, PASCAL), z3.Or(self.scope == z3.StringVal(""), z3.InRe(self.scope, PASCAL)), z3.Length(self.scope) <= 4, full == z3.Concat(self.scope, self.raw)]
        self.num = z3.String(f"num{tag}")
        ctx.cons += [z3.InRe(self.num, NUM)]
        self.field = Abs("MessageField", message=self.msg, number=("intstr", self.num))
        self.alias = Abs("Alias")
        self.enum = Abs("Enum")
        self.const = Abs("Constant")
        self.ctx = ctx

    def name(self, what: str) -> Any:
        obj = {"msg": self.msg, "alias": self.alias, "enum": self.enum, "const": self.const}[what]
        return self.ctx.fresh(("name", id(obj)), PASCAL, "Name")


def templates() -> Dict[str, Tuple[str, Callable[[Translator, Translator, Ctx, Side], Any]]]:
    """template name -> (kind of source definition, builder of the z3 term)"""
    CF = Abs("CFormatter")
    ARR = Abs("Array")

    def blk(cls: str) -> Callable[[Translator, Translator, Ctx, Side], Any]:
        def b(TF: Translator, TH: Translator, ctx: Ctx, s: Side) -> Any:
            o = Abs(cls, message_name=s.name("msg"), formatter=CF, d=s.msg)
            return TH.ev(ctx, __import__("ast").parse("self.function_name", mode="eval").body, {"self": o})

        return b

    T: Dict[str, Tuple[str, Any]] = {
        "arrproc_field": ("field", lambda TF, TH, c, s: TF.call(c, "format_bp_array_processor_name", [ARR, s.field], CF, "CFormatter")),
        "arrjson_field": ("field", lambda TF, TH, c, s: TF.call(c, "format_bp_array_json_formatter_name", [ARR, s.field], CF, "CFormatter")),
        "arrproc_alias": ("alias", lambda TF, TH, c, s: TF.call(c, "format_bp_array_processor_name", [ARR, s.alias], CF, "CFormatter")),
        "arrjson_alias": ("alias", lambda TF, TH, c, s: TF.call(c, "format_bp_array_json_formatter_name", [ARR, s.alias], CF, "CFormatter")),
        "msgproc": ("msg", lambda TF, TH, c, s: TF.call(c, "format_bp_message_processor_name", [s.msg], CF, "CFormatter")),
        "msgjson": ("msg", lambda TF, TH, c, s: TF.call(c, "format_bp_message_json_formatter_name", [s.msg], CF, "CFormatter")),
        "aliasproc": ("alias", lambda TF, TH, c, s: TF.call(c, "format_bp_alias_processor_name", [s.alias], CF, "CFormatter")),
        "aliasjson": ("alias", lambda TF, TH, c, s: TF.call(c, "format_bp_alias_json_formatter_name", [s.alias], CF, "CFormatter")),
        "initer": ("msg", lambda TF, TH, c, s: TF.call(c, "format_bp_message_field_descriptor_initer", [s.msg], CF, "CFormatter")),
        "encode_fn": ("msg", blk("BlockMessageEncoderBase")),
        "decode_fn": ("msg", blk("BlockMessageDecoderBase")),
        "json_fn": ("msg", blk("BlockMessageJsonFormatterBase")),
        # user-level identifiers of the ordinary C name space
        "alias_typedef": ("alias", lambda TF, TH, c, s: s.name("alias")),
        "enum_typedef": ("enum", lambda TF, TH, c, s: s.name("enum")),
        # (constant / enum-member macros are upper-cased by the C formatter: character-inspecting, outside)
    }
    return T


def schema_for(kinds: List[Tuple[str, str, str, str]]) -> str:
    """kinds: (source kind, enclosing message name or '', name, field number)"""
    L = ["proto clash"]
    tops: Dict[str, Dict[str, Any]] = {}
    seen = set()
    for kind, scope, name, num in kinds:
        if kind in ("msg", "field"):
            if scope:
                t = tops.setdefault(scope, {"num": None, "nested": {}})
                t["nested"].setdefault(name, num or 1)
            else:
                t = tops.setdefault(name, {"num": None, "nested": {}})
                t["num"] = t["num"] or num or 1
            continue
        if (kind, name) in seen:
            continue
        seen.add((kind, name))
        if kind == "alias":
            L.append(f"type {name} = byte[2]")
        elif kind == "enum":
            L.append(f"enum {name} : uint3 {{\n    Z_{name.upper()} = 0\n}}")
        elif kind == "const":
            L.append(f"const {name} = 1")
    for name, t in tops.items():
        body = [f"    message {n} {{\n        byte[2] f = {num}\n    }}" for n, num in t["nested"].items()]
        if t["num"] is not None:
            body.append(f"    byte[2] f = {t['num']}")
        L.append(f"message {name} {{\n" + "\n".join(body) + "\n}")
    return "\n".join(L) + "\n"


def work_pair(job: Tuple[str, str]) -> Dict[str, Any]:
    ti, tj = job
    res = _res(f"pair:{ti}~{tj}")
    try:
        TF = Translator([os.path.join(RD, "impls/c/formatter.py"), os.path.join(RD, "formatter.py")])
        TH = Translator([os.path.join(RD, "impls/c/renderer_h.py"), os.path.join(RD, "impls/c/formatter.py"), os.path.join(RD, "formatter.py")])
        T = templates()
        ctx = Ctx(maxlen=8)
        A, B = Side(ctx, "A"), Side(ctx, "B")
        ka, fa = T[ti]
        kb, fb = T[tj]
        ta, tb = fa(TF, TH, ctx, A), fb(TF, TH, ctx, B)
    except Inconclusive as e:
        res["inconclusive"].append(f"{res['case']}: {type(e).__name__}: {e}")
        return res
    s = z3.Solver()
    s.set("timeout", 60000)
    s.add(*ctx.cons)
    s.add(ta == tb)
    names = {("A", k): A.name(k) for k in ("msg", "alias", "enum", "const")}
    names.update({("B", k): B.name(k) for k in ("msg", "alias", "enum", "const")})
    # precondition of the property: the formatted names of DISTINCT definitions are distinct strings
    used = [("A", ka if ka != "field" else "msg"), ("B", kb if kb != "field" else "msg")]
    if ti == tj:
        if ka == "field":
            s.add(z3.Or(names[used[0]] != names[used[1]], A.num != B.num))  # another field (maybe of the same message)
        else:
            s.add(names[used[0]] != names[used[1]])
    else:
        if not (ka in ("field", "msg") and kb in ("field", "msg")):
            s.add(names[used[0]] != names[used[1]])
        # a field template and a message template may talk about the same message; otherwise two definitions
    t0 = time.time()
    r = str(s.check())
    res["queries"] += 1
    res["obligations"] += 1
    res["paths"] += 1
    res["solver_s"] += time.time() - t0
    res[r] = res.get(r, 0) + 1
    if r == "unknown":
        res["inconclusive"].append(f"{res['case']}: z3 unknown")
        return res
    if r == "unsat":
        res["samples"].append({"pair": f"{ti}~{tj}", "template_a": str(ta), "template_b": str(tb), "verdict": "unsat: no two distinct sources give the same C identifier"})
        return res
    # which mechanism?  The known collisions D9 need a name that ends in digits next to a field number; ask again with
    # every name ending in a letter: a collision that survives has another cause and gets another cause key
    m = s.model()
    suffix = ""
    LETTER_END = z3.Concat(z3.Star(z3.Union(z3.Range("a", "z"), z3.Range("A", "Z"), z3.Range("0", "9"))), z3.Union(z3.Range("a", "z"), z3.Range("A", "Z")))
    s.push()
    small = tier() == "quick"  # the sequence solver needs ~1 min for the full-length unsat answers of the field~field pairs
    for side in (A, B):
        s.add(z3.InRe(side.raw, LETTER_END))
        if small:
            s.add(z3.Length(side.raw) <= 4, z3.Length(side.scope) <= 2)
        for k in ("alias", "enum"):
            s.add(z3.InRe(side.name(k), LETTER_END))

    t0 = time.time()
    r2 = str(s.check())
    res["queries"] += 1
    res["solver_s"] += time.time() - t0
    if r2 == "sat":
        m = s.model()
        suffix = ":letters"
    s.pop()
    val = lambda x: m.eval(x, model_completion=True).as_string()
    def entry(side: Side, kind: str, key: Tuple[str, str]) -> Tuple[str, str, str, str]:
        if kind in ("msg", "field"):
            return (kind, val(side.scope), val(side.raw), val(side.num))
        return (kind, "", val(names[key]), val(side.num))

    kinds = [entry(A, ka, used[0]), entry(B, kb, used[1])]
    ident = val(ta)
    text = schema_for(kinds)
    with Scratch() as sc:
        write_files({"clash.bitproto": text}, sc.dir)
        out = sc.path("out")
        rc = compile_cli(sc.dir, "clash.bitproto", "c", out, ["-q"])
        if rc.returncode != 0:
            res["inconclusive"].append(f"{res['case']}: model schema rejected by the compiler: {rc.stderr[-200:]}")
            return res
        g = run(["gcc", "-fsyntax-only", "-I", out, "-I", os.path.join(REPO, "lib", "c"), os.path.join(out, "clash_bp.c")], timeout=120)
        errs = [l for l in g.stderr.split("\n") if "error" in l]
        if g.returncode == 0 or not errs:
            res["inconclusive"].append(f"{res['case']}: model {kinds} gives identifier {ident!r} twice, but gcc accepts the generated C")
            return res
    res["violations"].append({"what": f"two generated C declarations share the name {ident!r}: {ti} of {kinds[0]} and {tj} of {kinds[1]}; gcc: {errs[0].split('error:')[-1].strip()[:120]}",
                              "payload": {"kind": "schema", "files": {"clash.bitproto": text}, "main": "clash.bitproto", "identifier": ident, "templates": [ti, tj]}, "confirmed": True,
                              "info": {"kind": "name-clash", "key": "pair:" + "~".join(sorted([ti, tj])) + suffix}})
    return res


def work_import(lang: str) -> Dict[str, Any]:
    """import target == generated file name, for free proto name and file stem"""
    res = _res(f"import-target:{lang}")
    try:
        files = {"c": ["impls/c/formatter.py", "formatter.py"], "py": ["impls/py/formatter.py", "formatter.py"]}[lang]
        TF = Translator([os.path.join(RD, f) for f in files])
        ctx = Ctx(maxlen=8)
        fm = Abs({"c": "CFormatter", "py": "PyFormatter"}[lang])
        pname = z3.String("proto_name")
        ctx.cons += [z3.InRe(pname, z3.Concat(z3.Range("a", "z"), z3.Star(z3.Union(z3.Range("a", "z"), z3.Range("0", "9"))))), z3.Length(pname) <= 8]
        fp = ("truthy", z3.StringVal("<filepath>"), object())
        proto = Abs("Proto", name=pname, filepath=fp, get_option_as_string_or_raise=lambda opt: "")
        asn = z3.String("as_name")
        ctx.cons += [z3.InRe(asn, z3.Concat(z3.Range("a", "z"), z3.Star(z3.Range("a", "z")))), z3.Length(asn) <= 4]
        stmt = TF.call(ctx, "format_import_statement", [proto, ("truthy", asn)], fm, fm.cls)
        ext = {"c": ".h", "py": ".py"}[lang]
        outfn = TF.call(ctx, "format_out_filename", [proto, z3.StringVal(ext)], fm, fm.cls)
    except Inconclusive as e:
        res["inconclusive"].append(f"{res['case']}: {type(e).__name__}: {e}")
        return res
    if lang == "c":
        want = z3.Concat(z3.StringVal('#include "'), outfn, z3.StringVal('"'))
    else:
        want = z3.Concat(z3.StringVal("import "), z3.SubString(outfn, 0, z3.Length(outfn) - 3), z3.StringVal(" as "), asn)
    s = z3.Solver()
    s.set("timeout", 60000)
    s.add(*ctx.cons)
    s.add(stmt != want)
    t0 = time.time()
    r = str(s.check())
    res["queries"] += 1
    res["obligations"] += 1
    res["paths"] += 1
    res["solver_s"] += time.time() - t0
    res[r] = res.get(r, 0) + 1
    if r == "unsat":
        res["samples"].append({"import_statement": str(stmt), "out_filename": str(outfn), "verdict": "unsat: the import statement names the generated file for every proto name and file stem"})
        return res
    if r == "unknown":
        res["inconclusive"].append(f"{res['case']}: z3 unknown")
        return res
    m = s.model()
    stem_vars = [v for k, v in ctx.opaque.items() if isinstance(k, tuple) and k[0] == "stem"]
    pn = m.eval(pname, model_completion=True).as_string()
    stem = m.eval(stem_vars[0], model_completion=True).as_string() if stem_vars else pn + "x"
    if stem == pn:
        stem = pn + "file"
    files2 = {f"{stem}.bitproto": f"proto {pn}\nenum K : uint3 {{\n    K0 = 0\n}}\n", "main.bitproto": f'proto main\nimport "{stem}.bitproto"\nmessage M {{\n    {pn}.K k = 1\n}}\n'}
    bad = None
    with Scratch() as sc:
        write_files(files2, sc.dir)
        out = sc.path("out")
        for fn in files2:
            rc = compile_cli(sc.dir, fn, lang, out, ["-q"])
            if rc.returncode != 0:
                res["inconclusive"].append(f"{res['case']}: model schema rejected: {rc.stderr[-200:]}")
                return res
        if lang == "c":
            g = run(["gcc", "-fsyntax-only", "-I", out, "-I", os.path.join(REPO, "lib", "c"), os.path.join(out, "main_bp.c")], timeout=120)
            if g.returncode != 0:
                bad = [l for l in g.stderr.split("\n") if "error" in l][:1]
        else:
            g = run(["/venv/bin/python", "-c", "import main_bp; main_bp.M().encode()"], timeout=60, env={"PYTHONPATH": out + ":" + os.path.join(REPO, "lib", "py")})
            if g.returncode != 0:
                bad = g.stderr.strip().split("\n")[-1:]
    if not bad:
        res["inconclusive"].append(f"{res['case']}: model (proto {pn!r} in file {stem!r}) did not fail natively")
        return res
    res["violations"].append({"what": f"{lang}: importing file refers to {m.eval(stmt, model_completion=True).as_string()!r} but the compiler generates {m.eval(outfn, model_completion=True).as_string()!r} (proto {pn!r} in file {stem}.bitproto): {bad[0][:140]}",
                              "payload": {"kind": "schema", "files": files2, "main": "main.bitproto", "lang": lang}, "confirmed": True, "info": {"kind": "import-target", "key": f"import-target:{lang}"}})
    return res


def work_nesting(n: int) -> Dict[str, Any]:
    """(3a) the REAL BlockComposition.render / BlockWrapper under E1: n child blocks whose kinds (plain, deferable, a
    nested composition holding a deferable and a plain block) are symbolic; the rendered lines, read as brackets,
    must be well nested: every deferable's closing part comes after everything rendered later and closers come in
    reverse order of their openers (what keeps `#endif` of the include guard last and `}` of extern "C" inside)."""
    from .. import pysym
    from ..pysym import ENGINE
    from ..zc import zc

    res = _res(f"defer-nesting:n={n}")
    try:
        z = zc()
        B = z.mod("bitproto.renderer.block")
        F = z.mod("bitproto.renderer.formatter")

        class Plain(B.Block):  # type: ignore
            def __init__(self, tag: str):
                super().__init__()
                self.tag = tag

            def render(self) -> None:
                self.push("L" + self.tag)

        class Deferable(B.BlockDeferable):  # type: ignore
            def __init__(self, tag: str):
                super().__init__()
                self.tag = tag

            def render(self) -> None:
                self.push("O" + self.tag)

            def defer(self) -> None:
                self.push("C" + self.tag)

        class Comp(B.BlockComposition):  # type: ignore
            def __init__(self, children: List[Any]):
                super().__init__()
                self.children = children

            def blocks(self) -> List[Any]:
                return self.children

            def separator(self) -> str:
                return "\n"

        zk = [z3.Int(f"kind{i}") for i in range(n)]
        kinds = [pysym.ZInt(v) for v in zk]

        def body() -> Tuple[List[int], str]:
            ks = []
            children: List[Any] = []
            for v in zk:
                ENGINE.assume(z3.And(v >= 0, v <= 2))
            for i, k in enumerate(kinds):
                if k == 0:
                    ks.append(0)
                    children.append(Plain(str(i)))
                elif k == 1:
                    ks.append(1)
                    children.append(Deferable(str(i)))
                else:
                    ks.append(2)
                    children.append(Comp([Deferable(f"{i}a"), Plain(f"{i}b")]))
            top = Comp(children)
            ctx = B.BlockRenderContext(formatter=None, bound=None)  # nothing here formats
            top._render_with_ctx(ctx)
            return ks, str(top)

        for path in ENGINE.explore(body):
            res["paths"] += 1
            res["obligations"] += 1
            if path.exc is not None:
                raise Inconclusive(f"defer-nesting harness: {type(path.exc).__name__}: {path.exc}")
            ks, text = path.value
            lines = [l for l in text.split("\n") if l]
            stack: List[str] = []
            ok = True
            for l in lines:
                if l[0] == "O":
                    stack.append(l[1:])
                elif l[0] == "C":
                    ok = ok and bool(stack) and stack.pop() == l[1:]
            ok = ok and not stack and sum(1 for l in lines if l[0] == "O") == sum(1 for k in ks if k) and sum(1 for l in lines if l[0] == "L") == sum(1 for k in ks if k != 1)
            if not ok:
                res["violations"].append({"what": f"block composition with child kinds {ks} (0 plain, 1 deferable, 2 nested composition) renders {lines}: deferred closers are not nested inside out, so in a C header `#endif` of the include guard is not last / `}}` of extern \"C\" falls outside it (a second inclusion from C++ then fails)",
                                          "payload": {"kind": "defer-nesting", "kinds": ks}, "confirmed": True, "info": {"kind": "defer-nesting", "key": "defer-nesting"}})
            elif len(res["samples"]) < 2:
                res["samples"].append({"kinds": ks, "lines": lines})
        for k in ("queries", "unsat", "sat", "unknown"):
            res[k] += ENGINE.stats.get(k, 0)
        res["solver_s"] += ENGINE.stats.get("solver_s", 0.0)
    except Inconclusive as e:
        res["inconclusive"].append(f"{res['case']}: {type(e).__name__}: {e}")
    return res


def work_cxx(job: Tuple[Any, bool]) -> Dict[str, Any]:
    """(3b) supporting concrete observation (no symbolic variable: the clause quantifies over schemas only): the header
    of each family schema, included twice from a C++ unit, is accepted by clang++ and gives every struct the same
    sizeof / offsetof as in C; the last preprocessor line of the header closes the include guard."""
    from ..crt import CBuild
    from ..compile import CompileError

    case, opt = job
    res = _res(f"cxx:{case.name}{':-O' if opt else ''}")
    with Scratch() as sc:
        try:
            b = CBuild(case, sc.dir, optimize=opt)
            res["messages"] = len(case.messages)
            depth = 0
            closed_at = None
            hl = b.header.split("\n")
            for i, l in enumerate(hl):
                t = l.strip()
                if re.match(r"#\s*if", t):
                    depth += 1
                elif re.match(r"#\s*endif", t):
                    depth -= 1
                    if depth == 0 and closed_at is None:
                        closed_at = i
            rest = [l for l in hl[(closed_at if closed_at is not None else len(hl)) + 1:] if l.strip() and not l.strip().startswith(("//", "/*", "*"))]  # comments may follow
            res["obligations"] += 1
            if closed_at is None or rest:
                res["violations"].append({"what": f"{res['case']}: the include guard of {b.main}_bp.h is closed before the end of the file; after it come {rest[:3]}", "payload": {"kind": "schema", "files": case.proto.files(), "main": case.proto.fname(), "lang": "c"},
                                          "confirmed": True, "info": {"kind": "cxx", "key": "cxx-guard-not-last"}})
            # the generated sources compile as C (declared before use, no duplicate definitions); with -O also for a -F subset
            from ..common import REPO as _REPO

            builds = [("", b)]
            if opt and case.top():
                builds.append((" -F " + case.top()[0].name, CBuild(case, sc.dir, optimize=True, flt=[case.top()[0].name], tag="_F")))
            for tag, bb in builds:
                res["obligations"] += 1
                g = run(["gcc", "-fsyntax-only", "-std=c99", "-Werror=implicit-function-declaration", "-I", bb.gen, "-I", os.path.join(_REPO, "lib", "c")] + bb.cfiles(), timeout=120)
                if g.returncode != 0:
                    err = next((l for l in g.stderr.split("\n") if "error" in l), g.stderr[-200:])
                    res["violations"].append({"what": f"{res['case']}{tag}: gcc rejects the generated C: {err.strip()[:220]}", "payload": {"kind": "schema", "files": case.proto.files(), "main": case.proto.fname(), "lang": "c", "optimize": opt},
                                              "confirmed": True, "info": {"kind": "cxx", "key": "c-rejected"}})
                    return res
            from ..schema import Const as _SConst

            sconsts = [d for d in case.proto.defs if isinstance(d, _SConst) and isinstance(d.value, str)]
            if sconsts and not opt:
                # a macro is only diagnosed where it is used: a unit that uses every string constant, as C and as C++
                tu = sc.path("bpv_strings.c")
                open(tu, "w").write(f'#include "{b.main}_bp.h"\n' + "".join(f"const char *bpv_s{i} = {getattr(b, 'name_prefix', '').upper()}{d.name};\n" for i, d in enumerate(sconsts)))
                for lang_flags, who in ((["-std=c99"], "gcc"), (["-x", "c++"], "g++")):
                    res["obligations"] += 1
                    g = run(["gcc", "-fsyntax-only"] + lang_flags + ["-I", b.gen, "-I", os.path.join(_REPO, "lib", "c"), tu], timeout=120)
                    if g.returncode != 0:
                        err = next((l for l in g.stderr.split("\n") if "error" in l), g.stderr[-200:])
                        res["violations"].append({"what": f"{res['case']}: {who} rejects a unit that uses the generated string constants: {err.strip()[:220]}", "payload": {"kind": "schema", "files": case.proto.files(), "main": case.proto.fname(), "lang": "c"},
                                                  "confirmed": True, "info": {"kind": "cxx", "key": "c-rejected"}})
                        return res
            kc = b.layout_consts(case.messages, cxx=False)
            try:
                kx = b.layout_consts(case.messages, cxx=True)
            except CompileError as e:
                res["violations"].append({"what": f"{res['case']}: C accepts the generated header, C++ (header included twice) does not: {str(e)[-300:]}", "payload": {"kind": "schema", "files": case.proto.files(), "main": case.proto.fname(), "lang": "c"},
                                          "confirmed": True, "info": {"kind": "cxx", "key": "cxx-rejects-header"}})
                return res
            res["obligations"] += len(kc)
            res["leaves"] += sum(1 for k in kc if k.startswith("bpv_off"))
            diff = sorted(k for k in kc if kc[k] != kx.get(k))
            if diff:
                # cause: a struct without members has sizeof 0 in GNU C and 1 in C++ (D12); every other difference follows from it or is new
                empty = {mi for mi, (m, _) in enumerate(case.messages) if kc.get(f"bpv_sizeof_{mi}") == 0}
                direct = all(k.startswith("bpv_sizeof_") and int(k.rsplit("_", 1)[1]) in empty for k in diff)
                has_empty = any(v == 0 and k.startswith(("bpv_sizeof_", "bpv_sz_")) for k, v in kc.items())
                key = "cxx-layout:empty-struct" if (direct or has_empty) else "cxx-layout:other"
                res["violations"].append({"what": f"{res['case']}: struct layout differs between C and C++: " + ", ".join(f"{k} C={kc[k]} C++={kx.get(k)}" for k in diff[:4]),
                                          "payload": {"kind": "schema", "files": case.proto.files(), "main": case.proto.fname(), "lang": "c"}, "confirmed": True, "info": {"kind": "cxx", "key": key}})
            elif len(res["samples"]) < 1:
                res["samples"].append({"case": res["case"], "layout_constants_equal": len(kc)})
        except (CompileError, Inconclusive) as e:
            res["inconclusive"].append(f"{res['case']}: {type(e).__name__}: {str(e)[-300:]}")
    return res


PY_PROBE = r'''
import sys, importlib, dataclasses, json
mod = importlib.import_module(sys.argv[1])
from bitprotolib import bp
out = {"classes": 0}
for name in sorted(dir(mod)):
    cls = getattr(mod, name)
    if isinstance(cls, type) and issubclass(cls, bp.MessageBase) and cls is not bp.MessageBase and cls.__module__ == mod.__name__:
        m = cls()
        m.bp_processor()
        s = m.encode()
        cls().decode(s)
        out["classes"] += 1
print(json.dumps(out))
'''


def work_pyimport(case: Any) -> Dict[str, Any]:
    """(3c) supporting concrete observation: the Python generated for each family schema (and its imports) imports in
    CPython, and every message class of the main module can be instantiated with defaults, builds its processor and
    encodes / decodes once (names that are only looked up lazily are reached)."""
    from ..common import VENV_PY
    from ..compile import CompileError, compile_inproc

    res = _res(f"py-import:{case.name}")
    with Scratch() as sc:
        src, gen = sc.path("src"), sc.path("gen")
        os.makedirs(src)
        files = case.proto.files(getattr(case, "style", None))
        write_files(files, src)
        try:
            for fn in files:
                compile_inproc(src, fn, "py", gen)
        except CompileError as e:
            res["inconclusive"].append(f"{res['case']}: {e}")
            return res
        modname = case.proto.stem() + "_bp"
        opt = next((v.strip('"') for k, v in getattr(case.proto, "options", []) if k == "py.module_name"), None)
        g = run([VENV_PY, "-c", PY_PROBE, modname], timeout=120, env={"PYTHONPATH": gen + ":" + os.path.join(REPO, "lib", "py")})
        res["obligations"] += 1
        res["messages"] = len(case.messages)
        if g.returncode != 0:
            last = (g.stderr.strip().split("\n") or [""])[-1]
            frames = [l.strip() for l in g.stderr.split("\n") if l.strip().startswith("File ")]
            where = frames[-1] if frames else ""
            nested_import = "is not defined" in last and any(im for im in case.proto.imports)
            res["violations"].append({"what": f"{res['case']}: the generated Python does not import / instantiate / encode with defaults: {last[:160]} ({where[-120:]})",
                                      "payload": {"kind": "schema", "files": files, "main": case.proto.fname(), "lang": "py"}, "confirmed": True,
                                      "info": {"kind": "py-import", "exc": last.split(":")[0], "key": "py-import:" + last.split(":")[0] + (":imported-name" if nested_import else "")}})
        elif len(res["samples"]) < 1:
            res["samples"].append({"case": res["case"], "probe": g.stdout.strip()})
    return res


def work_gostatic(job: Tuple[Any, bool]) -> Dict[str, Any]:
    """(3d) supporting concrete observation, the statically checkable Go clause: every Go file generated for a family
    schema parses (E3's Go subset), has balanced brackets, uses every import, and mentions no identifier that is neither
    declared in the file, predeclared, nor qualified by an import (vlib/gostatic.py; there is no Go toolchain here)."""
    from .. import gostatic
    from ..compile import CompileError, compile_inproc

    case, opt = job
    res = _res(f"go-static:{case.name}{':-O' if opt else ''}")
    with Scratch() as sc:
        src, gen = sc.path("src"), sc.path("gen")
        os.makedirs(src)
        files = case.proto.files(getattr(case, "style", None))
        write_files(files, src)
        try:
            for fn in files:
                compile_inproc(src, fn, "go", gen, optimize=opt)
        except CompileError as e:
            res["inconclusive"].append(f"{res['case']}: {e}")
            return res
        for root, _d, fs in os.walk(gen):
            for f in sorted(fs):
                if not f.endswith(".go"):
                    continue
                res["obligations"] += 1
                try:
                    problems = gostatic.check(open(os.path.join(root, f)).read())
                except Inconclusive as e:
                    res["inconclusive"].append(f"{res['case']}: {f}: {e}")
                    continue
                if problems:
                    kind = "unused-import" if all("is not used" in p for p in problems) else ("undeclared" if any("declared nowhere" in p for p in problems) else "syntax")
                    res["violations"].append({"what": f"{res['case']}: {f} is not well-formed Go: {'; '.join(problems[:3])}", "payload": {"kind": "schema", "files": files, "main": case.proto.fname(), "lang": "go", "optimize": opt},
                                              "confirmed": True, "info": {"kind": "go-static", "key": "go-static:" + kind}})
                elif len(res["samples"]) < 1:
                    res["samples"].append({"case": res["case"], "file": f, "verdict": "parses, balanced, imports used, identifiers resolved"})
    return res


def main() -> int:
    from .agg import run_parts
    from ..families import f_shape_core, is_extensible_case

    from ..families import f_naming

    fam = [c for c in f_shape_core() if "noc" not in c.tags] + f_naming()
    cxx_jobs = [(c, False) for c in fam] + [(c, True) for c in fam if not is_extensible_case(c)]

    T = list(templates())
    pairs = [(T[i], T[j]) for i in range(len(T)) for j in range(i, len(T))]
    parts = [("c-name-templates", work_pair, pairs), ("import-target", work_import, ["c", "py"]), ("defer-nesting", work_nesting, [1, 2, 3, 4] + ([5] if tier() == "thorough" else [])), ("cxx-header", work_cxx, cxx_jobs), ("py-import", work_pyimport, f_shape_core() + f_naming()), ("go-static", work_gostatic, [(x, False) for x in f_shape_core() + f_naming()] + [(x, True) for x in f_shape_core() + f_naming() if not is_extensible_case(x)])]
    meta = {
        "functions_encoded": FILES,
        "templates": T,
        "bounds": f"{len(T)} C name templates (array / message / alias processors and JSON formatters, field-descriptor initialiser, Encode/Decode/Json, user-level typedef names), all {len(pairs)} pairs incl. each template with itself; identifiers PascalCase-looking, <= 8 characters (a message's generated name = enclosing message name (<= 4) + declared name); field numbers 1..255; every sat pair is asked again with all names ending in a letter (quick: declared message names <= 4, scopes <= 2) to separate the digit-boundary mechanism of D9 from any other cause; import target: proto name and file stem free (<= 8 chars), C and Python",
        "outside_claim": "everything else in the property: that the output compiles as C / includes from C++ with equal layout / imports in Python / is statically well-formed Go, declaration order, -F, reserved words; BYTES_LENGTH_* macro names (upper/snake case conversion inspects characters); Go import paths (packages, not files). Those clauses are value-independent observations of single artefacts; they are exercised incidentally (every C0x run needs clang / CPython / the Go interpreter to accept the generated code; a rejection there is exit 2 with the diagnostic).",
        "explanation": "the ast of the current formatter methods is translated to z3 sequence terms; query t1(args1) == t2(args2) with distinct sources (precondition: formatted names of distinct definitions are distinct); sat models are compiled with the real compiler and confirmed by gcc / CPython",
        "evaluations": len(pairs) + 2,
        "distinct_nontrivial": len(pairs) + 2,
        "rule": "one evaluation = one template pair (or one import-target query)",
    }
    return run_parts(PROP, "other", parts, meta, ["z3's sequence theory decides the queries or reports unknown (= inconclusive)", "case-converting name formatters are identity on PascalCase-looking identifiers (used only to realise models as schemas; confirmed by gcc)"])


def replay(path: str) -> int:
    import json

    from .. import gostatic
    from ..common import VENV_PY

    p = json.load(open(path))
    if p.get("kind") == "defer-nesting":
        r = work_nesting(len(p["kinds"]))
        bad = [v for v in r["violations"] if v["payload"]["kinds"] == p["kinds"]]
        print(bad[0]["what"] if bad else "passes: holds on this input now")
        return 1 if bad else 0
    lang = p.get("lang", "c")
    with Scratch() as sc:
        write_files(p["files"], sc.dir)
        flags = ["-q"] + (["-O"] if p.get("optimize") else [])
        for fn in p["files"]:
            r = compile_cli(sc.dir, fn, lang, sc.path("out"), flags)
            if r.returncode:
                print(f"the compiler rejects {fn}: {r.stderr[-300:]}")
                return 1
        main = p["main"].replace(".bitproto", "")
        if lang == "c":
            g = run(["gcc", "-fsyntax-only", "-I", sc.path("out"), "-I", os.path.join(REPO, "lib", "c"), os.path.join(sc.path("out"), main + "_bp.c")])
            if g.returncode == 0:
                # the header from C++, included twice
                open(sc.path("t.cc"), "w").write(f'#include "{main}_bp.h"\n#include "{main}_bp.h"\n')
                g = run(["clang", "-x", "c++", "-fsyntax-only", "-I", sc.path("out"), "-I", os.path.join(REPO, "lib", "c"), sc.path("t.cc")])
            print(g.stderr[-600:] or "passes: gcc and clang++ accept the generated C")
            return 1 if g.returncode else 0
        if lang == "py":
            g = run([VENV_PY, "-c", PY_PROBE, main + "_bp"], timeout=120, env={"PYTHONPATH": sc.path("out") + ":" + os.path.join(REPO, "lib", "py")})
            print(g.stderr[-600:] or "passes: imports, instantiates, encodes")
            return 1 if g.returncode else 0
        if lang == "go":
            bad = []
            for root, _d, fs in os.walk(sc.path("out")):
                for f in fs:
                    if f.endswith(".go"):
                        bad += [f"{f}: {x}" for x in gostatic.check(open(os.path.join(root, f)).read())]
            print("\n".join(bad[:6]) or "passes: well-formed Go")
            return 1 if bad else 0
    return 1
