"""C13 Constants evaluate arithmetically and reach every target language intact (E1/Z through
the real lexer, parser and renderers; strings through CrossHair)."""
from __future__ import annotations

import contextlib
import io
import itertools
import os
import re
import time
from typing import Any, Dict, List, Optional, Tuple

import z3

from .. import pysym
from ..common import REPO, Evidence, Inconclusive, Report, Scratch, pmap, repo_files, run, seed, tier
from ..pysym import Engine, ZInt
from .agg import aggregate

PROP = "C13"
FILES = ["compiler/bitproto/parser.py", "compiler/bitproto/lexer.py", "compiler/bitproto/grammars.py", "compiler/bitproto/renderer/formatter.py", "compiler/bitproto/renderer/block.py",
         "compiler/bitproto/renderer/impls/c/formatter.py", "compiler/bitproto/renderer/impls/go/formatter.py", "compiler/bitproto/renderer/impls/py/formatter.py", "compiler/bitproto/renderer/impls/c/renderer_h.py"]
OPS = "+-*/"
LIB = "proto lib\nconst C0 = 3\nconst C1 = 7\nconst C2 = 0x10\nconst C3 = 2\n"
LIBV = {"lib.C0": 3, "lib.C1": 7, "lib.C2": 16, "lib.C3": 2}


# ---- shapes: trees over k+1 leaves
def trees(n: int) -> List[Any]:
    """all binary tree shapes with n leaves; leaf = None, node = (l, r)"""
    if n == 1:
        return [None]
    out = []
    for i in range(1, n):
        for l in trees(i):
            for r in trees(n - i):
                out.append((l, r))
    return out


def tree_text(t: Any, leaves: List[str], ops: List[str], top: bool = True) -> str:
    """fully parenthesised text of a tree; consumes leaves and ops left to right"""
    if t is None:
        return leaves.pop(0)
    l = tree_text(t[0], leaves, ops, False)
    op = ops.pop(0)
    r = tree_text(t[1], leaves, ops, False)
    s = f"{l} {op} {r}"
    return s if top else f"({s})"


def shapes(quick: bool) -> List[Tuple[str, str, int]]:
    """(shape id, expression text with operand placeholders @0..@k, k)"""
    out = []
    sid = 0
    for k in (1, 2, 3):
        for ops in itertools.product(OPS, repeat=k):
            flat = " ".join(x for i in range(k) for x in (f"@{i}", ops[i])) + f" @{k}"
            out.append((f"flat{sid}", flat, k))
            sid += 1
            for ti, tr in enumerate(trees(k + 1)):
                txt = tree_text(tr, [f"@{i}" for i in range(k + 1)], list(ops))
                out.append((f"tree{sid}_{ti}", txt, k))
                sid += 1
    if quick:
        # quick: all shapes with <= 2 operators, and every 3rd with 3 operators
        out = [s for i, s in enumerate(out) if s[2] <= 2 or i % 3 == 0]
    return out


# ---- independent evaluation: precedence climbing over the token list
TOK = re.compile(r"\s*(@\d+|\d+|0x[0-9a-fA-F]+|[A-Za-z_][\w.]*|[()+\-*/])")


class Ev:
    def __init__(self, text: str, env: Dict[str, Any]):
        self.toks = TOK.findall(text)
        self.i = 0
        self.env = env
        self.guards: List[Any] = []

    def peek(self) -> Optional[str]:
        return self.toks[self.i] if self.i < len(self.toks) else None

    def atom(self) -> Any:
        t = self.toks[self.i]
        self.i += 1
        if t == "(":
            v = self.expr(0)
            assert self.toks[self.i] == ")"
            self.i += 1
            return v
        return self.env[t]

    PREC = {"+": 1, "-": 1, "*": 2, "/": 2}

    def expr(self, minp: int) -> Any:
        lhs = self.atom()
        while self.peek() in self.PREC and self.PREC[self.peek()] >= minp:
            op = self.toks[self.i]
            self.i += 1
            rhs = self.expr(self.PREC[op] + 1)  # left associative
            if op == "+":
                lhs = lhs + rhs
            elif op == "-":
                lhs = lhs - rhs
            elif op == "*":
                lhs = lhs * rhs
            else:
                self.guards.append(z3.And(lhs >= 0, rhs > 0))  # where integer division is unambiguous
                lhs = lhs / rhs
        return lhs


def build(shape: Tuple[str, str, int], idx: int, with_message: bool) -> Tuple[str, Dict[str, Any], List[str], str]:
    """template text (holes), env for my evaluator (operand text -> z3 term), hole names, expr text"""
    sid, expr, k = shape
    pre: List[str] = []
    env: Dict[str, Any] = {}
    holes: List[str] = []
    body = expr
    use_import = False
    nmul = sum(expr.count(o) for o in "*/")
    for i in range(k + 1):
        kind = (idx + i) % 4
        hn = f"a{i}"
        if nmul >= 2 and i >= 2:
            # products of three or more symbolic operands make z3's integer arithmetic answer `unknown`:
            # with two or more multiplicative operators only the first two operands stay symbolic
            body = body.replace(f"@{i}", str(i + 1) if i % 2 else hex(i + 1))
            env[f"@{i}"] = z3.IntVal(i + 1)
            continue
        if kind == 0:
            rep = f"{{n:{hn}}}"
            key = f"@{i}"
            env[key] = z3.Int(hn)
            holes.append(hn)
        elif kind == 1:
            rep = f"{{x:{hn}}}"
            key = f"@{i}"
            env[key] = z3.Int(hn)
            holes.append(hn)
        elif kind == 2:
            pre.append(f"const K{i} = {{n:{hn}}}")
            rep = f"K{i}"
            key = f"@{i}"
            env[key] = z3.Int(hn)
            holes.append(hn)
        else:
            name = f"lib.C{i}"
            rep = name
            key = f"@{i}"
            env[key] = z3.IntVal(LIBV[name])
            use_import = True
        body = body.replace(f"@{i}", rep)
    text = "proto k\n" + ('import "lib.bitproto"\n' if use_import else "") + "\n".join(pre) + ("\n" if pre else "") + f"const N = {body}\n"
    if with_message:
        text += "message M {\n    option max_bytes = N\n    byte[N] x = 1\n}\n"
    return text, env, holes, expr


def work(job: Tuple[Tuple[str, str, int], int, bool]) -> Dict[str, Any]:
    from ..zc import Template, parse_text, plain_outcome, zc

    shape, idx, with_message = job
    res = {"case": shape[0], "messages": 1, "leaves": 0, "paths": 0, "queries": 0, "unsat": 0, "sat": 0, "unknown": 0, "solver_s": 0.0, "merges": 0, "witness": 0, "witness_agree": 0,
           "violations": [], "inconclusive": [], "samples": [], "obligations": 0, "div_by_zero_paths": 0, "emitted_literals": 0}
    z = zc()
    PE = z.errors.ParserError
    ttext, env, holes, expr = build(shape, idx, with_message)
    tm = Template(ttext)
    text, hpos = tm.render()
    zv = {n: z3.Int(n) for n in holes}
    syms = {n: ZInt(zv[n]) for n in holes}
    ev = Ev(expr, env)
    mine = ev.expr(0)
    G = z3.And(*ev.guards) if ev.guards else z3.BoolVal(True)
    RH = z.mod("bitproto.renderer.impls.c.renderer_h").RendererCHeader
    RG = z.mod("bitproto.renderer.impls.go.renderer").RendererGo
    RP = z.mod("bitproto.renderer.impls.py.renderer").RendererPy
    eng = Engine(max_paths=200, timeout_ms=20000)
    pysym.set_engine(eng)
    with Scratch() as sc:
        with open(sc.path("lib.bitproto"), "w") as f:
            f.write(LIB)
        main = sc.path("main.bitproto")
        with open(main, "w") as f:
            f.write(text)

        def h() -> Any:
            for n in holes:
                pysym.ENGINE.assume(zv[n] >= 0)
            proto = parse_text(text, hpos, syms, filepath=main)
            outs = {}
            for nm, R in (("c", RH), ("go", RG), ("py", RP)):
                outs[nm] = R(proto, outdir=sc.dir).render_string()
            return proto, outs

        try:
            for p in eng.explore(h):
                wm = p.witness()
                vals = {n: wm.eval(zv[n], model_completion=True).as_long() for n in holes}
                ctext = tm.concrete(vals)
                with open(main, "w") as f:
                    f.write(ctext)
                po, pe = plain_outcome(ctext, filepath=main)
                with open(main, "w") as f:
                    f.write(text)
                res["witness"] += 1
                sym_out = "ok" if p.exc is None else type(p.exc).__name__
                if po == sym_out or po == "!" + sym_out:
                    res["witness_agree"] += 1
                else:
                    res["inconclusive"].append(f"{shape[0]}: token-substitution validation mismatch: symbolic {sym_out}, native {po} for {vals}")
                if p.exc is not None:
                    if isinstance(p.exc, ZeroDivisionError):
                        res["div_by_zero_paths"] += 1  # C09's matter
                    elif not isinstance(p.exc, PE):
                        res["inconclusive"].append(f"{shape[0]}: {type(p.exc).__name__}: {p.exc}")
                    continue
                proto, outs = p.value
                N = proto.members["N"].value
                Nt = ZInt.lift(N)
                obl: List[Tuple[str, Any]] = [("value", z3.Implies(G, Nt == mine))]
                if with_message:
                    M = proto.members["M"]
                    obl.append(("capacity", ZInt.lift(M.members["x"].type.cap) == Nt))
                    obl.append(("option", ZInt.lift(M.members["max_bytes"].value) == Nt))
                pats = PATS
                for lang, pat in pats.items():
                    m = re.search(pat, outs[lang])
                    if not m:
                        res["violations"].append(_viol(shape, tm, vals, f"{lang}: constant N is not emitted", "emit"))
                        continue
                    lit = m.group(1)
                    res["emitted_literals"] += 1
                    if lit in p.sentinels:
                        obl.append((f"emit-{lang}", p.sentinels[lit] == Nt))
                    else:
                        try:
                            obl.append((f"emit-{lang}", z3.IntVal(int(lit, 0)) == Nt))
                        except ValueError:
                            res["violations"].append(_viol(shape, tm, vals, f"{lang}: emitted literal {lit!r} is not an integer literal", "emit"))
                # vacuity of the guarded claim
                if str(eng.check(G)) != "sat":
                    obl[0] = ("value-guard-unsatisfiable-on-path", z3.BoolVal(True))
                for what, phi in obl:
                    res["obligations"] += 1
                    r, model = p.holds(phi)
                    if r == "unknown":
                        res["inconclusive"].append(f"{shape[0]}: solver unknown on {what}")
                    elif r == "sat":
                        cv = {n: model.eval(zv[n], model_completion=True).as_long() for n in holes}
                        v = _confirm(shape, tm, cv, what, expr, env, zv, sc, main, with_message)
                        if v is None and eng.fpq_sites:
                            # the code divides through a double (model L_fpq): the first model may sit where the quotient is only
                            # over-approximated; ask again inside the region where the inexact result is modelled exactly
                            for (_n, _d, _r, tie) in eng.fpq_sites:
                                r2, m2 = p.holds(z3.Implies(tie, phi))
                                if r2 == "sat":
                                    cv = {n: m2.eval(zv[n], model_completion=True).as_long() for n in holes}
                                    v = _confirm(shape, tm, cv, what, expr, env, zv, sc, main, with_message)
                                    if v is not None:
                                        break
                        if v is None:
                            res["inconclusive"].append(f"{shape[0]}: solver model for {what} did not reproduce natively: {cv}")
                        else:
                            res["violations"].append(v)
                if len(res["samples"]) < 1:
                    res["samples"].append({"shape": shape[0], "template": ttext, "witness": vals, "value_term": str(z3.simplify(Nt))[:120], "obligations": [w for w, _ in obl]})
        except Inconclusive as e:
            res["inconclusive"].append(f"{shape[0]}: {type(e).__name__}: {e}")
    for k in ("paths", "queries", "unsat", "sat", "unknown", "merges"):
        res[k] += eng.stats.get(k, 0)
    res["solver_s"] += eng.stats.get("solver_s", 0.0)
    return res


# where the constant N is emitted; tolerant of spacing, an omitted type annotation, parentheses and C integer suffixes
PATS = {"c": r"(?m)#[ \t]*define[ \t]+N[ \t]+\(?(⟦S\d+⟧|[0-9a-fA-Fx]+)[uUlL]*\)?", "go": r"(?m)^[ \t]*(?:const[ \t]+)?N(?:[ \t]+\w+)?[ \t]*=[ \t]*\(?([^\s()]+)\)?", "py": r"(?m)^N(?:[ \t]*:[ \t]*\w+)?[ \t]*=[ \t]*\(?([^\s()]+)\)?"}


def _pyval(expr: str, env: Dict[str, Any], zv: Dict[str, Any], cv: Dict[str, int]) -> Optional[int]:
    """concrete evaluation by my evaluator (None if a guard fails)"""
    sub = [(zv[n], z3.IntVal(cv[n])) for n in cv]
    ev = Ev(expr, {k: z3.substitute(v, *sub) if sub and not z3.is_int_value(v) else v for k, v in env.items()})
    try:
        t = z3.simplify(ev.expr(0))
    except Exception:
        return None
    if ev.guards and not z3.is_true(z3.simplify(z3.And(*ev.guards))):
        return None
    return t.as_long() if z3.is_int_value(t) else None


def _confirm(shape: Any, tm: Any, cv: Dict[str, int], what: str, expr: str, env: Dict[str, Any], zv: Dict[str, Any], sc: Scratch, main: str, with_message: bool) -> Optional[Dict[str, Any]]:
    """native confirmation with the real CLI: compile to Python / C / Go and read the literals"""
    from ..compile import compile_cli

    ctext = tm.concrete(cv)
    with open(main, "w") as f:
        f.write(ctext)
    want = _pyval(expr, env, zv, cv)
    got: Dict[str, Any] = {}
    for lang, fn, pat in (("py", "main_bp.py", PATS["py"]), ("c", "main_bp.h", PATS["c"]), ("go", "main_bp.go", PATS["go"])):
        out = sc.path("out_" + lang)
        os.makedirs(out, exist_ok=True)
        r = compile_cli(sc.dir, "main.bitproto", lang, out, ["-q"])
        if r.returncode != 0:
            got[lang] = f"compile failed: {r.stderr[-200:]}"
            continue
        m = re.search(pat, open(os.path.join(out, fn)).read())
        got[lang] = m.group(1) if m else None
        if with_message and lang == "py":
            mm = re.search(r"bytearray\((\d+)\)", open(os.path.join(out, fn)).read())
            got["capacity"] = mm.group(1) if mm else None
    # a rejected schema (e.g. the value is used as a capacity and is 0) confirms nothing about the value
    bad = [k for k, v in got.items() if want is not None and str(v) != str(want) and not str(v).startswith("compile failed")]
    if not bad:
        return None
    return _viol(shape, tm, cv, f"{what}: expression `{expr}` should evaluate to {want}; compiler output has {got}", "value")


def _viol(shape: Any, tm: Any, vals: Dict[str, int], what: str, kind: str) -> Dict[str, Any]:
    files = {"lib.bitproto": LIB, "main.bitproto": tm.concrete(vals)}
    return {"what": f"{shape[0]} {vals}: {what}", "payload": {"kind": "schema", "files": files, "main": "main.bitproto", "values": vals, "what": what}, "confirmed": True, "info": {"kind": kind, "key": f"{kind}"}}


# ---- booleans and strings (value-independent / CrossHair)
BOOL_LIT = {"c": {True: "true", False: "false"}, "go": {True: "true", False: "false"}, "py": {True: "True", False: "False"}}


def work_bool(_: Any) -> Dict[str, Any]:
    from ..compile import compile_cli

    res = {"case": "booleans", "messages": 1, "paths": 0, "queries": 0, "unsat": 0, "sat": 0, "unknown": 0, "solver_s": 0.0, "witness": 0, "witness_agree": 0, "violations": [], "inconclusive": [], "samples": [], "obligations": 0}
    text = "proto b\nconst T1 = true\nconst T2 = yes\nconst F1 = false\nconst F2 = no\nconst ONE = 1\nconst ZERO = 0\nconst T3 = T1\n"
    want = {"T1": True, "T2": True, "F1": False, "F2": False, "T3": True, "ONE": 1, "ZERO": 0}
    with Scratch() as sc:
        with open(sc.path("main.bitproto"), "w") as f:
            f.write(text)
        for lang, fn, pat in (("py", "main_bp.py", r"(?m)^{n}: (?:bool|int) = (\S+)"), ("c", "main_bp.h", r"#define {n} (\S+)"), ("go", "main_bp.go", r"const {n} (?:bool|int) = (\S+)")):
            r = compile_cli(sc.dir, "main.bitproto", lang, sc.dir, ["-q"])
            if r.returncode != 0:
                res["inconclusive"].append(f"booleans: {lang} compile failed {r.stderr[-200:]}")
                continue
            src = open(sc.path(fn)).read()
            for n, v in want.items():
                res["obligations"] += 1
                m = re.search(pat.format(n=n), src)
                exp = BOOL_LIT[lang][v] if isinstance(v, bool) else str(v)
                if not m or m.group(1) != exp:
                    res["violations"].append({"what": f"booleans: {lang} emits {n} as {m.group(1) if m else None!r}, expected {exp!r}", "payload": {"kind": "schema", "files": {"main.bitproto": text}, "main": "main.bitproto"}, "confirmed": True, "info": {"kind": "emit-bool"}})
    res["paths"] = 1
    res["samples"].append({"booleans": text, "value_independent": True})
    return res


CH_HARNESS = r'''
"""CrossHair harness: string constant -> real lexer escape handling -> real format_str_value of
each language -> a reference decoder of that language's plain double-quoted literal."""
import sys
sys.path.insert(0, "@COMPILER@")
import importlib.util, os
_spec = importlib.util.spec_from_file_location("ply", "@PLY@/__init__.py", submodule_search_locations=["@PLY@"])
_m = importlib.util.module_from_spec(_spec); sys.modules["ply"] = _m; _spec.loader.exec_module(_m)
from bitproto.lexer import Lexer
from bitproto.errors import InvalidEscapingChar, LexerError
from bitproto.renderer.impls.c.formatter import CFormatter
from bitproto.renderer.impls.go.formatter import GoFormatter
from bitproto.renderer.impls.py.formatter import PyFormatter

_LX = Lexer()
_BS = chr(92)
_FM = {"c": CFormatter(), "go": GoFormatter(), "py": PyFormatter()}
_ESC = {"t": chr(9), "r": chr(13), "n": chr(10), _BS: _BS, "'": "'", '"': '"'}

class _Tok:
    pass

def lex_body(body: str) -> str:
    """the real t_STRING_LITERAL action on the token text '"' + body + '"' """
    t = _Tok(); t.value = '"' + body + '"'; t.lexer = _Tok(); t.lexer.lineno = 1
    return _LX.t_STRING_LITERAL(t).value

def ref_unescape(body: str) -> str:
    out = ""; i = 0
    while i < len(body):
        if body[i] == _BS:
            i += 1
            if i >= len(body) or body[i] not in _ESC:
                raise InvalidEscapingChar()
            out += _ESC[body[i]]
        else:
            out += body[i]
        i += 1
    return out

def decode_literal(lit: str) -> str:
    """reference decoder of a plain double-quoted literal with the escapes common to C, Go and
    Python: returns the denoted string, raises ValueError if the literal is malformed"""
    if len(lit) < 2 or lit[0] != '"' or lit[-1] != '"':
        raise ValueError("quotes")
    s = lit[1:-1]; out = ""; i = 0
    while i < len(s):
        c = s[i]
        if c == '"' or c == chr(10) or c == chr(13):
            raise ValueError("raw quote / line break inside literal")
        if c == _BS:
            i += 1
            if i >= len(s):
                raise ValueError("dangling backslash")
            e = s[i]
            if e == "n": out += chr(10)
            elif e == "t": out += chr(9)
            elif e == "r": out += chr(13)
            elif e == _BS: out += _BS
            elif e == '"': out += '"'
            elif e == "'": out += "'"
            else: raise ValueError("unknown escape")
        else:
            out += c
        i += 1
    return out

def token_admits(body: str) -> bool:
    """the token regex "([^\\\n]|(\\.))*?" admits body: no raw newline, every backslash
    followed by a character other than newline; no unescaped double quote (the match is lazy)"""
    i = 0
    while i < len(body):
        c = body[i]
        if c == chr(10) or c == '"':
            return False
        if c == _BS:
            i += 1
            if i >= len(body) or body[i] == chr(10):
                return False
        i += 1
    return True

def escape_loop_total(body: str) -> bool:
    """
    pre: len(body) <= @N_ESC@
    pre: token_admits(body)
    post: _
    """
    try:
        got = lex_body(body)
    except InvalidEscapingChar:
        try:
            ref_unescape(body)
        except InvalidEscapingChar:
            return True
        return False
    return got == ref_unescape(body)

def emit_roundtrip_c(value: str) -> bool:
    """
    pre: len(value) <= @N_EMIT@
    pre: all(32 <= ord(ch) < 127 or ch in (chr(9), chr(10), chr(13)) for ch in value)
    post: _
    """
    return decode_literal(_FM["c"].format_str_value(value)) == value

def emit_roundtrip_go(value: str) -> bool:
    """
    pre: len(value) <= @N_EMIT@
    pre: all(32 <= ord(ch) < 127 or ch in (chr(9), chr(10), chr(13)) for ch in value)
    post: _
    """
    return decode_literal(_FM["go"].format_str_value(value)) == value

def emit_roundtrip_py(value: str) -> bool:
    """
    pre: len(value) <= @N_EMIT@
    pre: all(32 <= ord(ch) < 127 or ch in (chr(9), chr(10), chr(13)) for ch in value)
    post: _
    """
    return decode_literal(_FM["py"].format_str_value(value)) == value

def t_error_total(rest: str) -> bool:
    """
    pre: 1 <= len(rest) <= @N_ESC@
    post: _
    """
    # the lexer's error hook gets the REST of the input; whatever that text is, the only thing it may do is raise LexerError
    t = _Tok(); t.value = rest; t.lineno = 1; t.lexpos = 0; t.lexer = _Tok(); t.lexer.lineno = 1
    try:
        _LX.t_error(t)
    except LexerError:
        return True
    return False

_DEC = "0123456789"

def int_literal_value(digits: str) -> bool:
    """
    pre: 1 <= len(digits) <= @N_LIT@
    pre: all(ch in _DEC for ch in digits)
    post: _
    """
    # the real t_INT_LITERAL action on any decimal digit string (leading zeros included): the token's value is the
    # number the digits denote in base ten
    t = _Tok(); t.value = digits; t.lexer = _Tok(); t.lexer.lineno = 1
    got = _LX.t_INT_LITERAL(t).value
    ref = 0
    for ch in digits:
        ref = ref * 10 + (ord(ch) - 48)
    return got == ref

def vacuity_twin(value: str) -> bool:
    """
    pre: len(value) <= 2
    post: _
    """
    return value != "a" + _BS   # must come back violated: the harness reaches its postconditions
'''


_BSL = chr(92)


def work_strings(_: Any) -> Dict[str, Any]:
    """E5: CrossHair on the real lexer escape loop and the real format_str_value of each language."""
    from ..common import PLY_DIR

    res = {"case": "strings", "messages": 1, "paths": 0, "queries": 0, "unsat": 0, "sat": 0, "unknown": 0, "solver_s": 0.0, "witness": 0, "witness_agree": 0, "violations": [], "inconclusive": [], "samples": [], "obligations": 0}
    q = tier() == "quick"
    n_esc, n_emit, tmo = (3, 3, 150) if q else (5, 4, 600)  # per-condition CPU budget; a confirmed condition returns at once (3-10 s when the machine is idle)
    src = CH_HARNESS.replace("@COMPILER@", os.path.join(REPO, "compiler")).replace("@PLY@", PLY_DIR).replace("@N_ESC@", str(n_esc)).replace("@N_EMIT@", str(n_emit)).replace("@N_LIT@", str(6 if q else 9))
    with Scratch() as sc:
        hp = sc.path("c13_strings_harness.py")
        with open(hp, "w") as f:
            f.write(src)
        fns = ["escape_loop_total", "emit_roundtrip_c", "emit_roundtrip_go", "emit_roundtrip_py", "t_error_total", "int_literal_value", "vacuity_twin"]
        lines = {fn: next(i + 2 for i, l in enumerate(src.split("\n")) if l.startswith(f"def {fn}(")) for fn in fns}
        procs = []
        import subprocess

        for fn in fns:
            cmd = ["/opt/veriftools/pyvenv/bin/crosshair", "check", "--report_all", "--per_condition_timeout", str(tmo), f"{hp}:{lines[fn]}"]
            procs.append((fn, subprocess.Popen(cmd, stdout=subprocess.PIPE, stderr=subprocess.STDOUT, text=True, cwd=sc.dir)))
        for fn, pr in procs:
            try:
                out, _ = pr.communicate(timeout=tmo * 3 + 60)
            except subprocess.TimeoutExpired:
                pr.kill()
                res["inconclusive"].append(f"strings: crosshair timed out on {fn}")
                continue
            res["obligations"] += 1
            res["paths"] += 1
            out = out.strip()
            if fn == "vacuity_twin":
                if "false when calling" not in out and "error:" not in out:
                    res["inconclusive"].append(f"strings: vacuity twin was not refuted: {out[-200:]}")
                else:
                    res["witness"] += 1
                    res["witness_agree"] += 1
                continue
            if "Confirmed over all paths" in out:
                res["unsat"] += 1
                res["samples"].append({"crosshair": fn, "bound": (6 if q else 9) if fn == "int_literal_value" else n_esc if fn.startswith("escape") else n_emit, "verdict": "Confirmed over all paths"})
            elif "false when calling" in out or "error:" in out:
                m = re.search(r"when calling (\w+)\((.*)\)", out)
                arg = m.group(2) if m else out[-200:]
                # replay natively
                rr = run(["/usr/local/bin/python3-vt", "-c", f"import sys; sys.path.insert(0, {sc.dir!r}); import c13_strings_harness as h; print(h.{fn}({arg}))"], timeout=60)
                if rr.returncode == 0 and rr.stdout.strip() == "True":
                    res["inconclusive"].append(f"strings: crosshair counterexample for {fn}({arg}) did not reproduce")
                else:
                    lang = fn.rsplit("_", 1)[-1]
                    what = "the lexer does not answer with a LexerError" if fn in ("t_error_total", "escape_loop_total") else f"the emitted {lang} literal does not denote the declared value"
                    if fn == "int_literal_value":
                        lang, what = "lexer", "the value of the integer token is not the number its decimal digits denote"
                    res["violations"].append({"what": f"strings: {fn}({arg}) fails: {what} ({(rr.stdout + rr.stderr).strip()[-160:]})",
                                              "payload": {"kind": "string", "function": fn, "arg": arg, "harness": src}, "confirmed": True, "info": {"kind": "emit-string", "key": f"emit-string-{lang}"}})
            else:
                # CrossHair gave no verdict (e.g. the code under test reached C code -- re, json -- and its input was realised).
                # A bounded native search over a small alphabet cannot PROVE anything, but a counterexample it finds is real.
                alpha = [_BSL, "n", "t", "r", '"', "'", "a", "?", "\n"] if fn.startswith("escape") else [_BSL, '"', "'", "a", "?", "\n", "\t", "\r", "%", " "]
                bound = 4 if fn.startswith("escape") else 3
                if fn == "int_literal_value":
                    alpha, bound = list("0123456789"), 4
                probe = ("import sys, itertools; sys.path.insert(0, %r); import c13_strings_harness as h\n"
                         "alpha = %r\n"
                         "for n in range(0, %d):\n"
                         "    for tup in itertools.product(alpha, repeat=n):\n"
                         "        s = ''.join(tup)\n"
                         "        if %s:\n"
                         "            continue\n"
                         "        try:\n"
                         "            ok = h.%s(s)\n"
                         "        except Exception as e:\n"
                         "            ok = False\n"
                         "        if not ok:\n"
                         "            print(repr(s)); sys.exit(0)\n"
                         "print('NONE')\n") % (sc.dir, alpha, bound + 1, "not h.token_admits(s)" if fn.startswith("escape") else ("not s" if fn == "int_literal_value" else "False"), fn)
                rr = run(["/usr/local/bin/python3-vt", "-c", probe], timeout=300)
                found = rr.stdout.strip().split("\n")[-1] if rr.returncode == 0 else "NONE"
                if found and found != "NONE":
                    lang = fn.rsplit("_", 1)[-1]
                    what = "the lexer's escape handling differs from the reference unescape" if fn.startswith("escape") else f"the emitted {lang} literal does not denote the declared value"
                    res["violations"].append({"what": f"strings: {fn}({found}) fails: {what} (found by a bounded native search after CrossHair gave no verdict: {out[-80:]})",
                                              "payload": {"kind": "string", "function": fn, "arg": found, "harness": src}, "confirmed": True, "info": {"kind": "emit-string", "key": f"emit-string-{fn}"}})
                else:
                    res["inconclusive"].append(f"strings: crosshair did not confirm {fn} within {tmo}s: {out[-200:]}")
    return res


def ref_token_end(s: List[Any]) -> Optional[int]:
    """reference: the string token that opens at s[0] ends right after the first later double quote that is not escaped;
    a backslash escapes the character after it; a raw line break (or the end of the text) before that means no token"""
    i = 1
    n = len(s)
    while i < n:
        c = s[i]
        if c == 10:
            return None
        if c == 34:
            return i + 1
        if c == 92:
            if i + 1 >= n or s[i + 1] == 10:
                return None
            i += 2
            continue
        i += 1
    return None


def native_token_end(text: str) -> Tuple[Optional[int], str]:
    """the real lexer on `text` (which opens with a double quote): end offset of its first token if that is a string
    literal (also when its action then rejects an escape), else None"""
    from ..compile import load_plain_compiler

    load_plain_compiler()
    from bitproto.errors import InvalidEscapingChar, LexerError
    from bitproto.lexer import Lexer

    lx = Lexer()
    lx.input(text)
    try:
        with contextlib.redirect_stderr(io.StringIO()):
            t = lx.token()
    except InvalidEscapingChar as e:
        tok = getattr(e, "token", None) or ""
        return (len(tok) if tok else None), "InvalidEscapingChar"
    except LexerError as e:
        return None, type(e).__name__
    if t is None or t.type != "STRING_LITERAL":
        return None, "no string token"
    return lx.lexer.lexpos, "STRING_LITERAL"


def work_extent(n: int) -> Dict[str, Any]:
    """(d) WHERE a string constant ends: the token regex of the current lexer source, interpreted with the match
    priorities of the `re` engine over an opening quote and n symbolic characters (E1 + rxsym), ends the token exactly
    where the reference says, for every text."""
    from ..compile import load_plain_compiler
    from ..rxsym import SymMatcher

    res = {"case": f"string-token-extent:n={n}", "messages": 1, "paths": 0, "queries": 0, "unsat": 0, "sat": 0, "unknown": 0, "solver_s": 0.0, "witness": 0, "witness_agree": 0, "violations": [], "inconclusive": [], "samples": [], "obligations": 0}
    try:
        load_plain_compiler()
        from bitproto.lexer import Lexer

        src = Lexer.t_STRING_LITERAL.__doc__
        rc = re.compile(src, re.VERBOSE)
        m = SymMatcher(src)
        pysym.set_domain("Z")
        zv = [z3.Int(f"ch{i}") for i in range(n)]
        chars: List[Any] = [34] + [ZInt(v) for v in zv]
        eng = Engine(max_paths=200000)
        pysym.set_engine(eng)

        def body() -> Tuple[Optional[int], Optional[int]]:
            for v in zv:
                pysym.ENGINE.assume(z3.And(v >= 1, v <= 126))
            return m.match(chars), ref_token_end(chars)

        seen_viol = 0
        for p in eng.explore(body):
            res["obligations"] += 1
            if p.exc is not None:
                raise Inconclusive(f"{type(p.exc).__name__}: {p.exc}")
            got, want = p.value
            check_native = got != want or res["witness"] < 400 or res["obligations"] % 16 == 0
            if not check_native:
                continue
            wm = p.witness()
            text = '"' + "".join(chr(wm.eval(v, model_completion=True).as_long()) for v in zv)
            real = rc.match(text)
            real_end = real.end() if real else None
            res["witness"] += 1
            if real_end != got:
                res["inconclusive"].append(f"{res['case']}: the symbolic matcher ends at {got}, re.match at {real_end} on {text!r}")
                continue
            res["witness_agree"] += 1
            if got != want and seen_viol < 3:
                seen_viol += 1
                nat, how = native_token_end(text)
                if nat == want:
                    res["inconclusive"].append(f"{res['case']}: regex ends the token of {text!r} at {got}, reference at {want}, but the real lexer agrees with the reference")
                else:
                    files = {"main.bitproto": "proto p\nconst A = " + text + "\n"}
                    res["violations"].append({"what": f"{res['case']}: in the text {text!r} the string token ends at offset {nat} ({how}; regex {src.strip()!r}), but the literal ends at the first unescaped quote, offset {want}",
                                              "payload": {"kind": "token-extent", "text": text, "want": want, "files": files}, "confirmed": True, "info": {"kind": "token-extent", "key": "string-token-extent"}})
            elif got == want and len(res["samples"]) < 2:
                res["samples"].append({"text": text, "token_end": got, "paths_so_far": eng.stats["paths"]})
        for k in ("paths", "queries", "unsat", "sat", "unknown"):
            res[k] += eng.stats.get(k, 0)
        res["solver_s"] += eng.stats.get("solver_s", 0.0)
    except Inconclusive as e:
        res["inconclusive"].append(f"{res['case']}: {type(e).__name__}: {e}")
    return res


SWEEP_CP = [1, 7, 8, 9, 10, 11, 12, 13, 27, 31, 32, 33, 34, 36, 37, 39, 47, 63, 64, 92, 96, 123, 125, 126, 127, 128, 133, 159, 160, 233, 255, 256, 0x3B1, 0x7FF, 0x800, 0x2028, 0x2029,
            0xD7FF, 0xE000, 0xFEFF, 0xFFFD, 0xFFFF, 0x10000, 0x1D11E, 0x1F600, 0x10FFFF]


def decode_literal_wide(lit: str) -> str:
    """reference decoder for the sweep: what a double-quoted literal denotes in the COMMON subset of C, Go and Python source
    text -- raw characters except quote, backslash, line breaks and NUL; the escapes of decode_literal; \\uXXXX and
    \\UXXXXXXXX only where all three languages accept them (no surrogates; C additionally forbids universal character names
    below U+00A0 other than $ @ `).  Anything else raises ValueError."""
    if len(lit) < 2 or lit[0] != '"' or lit[-1] != '"':
        raise ValueError("quotes")
    body = lit[1:-1]
    out = []
    i = 0
    simple = {"n": "\n", "t": "\t", "r": "\r", "\\": "\\", '"': '"', "'": "'"}
    while i < len(body):
        c = body[i]
        if c in '"\n\r\0':
            raise ValueError(f"raw {c!r} inside the literal")
        if c != "\\":
            out.append(c)
            i += 1
            continue
        i += 1
        if i >= len(body):
            raise ValueError("dangling backslash")
        e = body[i]
        if e in simple:
            out.append(simple[e])
            i += 1
        elif e in "uU":
            n = 4 if e == "u" else 8
            h = body[i + 1:i + 1 + n]
            if len(h) != n or any(x not in "0123456789abcdefABCDEF" for x in h):
                raise ValueError("malformed universal character name")
            cp = int(h, 16)
            if 0xD800 <= cp <= 0xDFFF or cp > 0x10FFFF:
                raise ValueError(f"\\{e}{h}: surrogate / out of range (rejected by C and Go, a lone surrogate in Python)")
            if cp < 0xA0 and cp not in (0x24, 0x40, 0x60):
                raise ValueError(f"\\{e}{h}: not a valid universal character name in C")
            out.append(chr(cp))
            i += 1 + n
        else:
            raise ValueError(f"escape \\{e} is not common to C, Go and Python")
    return "".join(out)


def work_sweep(_: Any) -> Dict[str, Any]:
    """(e) beyond CrossHair's alphabet (printable ASCII): a concrete, representative sweep -- no solver -- of the real
    format_str_value of each language over control characters, DEL, Latin-1, BMP and non-BMP code points in five contexts."""
    from ..compile import load_plain_compiler

    res = {"case": "string-emission-sweep", "messages": 1, "paths": 0, "queries": 0, "unsat": 0, "sat": 0, "unknown": 0, "solver_s": 0.0, "witness": 0, "witness_agree": 0, "violations": [], "inconclusive": [], "samples": [], "obligations": 0}
    load_plain_compiler()
    from bitproto.renderer.impls.c.formatter import CFormatter
    from bitproto.renderer.impls.go.formatter import GoFormatter
    from bitproto.renderer.impls.py.formatter import PyFormatter

    fm = {"c": CFormatter(), "go": GoFormatter(), "py": PyFormatter()}
    for lang, f in fm.items():
        bad = None
        for cp in SWEEP_CP:
            ch = chr(cp)
            for value in (ch, "a" + ch + "b", ch + ch, "\\" + ch, ch + '"'):
                res["obligations"] += 1
                res["witness"] += 1
                try:
                    lit = f.format_str_value(value)
                    got = decode_literal_wide(lit)
                    ok, why = got == value, f"literal {lit!r} denotes {got!r}"
                except ValueError as e:
                    ok, why = False, f"literal {lit!r}: {e}"
                except Exception as e:
                    ok, why = False, f"{type(e).__name__}: {e}"
                if ok:
                    res["witness_agree"] += 1
                elif bad is None:
                    bad = (value, why)
        if bad:
            res["violations"].append({"what": f"strings: the {lang} literal emitted for the constant value {bad[0]!r} (U+{ord(bad[0][0]) if len(bad[0]) == 1 else 0:04X}..) does not denote it: {bad[1]}",
                                      "payload": {"kind": "string-sweep", "lang": lang, "value": bad[0]}, "confirmed": True, "info": {"kind": "emit-string", "key": f"emit-string-{lang}"}})
    res["samples"].append({"sweep_code_points": len(SWEEP_CP), "contexts": 5, "languages": 3})
    return res


def main() -> int:
    from .agg import run_parts

    q = tier() == "quick"
    sh = shapes(q)
    jobs_a = [(s, i, False) for i, s in enumerate(sh)]
    flat = [s for s in sh if s[0].startswith("flat")]
    jobs_b = [(s, i + 1, True) for i, s in enumerate(flat)]
    parts = [("expressions", work, jobs_a), ("capacity+option", work, jobs_b), ("booleans", work_bool, [0]), ("strings-crosshair", work_strings, [0]), ("string-emission-sweep", work_sweep, [0]), ("string-token-extent", work_extent, list(range(0, 10 if q else 14)))]
    meta = {
        "functions_encoded": FILES,
        "bounds": "all expression shapes with <= 3 binary operators from + - * /, flat and with every parenthesisation (quick: all with <= 2 operators, every third with 3), operands rotating over decimal literal / hex literal / earlier constant / imported constant; operand values symbolic >= 0 (unbounded; with two or more of * / in a shape only the first two operands are symbolic, the others concrete literals); `/` asserted where dividend >= 0 and divisor > 0; integer tokens: CrossHair, the real t_INT_LITERAL action on every decimal digit string of <= 6 (thorough 9) digits, leading zeros included (hex tokens: only the concrete spellings of the templates -- CrossHair does not model int(s, 16)); strings: CrossHair, token bodies <= 3 (thorough 5) chars for the escape loop, values <= 3 (thorough 4) printable-ASCII/tab/CR/LF chars for emission; string token extent: an opening quote followed by up to 9 (thorough 13) symbolic characters in 1..126, all paths of the token regex under `re` match priorities",
        "outside_claim": "decimal rendering of the emitted integer (Python str(int)); that C/Go compilers agree with my literal decoder; non-ASCII and other control characters in strings; values >= 2^63 as C/Go literals",
        "explanation": "per path of the real parser: constant's value term == independent precedence-climbing evaluation of the same token list; the same term arrives as array capacity and max_bytes; the literal the real C/Go/Python renderers emit (sentinel-formatted in the same symbolic run) is the constant's own term; the string token regex (read from the lexer source, parsed by re._parser, interpreted over symbolic characters with greedy/lazy priorities; interpreter validated against re.match on path witnesses) ends every token at the first unescaped quote",
        "evaluations": len(jobs_a) + len(jobs_b) + 2,
        "distinct_nontrivial": len(jobs_a) + len(jobs_b),
        "rule": "one evaluation = one template (expression shape x operand-kind rotation) explored along all its paths",
    }
    return run_parts(PROP, "other", parts, meta, ["z3 decides the (non-linear) integer queries or reports unknown (= inconclusive)", "CrossHair 'Confirmed over all paths' is trusted within its bound"])


def replay(path: str) -> int:
    import json

    p = json.load(open(path))
    if p.get("kind") == "string-sweep":
        r = work_sweep(0)
        bad = [v for v in r["violations"] if v["payload"]["lang"] == p["lang"]]
        print(bad[0]["what"] if bad else "passes: holds on this input now")
        return 1 if bad else 0
    if p.get("kind") == "token-extent":
        nat, how = native_token_end(p["text"])
        print(f"real lexer: token of {p['text']!r} ends at {nat} ({how}); reference {p['want']}")
        print("FAILS" if nat != p["want"] else "passes: holds on this input now")
        return 1 if nat != p["want"] else 0
    print(json.dumps({k: p[k] for k in p if k != "harness"}, indent=1)[:1200])
    return 1
