"""Go parts of C14: the grid through the Go runtime (standard mode) and the Go -O statements."""
from __future__ import annotations

from typing import Any, List, Tuple

from . import goenc


def parts(grid: List[Any], q: bool) -> List[Tuple[str, Any, List[Any]]]:
    sel = grid[::2] if q else grid
    return [("go-runtime", goenc.work, [(c, False, ("encode", "decode")) for c in sel]), ("go-optimization-mode", goenc.work, [(c, True, ("encode", "decode")) for c in sel])]
