"""C sample of C12: both schemas of a rewrite pair encoded by their generated C (IR, -O0) on
corresponding symbolic leaves; bytes must be equal.  Modes: the runtime-library code, and (for pairs without extensible
marks) the `-O` generator's little- and big-endian paths; a counterexample is replayed through gcc-built code."""
from __future__ import annotations

from typing import Any, Dict, List

import z3

from .. import llsym, pysym
from ..common import Inconclusive, Scratch
from ..compile import CompileError
from ..crt import CBuild, CMsg, native_encode, pack_struct
from ..families import RwCase, is_extensible_case
from ..llsym import Ptr
from ..pyrt import sym_leaves
from ..pysym import Engine
from .cenc import fill_struct
from .pyenc import new_result


MODES = {"std": dict(optimize=False, endian="both"), "O-little": dict(optimize=True, endian="little"), "O-big": dict(optimize=True, endian="big")}


def select(rw: List[RwCase], q: bool) -> List[Any]:
    jobs: List[Any] = [(rc, "std") for rc in rw[::(20 if q else 8)]]
    trad = [rc for rc in rw if not is_extensible_case(rc.a) and not is_extensible_case(rc.b)]
    # the -O generator looks at declared types itself (aliases, enums, nesting): every single alias / nest / hoist /
    # import rewrite of a traditional base, plus a slice of the rest
    alias = [rc for rc in trad if len(rc.rewrites) == 1 and rc.rewrites[0] in ("alias_intro", "alias_inline")]
    typed = [rc for rc in trad if len(rc.rewrites) == 1 and rc.rewrites[0] in ("nest", "hoist", "to_import", "rename_shadow", "reorder_fields", "renumber")]
    rest = [rc for rc in trad if rc not in typed and rc not in alias][::(25 if q else 6)]
    for rc in alias:
        jobs += [(rc, "O-big"), (rc, "O-little")]
    # the runtime library dispatches on the kind an alias points to: every alias rewrite also in standard mode
    jobs += [(rc, "std") for rc in rw if len(rc.rewrites) == 1 and rc.rewrites[0] in ("alias_intro", "alias_inline") and (rc, "std") not in jobs]
    for i, rc in enumerate(typed + rest):
        if q:
            jobs.append((rc, "O-big" if i % 2 == 0 else "O-little"))
        else:
            jobs += [(rc, "O-big"), (rc, "O-little")]
    return jobs


def work(job: Any) -> Dict[str, Any]:
    rc, mode = job
    res = new_result(rc.a)
    res["case"] = f"{rc.name}[{mode}]"
    rc.b.style = rc.style_b  # type: ignore
    with Scratch() as sc:
        try:
            ca, cb = CBuild(rc.a, sc.dir, tag="_a", **MODES[mode]), CBuild(rc.b, sc.dir, tag="_b", **MODES[mode])
            ma, ka = ca.modules("O0", "x86_64", msgs=[x for x, _ in rc.pairs])
            mb, kb = cb.modules("O0", "x86_64", msgs=[y for _, y in rc.pairs])
        except (CompileError, Inconclusive) as e:
            res["inconclusive"].append(f"{res['case']}: {e}")
            return res
        for i, ((msa, cha), (msb, chb)) in enumerate(rc.pairs):
            A, B = CMsg(ma, ka, i, msa, cha), CMsg(mb, kb, i, msb, chb)
            la, lb = A.lay.leaves(), B.lay.leaves()
            if [(l.kind, l.n, l.off) for l in la] != [(l.kind, l.n, l.off) for l in lb]:
                res["inconclusive"].append(f"{res['case']}: family bug")
                continue
            terms, _p, assumes = sym_leaves(A.lay)
            tb = {y.path: terms[x.path] for x, y in zip(la, lb)}
            res["messages"] += 1
            eng = Engine(max_paths=64)
            pysym.set_engine(eng)

            def h() -> Any:
                for a in assumes:
                    pysym.ENGINE.assume(a)
                outs = []
                for cm, tt in ((A, terms), (B, tb)):
                    M = cm.machine()
                    st = M.new_region(cm.sizeof, "msg", fill=None)
                    buf = M.new_region(cm.lay.nbytes, "buf", fill=0)
                    fill_struct(cm, M, st, tt, False)
                    M.call("@Encode" + cm.name, [Ptr(st, 0), Ptr(buf, 0)])
                    outs.append(list(M.mem[buf]))
                return outs

            try:
                for p in eng.explore(h):
                    if p.exc is not None:
                        raise Inconclusive(f"{type(p.exc).__name__}: {p.exc}")
                    oa, ob = p.value
                    conj = [llsym.bv(x, 8) == llsym.bv(y, 8) for x, y in zip(oa, ob)] + [z3.BoolVal(len(oa) == len(ob))]
                    res["obligations"] += len(conj)
                    r, model = p.holds(z3.And(*conj))
                    if r == "sat":
                        va = {l.path: _signed(_ev(model, terms[l.path]), l) for l in la}
                        vb = {y.path: va[x.path] for x, y in zip(la, lb)}
                        try:
                            na, _ = native_encode(ca.shared_object("O2"), "Encode" + A.name, pack_struct(A, va, fill=0x5A), A.lay.nbytes)
                            nb, _ = native_encode(cb.shared_object("O2"), "Encode" + B.name, pack_struct(B, vb, fill=0x5A), B.lay.nbytes)
                        except Inconclusive as e:
                            res["inconclusive"].append(f"{res['case']}: {e}")
                            continue
                        if na == nb:
                            res["inconclusive"].append(f"{res['case']} {A.name}: bytes differ in the symbolic run but not natively for {list(va.items())[:4]}")
                            continue
                        res["violations"].append({"what": f"{res['case']} {A.name}: C bytes differ between the schema and its rewrite {rc.rewrites}: native {na.hex()} vs {nb.hex()} for {[(l.pname(), va[l.path]) for l in la][:6]}",
                                                  "payload": {"kind": "c-rw", "pair": rc.name, "mode": mode, "message_a": A.name, "message_b": B.name, "values": [[list(map(list, l.path)), va[l.path]] for l in la], "files_a": rc.a.proto.files(), "files_b": rc.b.proto.files(rc.style_b),
                                                              "main_a": rc.a.proto.fname(), "main_b": rc.b.proto.fname(), "struct_a": pack_struct(A, va, fill=0x5A).hex(), "struct_b": pack_struct(B, vb, fill=0x5A).hex(), "nbytes": A.lay.nbytes},
                                                  "confirmed": True, "info": {"kind": "rw", "key": "c-rw"}})
                    elif r == "unknown":
                        res["inconclusive"].append(f"{rc.name}: unknown")
                    elif len(res["samples"]) < 1:
                        res["samples"].append({"pair": rc.name, "mode": mode, "message": A.name, "verdict": "unsat (C IR, -O0)"})
            except Inconclusive as e:
                # e.g. undefined behaviour met by the interpreter: not a verdict -- but gcc-built code can still be compared
                # on boundary values; a difference there is a confirmed violation, no difference leaves it inconclusive
                import random

                from .pycommon import extreme_values

                diff = None
                try:
                    for va in extreme_values(A.lay, random.Random(7), 2):
                        vb = {y.path: va[x.path] for x, y in zip(la, lb)}
                        na, _ = native_encode(ca.shared_object("O2"), "Encode" + A.name, pack_struct(A, va, fill=0x5A), A.lay.nbytes)
                        nb, _ = native_encode(cb.shared_object("O2"), "Encode" + B.name, pack_struct(B, vb, fill=0x5A), B.lay.nbytes)
                        if na != nb:
                            diff = (va, na, nb)
                            break
                except Inconclusive:
                    pass
                if diff:
                    va, na, nb = diff
                    res["violations"].append({"what": f"{res['case']} {A.name}: C bytes differ between the schema and its rewrite {rc.rewrites}: native {na.hex()} vs {nb.hex()} for {[(l.pname(), va[l.path]) for l in la][:6]} (symbolic run stopped: {e})",
                                              "payload": {"kind": "c-rw", "pair": rc.name, "mode": mode, "message_a": A.name, "message_b": B.name, "values": [[list(map(list, l.path)), va[l.path]] for l in la], "files_a": rc.a.proto.files(), "files_b": rc.b.proto.files(rc.style_b),
                                                              "main_a": rc.a.proto.fname(), "main_b": rc.b.proto.fname(), "struct_a": pack_struct(A, va, fill=0x5A).hex(), "struct_b": pack_struct(B, vb, fill=0x5A).hex(), "nbytes": A.lay.nbytes},
                                              "confirmed": True, "info": {"kind": "rw", "key": "c-rw"}})
                else:
                    res["inconclusive"].append(f"{res['case']}: {e}")
            for k in ("paths", "queries", "unsat", "sat", "unknown"):
                res[k] += eng.stats.get(k, 0)
    return res


def _ev(model: Any, t: Any) -> int:
    if isinstance(t, int):
        return t
    e = getattr(t, "e", t)
    v = model.eval(e, model_completion=True)
    return v.as_long()


def _signed(v: int, l: Any) -> int:
    return v - (1 << l.n) if l.kind == "int" and v >> (l.n - 1) else v


def replay(p: Dict[str, Any]) -> int:
    """both schemas through the real command line and gcc; the recorded struct images through Encode; compare the bytes"""
    import os

    from ..common import REPO, run
    from ..compile import compile_cli, write_files

    flags = {"std": [], "O-little": ["-O", "--endian", "little"], "O-big": ["-O", "--endian", "big"]}[p.get("mode", "std")]
    outs = []
    with Scratch() as sc:
        for side in ("a", "b"):
            src, gen = sc.path("src_" + side), sc.path("gen_" + side)
            os.makedirs(src)
            write_files(p["files_" + side], src)
            for fn in p["files_" + side]:
                r = compile_cli(src, fn, "c", gen, ["-q"] + flags)
                if r.returncode:
                    print(f"side {side}: the compiler rejects {fn}: {r.stderr[-300:]}")
                    return 1
            so = sc.path(side + ".so")
            cs = [os.path.join(gen, f) for f in os.listdir(gen) if f.endswith(".c")]
            g = run(["gcc", "-shared", "-fPIC", "-O2", "-w", "-I", gen, "-I", os.path.join(REPO, "lib", "c")] + cs + [os.path.join(REPO, "lib", "c", "bitproto.c"), "-o", so])
            if g.returncode:
                print(f"side {side}: gcc rejects the generated C: {g.stderr[-300:]}")
                return 1
            got, _ = native_encode(so, "Encode" + p["message_" + side], bytes.fromhex(p["struct_" + side]), p["nbytes"])
            outs.append(got.hex())
    print(f"schema: {outs[0]}\nrewrite: {outs[1]}")
    print("FAILS: bytes differ" if outs[0] != outs[1] else "passes: holds on this input now")
    return 1 if outs[0] != outs[1] else 0
