"""C sample of C12: both schemas of a rewrite pair encoded by their generated C (IR, -O0) on
corresponding symbolic leaves; bytes must be equal."""
from __future__ import annotations

from typing import Any, Dict, List

import z3

from .. import llsym, pysym
from ..common import Inconclusive, Scratch
from ..compile import CompileError
from ..crt import CBuild, CMsg
from ..families import RwCase
from ..llsym import Ptr
from ..pyrt import sym_leaves
from ..pysym import Engine
from .cenc import fill_struct
from .pyenc import new_result


def select(rw: List[RwCase], q: bool) -> List[RwCase]:
    return rw[::(20 if q else 8)]


def work(rc: RwCase) -> Dict[str, Any]:
    res = new_result(rc.a)
    res["case"] = rc.name
    rc.b.style = rc.style_b  # type: ignore
    with Scratch() as sc:
        try:
            ca, cb = CBuild(rc.a, sc.dir, tag="_a"), CBuild(rc.b, sc.dir, tag="_b")
            ma, ka = ca.modules("O0", "x86_64", msgs=[x for x, _ in rc.pairs])
            mb, kb = cb.modules("O0", "x86_64", msgs=[y for _, y in rc.pairs])
        except (CompileError, Inconclusive) as e:
            res["inconclusive"].append(f"{rc.name}: {e}")
            return res
        for i, ((msa, cha), (msb, chb)) in enumerate(rc.pairs):
            A, B = CMsg(ma, ka, i, msa, cha), CMsg(mb, kb, i, msb, chb)
            la, lb = A.lay.leaves(), B.lay.leaves()
            if [(l.kind, l.n, l.off) for l in la] != [(l.kind, l.n, l.off) for l in lb]:
                res["inconclusive"].append(f"{rc.name}: family bug")
                continue
            terms, _p, assumes = sym_leaves(A.lay)
            tb = {y.path: terms[x.path] for x, y in zip(la, lb)}
            res["messages"] += 1
            eng = Engine(max_paths=64)
            pysym.set_engine(eng)

            def h() -> Any:
                for a in assumes:
                    pysym.ENGINE.assume(a)
                outs = []
                for cm, tt in ((A, terms), (B, tb)):
                    M = cm.machine()
                    st = M.new_region(cm.sizeof, "msg", fill=None)
                    buf = M.new_region(cm.lay.nbytes, "buf", fill=0)
                    fill_struct(cm, M, st, tt, False)
                    M.call("@Encode" + cm.name, [Ptr(st, 0), Ptr(buf, 0)])
                    outs.append(list(M.mem[buf]))
                return outs

            try:
                for p in eng.explore(h):
                    if p.exc is not None:
                        raise Inconclusive(f"{type(p.exc).__name__}: {p.exc}")
                    oa, ob = p.value
                    conj = [llsym.bv(x, 8) == llsym.bv(y, 8) for x, y in zip(oa, ob)] + [z3.BoolVal(len(oa) == len(ob))]
                    res["obligations"] += len(conj)
                    r, model = p.holds(z3.And(*conj))
                    if r == "sat":
                        res["violations"].append({"what": f"{rc.name} {A.name}: C bytes differ between the schema and its rewrite", "payload": {"kind": "c-rw", "pair": rc.name, "files_a": rc.a.proto.files(), "files_b": rc.b.proto.files(rc.style_b)}, "confirmed": False, "info": {"kind": "rw"}})
                    elif r == "unknown":
                        res["inconclusive"].append(f"{rc.name}: unknown")
                    elif len(res["samples"]) < 1:
                        res["samples"].append({"pair": rc.name, "message": A.name, "verdict": "unsat (C, -O0)"})
            except Inconclusive as e:
                res["inconclusive"].append(f"{rc.name}: {e}")
            for k in ("paths", "queries", "unsat", "sat", "unknown"):
                res[k] += eng.stats.get(k, 0)
    return res
