"""E1/BV harness for C05 (forward compatibility), Python runtime: the *old* schema's generated
decoder runs symbolically on the specified encoding of the *new* schema's symbolic values."""
from __future__ import annotations

import os
import time
from typing import Any, Dict, List, Tuple

import z3

from .. import pysym
from ..common import Inconclusive, Scratch
from ..compile import CompileError
from ..families import EvoCase
from ..pyrt import PyTarget, leaf_term_of, native_run, nav_get, py_class_name, sym_leaves
from ..pysym import BVInt, Engine, SymBytes
from ..schema import layout, spec_bytes_z3, spec_encode
from .pycommon import compile_case_py, exc_info, extreme_values, vals_case
from .pyenc import MAX_PATHS, _acc, new_result


def wire_cells(spec: List[Any]) -> List[Any]:
    out = []
    for b in spec:
        b = z3.simplify(b)
        out.append(b.as_long() if z3.is_bv_value(b) else BVInt.of_term(b, False))
    return out


def work(ec: EvoCase) -> Dict[str, Any]:
    res = new_result(ec.old)
    res["case"] = ec.name
    t00 = time.time()
    with Scratch() as sc:
        try:
            gen_old, mods_old = compile_case_py(ec.old, sc)
            sc2 = Scratch()
        except CompileError as e:
            res["inconclusive"].append(f"{ec.name}: old schema rejected: {e}")
            return res
        try:
            try:
                gen_new, mods_new = compile_case_py(ec.new, sc2)
            except CompileError as e:
                res["inconclusive"].append(f"{ec.name}: new schema rejected: {e}")
                return res
            T = PyTarget(gen_old, mods_old)
            new_by_name = {m.name: (m, ch) for m, ch in ec.new.messages}
            for msg, chain in ec.old.messages:
                nm, nchain = new_by_name[msg.name]
                lay_o, lay_n = layout(msg), layout(nm)
                terms, _prox, assumes = sym_leaves(lay_n)
                spec = spec_bytes_z3(lay_n, terms)
                cls = py_class_name(chain)
                res["messages"] += 1
                res["leaves"] += len(lay_o.leaves())
                eng = Engine(max_paths=MAX_PATHS)
                pysym.set_engine(eng)
                new_paths = {l.path for l in lay_n.leaves()}
                missing = [l.pname() for l in lay_o.leaves() if l.path not in new_paths]
                if missing:
                    res["inconclusive"].append(f"{ec.name}: family bug, old leaves missing in new: {missing[:3]}")
                    continue

                def h() -> Any:
                    for a in assumes:
                        pysym.ENGINE.assume(a)
                    d = T.new(cls)
                    d.decode(SymBytes(wire_cells(spec)))
                    return d

                cexs: List[Dict[Any, int]] = []
                try:
                    for p in eng.explore(h):
                        if p.exc is not None:
                            m = p.witness()
                            cexs.append({l.path: _val(m, terms[l.path], l) for l in lay_n.leaves()})
                            continue
                        conj = []
                        for l in lay_o.leaves():
                            t, inr = leaf_term_of(nav_get(p.value, l.path), l)
                            conj += [t == terms[l.path], inr]
                        res["obligations"] += len(conj)
                        r, model = p.holds(z3.And(*conj) if conj else z3.BoolVal(True))
                        if r == "unknown":
                            res["inconclusive"].append(f"{ec.name}.{cls}: solver unknown")
                        elif r == "sat":
                            cexs.append({l.path: _val(model, terms[l.path], l) for l in lay_n.leaves()})
                        elif len(res["samples"]) < 1:
                            res["samples"].append({"evolution": ec.name, "steps": list(ec.steps), "message": cls, "old_bits": lay_o.nbits, "new_bits": lay_n.nbits, "verdict": "unsat"})
                except Inconclusive as e:
                    res["inconclusive"].append(f"{ec.name}.{cls}: {type(e).__name__}: {e}")
                _acc(res, eng)
                # native: validation on extremes + replay of counterexamples (new encoder -> old decoder)
                import random

                rng = random.Random(hash(ec.name) & 0xFFFF)
                tests = [("cex", v) for v in cexs[:4]] + [("wit", v) for v in extreme_values(lay_n, rng, 1)]
                if not tests:
                    continue
                try:
                    enc = native_run(gen_new, mods_new[0], [{"message": py_class_name(nchain), "op": "encode", "values": vals_case(lay_n, v)} for _, v in tests])
                    jobs = []
                    for (_, v), e in zip(tests, enc):
                        wire = e.get("bytes") or spec_encode(lay_n, v).hex()
                        jobs.append({"message": cls, "op": "decode", "wire": wire, "read": [list(map(list, l.path)) for l in lay_o.leaves()]})
                    dec = native_run(gen_old, mods_old[0], jobs)
                except Inconclusive as e:
                    res["inconclusive"].append(f"{ec.name}.{cls}: {e}")
                    continue
                for (kind, v), e, o in zip(tests, enc, dec):
                    bad = None
                    enc_off = ("exc" not in e) and e["bytes"] != spec_encode(lay_n, v).hex()
                    if "exc" in e:
                        bad = f"new encoder raised {e['exc']}: {e['msg']}"
                    elif "exc" in o:
                        bad = f"old decoder raised {o['exc']}: {o['msg']} at {o['frame']}"
                    else:
                        wrong = [(pth, got, v[tuple(map(tuple, pth))]) for pth, got in o["leaves"] if got != v[tuple(map(tuple, pth))]]
                        if wrong:
                            bad = f"old decoder read {wrong[:3]} (path, got, encoded)"
                    if bad and enc_off:
                        # end to end (real S2 encoder -> real S1 decoder) the property fails although the old decoder is
                        # right on the SPECIFIED wire: the new version's encoder deviates from the layout (C01's matter too)
                        bad += f"; the new version's real encoder emits {e['bytes'][:48]}.. instead of the specified {spec_encode(lay_n, v).hex()[:48]}.."
                        kind = "cex"
                    if kind == "wit":
                        res["witness"] += 1
                        if bad is None:
                            res["witness_agree"] += 1
                            continue
                        elif cexs:
                            continue
                        # the REAL new encoder -> the REAL old decoder fail on this input although the symbolic run gave no
                        # counterexample (it may have stopped early): the native failure is the evidence, report it
                        bad += " (found by the native witness run, not by the solver)"
                    if bad is None:
                        res["inconclusive"].append(f"{ec.name}.{cls}: solver model did not reproduce natively")
                        continue
                    payload = {"kind": "py-evo", "evolution": ec.name, "steps": list(ec.steps), "old_files": ec.old.proto.files(), "new_files": ec.new.proto.files(), "module": mods_old[0],
                               "message": cls, "new_message": py_class_name(nchain), "values": vals_case(lay_n, v), "native": o}
                    res["violations"].append({"what": f"{ec.name} [{', '.join(ec.steps)}] {cls}: {bad}", "payload": payload, "confirmed": True,
                                              "info": {"kind": "evo", "native": o, "key": evo_key(ec)}})
        finally:
            sc2.cleanup()
    res["exec_s"] = round(time.time() - t00, 3)
    return res


def _val(model: Any, term: Any, l: Any) -> int:
    v = model.eval(term, model_completion=True).as_long()
    if l.signed and v >> (l.n - 1):
        v -= 1 << l.n
    return v


def evo_key(ec: EvoCase) -> str:
    return ""
