"""C20 Lint is advisory and diagnostics point at the right line -- kernel:
(a) positions under a *symbolic layout* (synthetic token source through the real grammar
    actions): lineno / 1-based column of every definition and reference, scope braces, indent,
    and the indent / enum-zero lint rules for all layouts and enum values;
(b) warnings and parser errors cite file and line (real lexer; layouts enumerated);
(c) check-only exit logic for every warning count."""
from __future__ import annotations

import contextlib
import io
import os
import re
from typing import Any, Callable, Dict, List, Optional, Tuple

import z3

from .. import pysym
from ..common import Inconclusive, Scratch, tier
from ..pysym import Engine, SymBool, ZInt

PROP = "C20"
FILES = ["compiler/bitproto/parser.py", "compiler/bitproto/linter.py", "compiler/bitproto/errors.py", "compiler/bitproto/_main.py", "compiler/bitproto/lexer.py"]


def _res(name: str) -> Dict[str, Any]:
    return {"case": name, "messages": 1, "leaves": 0, "paths": 0, "queries": 0, "unsat": 0, "sat": 0, "unknown": 0, "solver_s": 0.0, "merges": 0, "witness": 0, "witness_agree": 0,
            "violations": [], "inconclusive": [], "samples": [], "obligations": 0}


# --------------------------------------------------------------------------- (a) symbolic layout


class LexData:
    """stub for lexer.lexdata: answers rfind('\\n', 0, pos) for registered token positions from
    the symbolic line-start offsets"""

    def __init__(self) -> None:
        self.line_start: Dict[int, Any] = {}
        self.total = ZInt(z3.Int("TOTAL_LEN"))
        self.nls = ZInt(z3.Int("TOTAL_NEWLINES"))
        self.last_nl = ZInt(z3.Int("LAST_NEWLINE_POS"))

    def reg(self, lexpos: ZInt, start: Any) -> None:
        self.line_start[lexpos.e.get_id()] = start

    def rfind(self, sub: str, a: int, b: Any) -> Any:
        assert sub == "\n" and a == 0
        if isinstance(b, ZInt):
            if b.e.get_id() in self.line_start:
                return ZInt(z3.simplify(self.line_start[b.e.get_id()] - 1))
            if b is self.total or z3.eq(b.e, self.total.e):
                return self.last_nl
        raise Inconclusive("lexdata.rfind at an unregistered position")

    def count(self, sub: str) -> Any:
        return self.nls

    def __len__(self) -> int:
        raise TypeError("len(lexdata)")  # len() must return an int; handled by the private len below


class SynthSource:
    def __init__(self, toks: List[Any], data: LexData):
        self.toks = toks
        self.i = 0
        self.lexdata = data
        self.lineno = 1
        self.lexpos = 0

    def input(self, s: str) -> None:
        pass

    def token(self) -> Any:
        if self.i >= len(self.toks):
            return None
        t = self.toks[self.i]
        self.i += 1
        return t


# a scenario: list of lines; a line: (depth, [ (type, value_factory|value, text, key|None) ... ])
Line = Tuple[int, List[Tuple[str, Any, str, Optional[str]]]]


def scenarios() -> List[Tuple[str, List[Line], Callable[[Any], Dict[str, Any]]]]:
    """(name, lines, node getter: proto -> {key: node}).  Type-token values are built at run
    time (they carry the symbolic line)."""
    S: List[Tuple[str, List[Line], Callable[[Any], Dict[str, Any]]]] = []
    U3 = ("UINT_TYPE", ("U", 3), "uint3", None)
    I7 = ("INT_TYPE", ("I", 7), "int7", None)
    BOOL = ("BOOL_TYPE", ("B",), "bool", None)
    PROTO: Line = (0, [("PROTO", "proto", "proto", None), ("IDENTIFIER", "p", "p", None)])

    def k(ty: str, val: Any, key: Optional[str] = None, text: Optional[str] = None) -> Tuple[str, Any, str, Optional[str]]:
        return (ty, val, text if text is not None else str(val), key)

    S.append(("message+field", [
        (0, [k("MESSAGE", "message"), k("IDENTIFIER", "Msg", "def:Msg"), k("{", "{", "open:Msg")]),
        (1, [U3, k("IDENTIFIER", "field_x", "def:Msg.field_x"), k("=", "="), k("INT_LITERAL", 1)]),
        (1, [BOOL, k("TYPE", "type", "def:Msg.type"), k("=", "="), k("INT_LITERAL", 2)]),
        (0, [k("}", "}", "close:Msg")]), PROTO],
        lambda p: {"Msg": p.members["Msg"], "Msg.field_x": p.members["Msg"].members["field_x"], "Msg.type": p.members["Msg"].members["type"]}))
    S.append(("enum+fields", [
        (0, [k("ENUM", "enum"), k("IDENTIFIER", "Color", "def:Color"), k(":", ":"), U3, k("{", "{", "open:Color")]),
        (1, [k("IDENTIFIER", "RED", "def:Color.RED"), k("=", "="), k("INT_LITERAL", ("sym", "ev0"), None, "0")]),
        (1, [k("IDENTIFIER", "BLUE", "def:Color.BLUE"), k("=", "="), k("HEX_LITERAL", ("sym", "ev1"), None, "0x1"), k(";", ";")]),
        (0, [k("}", "}", "close:Color")]), PROTO],
        lambda p: {"Color": p.members["Color"], "Color.RED": p.members["Color"].members["RED"], "Color.BLUE": p.members["Color"].members["BLUE"]}))
    S.append(("alias+const+option", [
        PROTO,
        (0, [k("TYPE", "type"), k("IDENTIFIER", "Stamp", "def:Stamp"), k("=", "="), I7]),
        (0, [k("CONST", "const"), k("IDENTIFIER", "LIMIT", "def:LIMIT"), k("=", "="), k("INT_LITERAL", 3)]),
        (0, [k("OPTION", "option"), k("IDENTIFIER", "c", "def:c.name_prefix"), k(".", "."), k("IDENTIFIER", "name_prefix"), k("=", "="), k("STRING_LITERAL", "x", None, '"x"')]),
        (0, [k("TYPEDEF", "typedef"), BOOL, k("IDENTIFIER", "Flag", "def:Flag")]),
        (0, [k("CONST", "const"), k("IDENTIFIER", "COPY", "def:COPY"), k("=", "="), k("IDENTIFIER", "LIMIT", "ref:LIMIT@copy")])],
        lambda p: {"Stamp": p.members["Stamp"], "LIMIT": p.members["LIMIT"], "c.name_prefix": p.members["c.name_prefix"], "Flag": p.members["Flag"], "COPY": p.members["COPY"]}))
    S.append(("nested+references", [
        PROTO,
        (0, [k("CONST", "const"), k("IDENTIFIER", "CAP", "def:CAP"), k("=", "="), k("INT_LITERAL", 2)]),
        (0, [k("MESSAGE", "message"), k("IDENTIFIER", "Outer", "def:Outer"), k("'", "'"), k("{", "{", "open:Outer")]),
        (1, [k("ENUM", "enum"), k("IDENTIFIER", "Kind", "def:Outer.Kind"), k(":", ":"), U3, k("{", "{", "open:Outer.Kind")]),
        (2, [k("IDENTIFIER", "ZERO", "def:Outer.Kind.ZERO"), k("=", "="), k("INT_LITERAL", 0)]),
        (1, [k("}", "}", "close:Outer.Kind")]),
        (1, [k("MESSAGE", "message"), k("IDENTIFIER", "Inner", "def:Outer.Inner"), k("{", "{", "open:Outer.Inner")]),
        (2, [k("IDENTIFIER", "Kind", "ref:Kind"), k("IDENTIFIER", "kind", "def:Outer.Inner.kind"), k("=", "="), k("INT_LITERAL", 1)]),
        (2, [k("OPTION", "option"), k("IDENTIFIER", "max_bytes", "def:Outer.Inner.max_bytes"), k("=", "="), k("IDENTIFIER", "CAP", "ref:CAP@opt")]),
        (1, [k("}", "}", "close:Outer.Inner")]),
        (1, [k("IDENTIFIER", "Inner", "ref:Inner"), k("[", "["), k("IDENTIFIER", "CAP", "ref:CAP"), k("]", "]"), k("'", "'"), k("IDENTIFIER", "items", "def:Outer.items"), k("=", "="), k("INT_LITERAL", 1)]),
        (0, [k("}", "}", "close:Outer")])],
        lambda p: {"CAP": p.members["CAP"], "Outer": p.members["Outer"], "Outer.Kind": p.members["Outer"].members["Kind"], "Outer.Kind.ZERO": p.members["Outer"].members["Kind"].members["ZERO"],
                   "Outer.Inner": p.members["Outer"].members["Inner"], "Outer.Inner.kind": p.members["Outer"].members["Inner"].members["kind"],
                   "Outer.Inner.max_bytes": p.members["Outer"].members["Inner"].members["max_bytes"], "Outer.items": p.members["Outer"].members["items"]}))
    return S


def work_layout(job: Tuple[int, bool, bool, str]) -> Dict[str, Any]:
    """one scenario x {multi-line, one physical line} x {may start on line 1, starts later}"""
    from ..zc import zc

    si, one_line, first_line, lint_mode = job  # lint_mode: free | conforming | none
    z0 = zc()  # makes `ply` importable
    from ply.lex import LexToken
    name, lines, getter = scenarios()[si]
    res = _res(f"layout:{name}:{'1line' if one_line else 'multi'}:{'L1' if first_line else 'L>=2'}:lint-{lint_mode}")
    z = zc()
    A = z.ast
    eng = Engine(max_paths=400)
    pysym.set_engine(eng)
    nl = len(lines)
    Lz = [z3.Int(f"L{j}") for j in range(nl)]
    Sz = [z3.Int(f"S{j}") for j in range(nl)]
    Cz = [z3.Int(f"C{j}") for j in range(nl)]
    evs = {"ev0": z3.Int("ev0"), "ev1": z3.Int("ev1")}
    # token column offsets within a line (tokens separated by one blank)
    offs: List[List[int]] = []
    widths: List[int] = []
    for _, toks in lines:
        o = []
        c = 0
        for (_, _, text, _) in toks:
            o.append(c)
            c += len(text) + 1
        offs.append(o)
        widths.append(c - 1)
    constraints: List[Any] = []
    if first_line:
        constraints += [Lz[0] == 1, Sz[0] == 0]
    else:
        constraints += [Lz[0] >= 2, Sz[0] >= Lz[0] - 1]
    for j in range(nl):
        constraints.append(Cz[j] >= 0)
        if j > 0:
            if one_line:
                constraints += [Lz[j] == Lz[j - 1], Sz[j] == Sz[j - 1], Cz[j] >= Cz[j - 1] + widths[j - 1] + 1]
            else:
                constraints += [Lz[j] > Lz[j - 1], Sz[j] >= Sz[j - 1] + Cz[j - 1] + widths[j - 1] + (Lz[j] - Lz[j - 1])]
    if lint_mode == "conforming":
        constraints += [Cz[j] == 4 * lines[j][0] for j in range(nl)]
    constraints += [evs["ev0"] >= 0, evs["ev0"] < 8, evs["ev1"] >= 0, evs["ev1"] < 8, evs["ev0"] != evs["ev1"]]
    depth = [d for d, _ in lines]
    keypos: Dict[str, Tuple[int, int]] = {}

    def h() -> Any:
        for c in constraints:
            pysym.ENGINE.assume(c)
        data = LexData()
        src = SynthSource([], data)
        toks: List[Any] = []

        def mk(ty: str, val: Any, line: Any, pos: Any, start: Any) -> Any:
            t = LexToken()
            t.type, t.value, t.lineno, t.lexpos, t.lexer = ty, val, line, pos, src
            data.reg(pos, start)
            return t

        for j, (d, ltoks) in enumerate(lines):
            L, Sx, C = ZInt(Lz[j]), Sz[j], Cz[j]
            if j == 0 and not first_line:
                toks.append(mk("NEWLINE", "\n", ZInt(Lz[0] - 1), ZInt(Sz[0] - 1), Sz[0]))
            elif j > 0 and not one_line:
                toks.append(mk("NEWLINE", "\n", ZInt(Lz[j] - 1), ZInt(Sz[j] - 1), Sz[j]))
            for ti, (ty, val, text, key) in enumerate(ltoks):
                pos = ZInt(z3.simplify(Sx + C + offs[j][ti]))
                if isinstance(val, tuple):
                    if val[0] == "U":
                        val = A.Uint(cap=val[1], token=text, lineno=L, filepath="")
                    elif val[0] == "I":
                        val = A.Int(cap=val[1], token=text, lineno=L, filepath="")
                    elif val[0] == "B":
                        val = A.Bool(token=text, lineno=L, filepath="")
                    elif val[0] == "sym":
                        val = ZInt(evs[val[1]])
                elif ty in ("INT_LITERAL", "HEX_LITERAL"):
                    val = ZInt.const(val)
                toks.append(mk(ty, val, L, pos, Sx))
                if key:
                    keypos[key] = (j, ti)
        j = nl - 1
        toks.append(mk("NEWLINE", "\n", ZInt(Lz[j]), ZInt(z3.simplify(Sz[j] + Cz[j] + widths[j])), Sz[j]))
        src.toks = toks
        p = z.reset_parser()
        z.parser_mod.__dict__["__builtins__"]["len"] = _len  # len(lexdata) in p_close_global_scope
        with p.lexer.maintain_filepath(""):
            with p.maintain_filepath(""):
                proto = p.parser.parse("", lexer=src)
        if lint_mode == "none":
            return proto, 0, ""
        with contextlib.redirect_stderr(io.StringIO()) as err:
            n = z.mod("bitproto.linter").lint(proto)
        return proto, n, err.getvalue()

    def _len(x: Any) -> Any:
        if isinstance(x, LexData):
            return x.total
        return len(x)

    def col(key: str) -> Any:
        j, ti = keypos[key]
        return Cz[j] + offs[j][ti]

    try:
        for p in eng.explore(h):
            if p.exc is not None:
                res["inconclusive"].append(f"{res['case']}: unexpected {type(p.exc).__name__}: {p.exc}")
                continue
            proto, nwarn, errtxt = p.value
            nodes = getter(proto)
            obl: List[Tuple[str, Any]] = []
            for key, (j, ti) in keypos.items():
                kind, nm = key.split(":", 1)
                nm = nm.split("@")[0]
                if kind == "def":
                    n = nodes[nm]
                    obl.append((f"{nm}.lineno == line of its name", ZInt.lift(n.lineno) == Lz[j]))
                    obl.append((f"{nm}.token_col_start == 1-based column of its name", ZInt.lift(n.token_col_start) == col(key) + 1))
                    if not one_line:
                        obl.append((f"{nm}.indent == column offset of its first token", ZInt.lift(n.indent) == Cz[j]) if not first_line or j > 0 else (f"{nm}.indent (first line)", z3.BoolVal(True)))
                elif kind == "open":
                    n = nodes[nm]
                    obl.append((f"{nm}.scope_start == position of the opening brace", z3.And(ZInt.lift(n.scope_start_lineno) == Lz[j], ZInt.lift(n.scope_start_col) == col(key) + 1)))
                elif kind == "close":
                    n = nodes[nm]
                    obl.append((f"{nm}.scope_end == position of the closing brace", z3.And(ZInt.lift(n.scope_end_lineno) == Lz[j], ZInt.lift(n.scope_end_col) == col(key) + 1)))
                elif kind == "ref":
                    refs = [r for r in proto.references if r.token == nm]
                    want = z3.Or(*[z3.And(ZInt.lift(r.lineno) == Lz[j], ZInt.lift(r.token_col_start) == col(key) + 1) for r in refs]) if refs else z3.BoolVal(False)
                    obl.append((f"a reference to {nm} records line and 1-based column of the name at {key}", want))
            # lint: with every line indented 4*depth (style guide) no indent warning; the enum-zero
            # rule fires exactly when no member is 0
            if lint_mode == "none":
                obl_lint = False
            conforming = z3.And(*[Cz[j] == 4 * depth[j] for j in range(nl)])
            wl = [l for l in errtxt.split("\n") if "warning:" in l]
            indent_w = sum("Indent warning" in l for l in wl)
            zero_w = len(wl) - indent_w
            if not one_line and lint_mode != "none":
                obl.append(("style-guide indentation => no indent warning", z3.Implies(conforming, z3.BoolVal(indent_w == 0))))
                # every definition on a line >= 2 with a positive, wrong indent is warned about
                wrong = [z3.And(Cz[j] > 0, Cz[j] != 4 * depth[j]) for key, (j, ti) in keypos.items() if key.startswith("def:") and ti <= 2 and (j > 0 or not first_line) and not key.startswith("def:c.")]
                if wrong:
                    obl.append(("a wrong positive indent => at least one indent warning", z3.Implies(z3.Or(*wrong), z3.BoolVal(indent_w > 0))))
            if lint_mode == "none":
                pass
            elif name == "enum+fields":
                has0 = z3.Or(evs["ev0"] == 0, evs["ev1"] == 0)
                obl.append(("enum-zero warning <=> no member is 0", z3.BoolVal(zero_w > 0) == z3.Not(has0)))
            else:
                obl.append(("no other warning on style-conforming names", z3.BoolVal(zero_w == 0)))
            for what, phi in obl:
                res["obligations"] += 1
                r, model = p.holds(phi)
                if r == "unknown":
                    res["inconclusive"].append(f"{res['case']}: solver unknown on {what}")
                elif r == "sat":
                    lay = {str(v): model.eval(v, model_completion=True).as_long() for v in Lz + Sz + Cz + list(evs.values())}
                    rep = _replay_layout(lines, lay, one_line, first_line, what)
                    if rep is None:
                        res["inconclusive"].append(f"{res['case']}: model for `{what}` did not reproduce natively: {lay}")
                    else:
                        res["violations"].append({"what": f"{res['case']}: {what} fails: {rep[1]}", "payload": {"kind": "layout", "text": rep[0], "what": what, "detail": rep[1]}, "confirmed": True,
                                                  "info": {"kind": "position", "key": _poskey(what, lay)}})
            if len(res["samples"]) < 1:
                res["samples"].append({"scenario": res["case"], "obligations": [w for w, _ in obl][:8], "lint_warnings_on_path": nwarn if isinstance(nwarn, int) else str(nwarn)})
    except Inconclusive as e:
        res["inconclusive"].append(f"{res['case']}: {type(e).__name__}: {e}")
    for k in ("paths", "queries", "unsat", "sat", "unknown"):
        res[k] += eng.stats.get(k, 0)
    res["solver_s"] += eng.stats.get("solver_s", 0.0)
    if res["paths"] == 0 and not res["inconclusive"]:
        res["inconclusive"].append(f"{res['case']}: no feasible path (vacuous)")
    return res


def _poskey(what: str, lay: Dict[str, int]) -> str:
    first = lay.get("L0") == 1
    if "1-based column" in what or "scope_" in what or "reference" in what:
        return "column-on-first-line" if first else "column"
    return "other"


def _text_from_layout(lines: List[Line], lay: Dict[str, int], one_line: bool, first_line: bool) -> str:
    """concrete text realising a layout model (line numbers and columns; S is implied)"""
    out = ""
    curline = 1
    for j, (d, toks) in enumerate(lines):
        L, C = lay[f"L{j}"], lay[f"C{j}"]
        if one_line and j > 0:
            cur = len(out.split("\n")[-1])
            out += " " * max(1, C - cur)
        else:
            while curline < L:
                out += "\n"
                curline += 1
            out += " " * C
        vals = []
        for ty, val, text, key in toks:
            if isinstance(val, tuple) and val[0] == "sym":
                text = str(lay[val[1]]) if ty == "INT_LITERAL" else hex(lay[val[1]])
            vals.append(text)
        out += " ".join(vals)
    return out + "\n"


def _replay_layout(lines: List[Line], lay: Dict[str, int], one_line: bool, first_line: bool, what: str) -> Optional[Tuple[str, str]]:
    """native replay: build the text, parse with the real compiler, re-evaluate the claim"""
    from ..zc import plain_outcome

    text = _text_from_layout(lines, lay, one_line, first_line)
    po, proto = plain_outcome(text)
    if po != "ok":
        return None
    tl = text.split("\n")
    m = re.match(r"(?:a reference to )?([\w.]+?)(?:\.(lineno|token_col_start|indent|scope_start|scope_end)| records)", what)
    if not m:
        # lint claims
        from bitproto.linter import lint

        with contextlib.redirect_stderr(io.StringIO()) as err:
            lint(proto)
        e = err.getvalue()
        other = [l for l in e.split("\n") if "warning:" in l and "Indent warning" not in l]
        if "no indent warning" in what and "Indent warning" in e:
            return text, f"style-conforming layout is warned about: {e.strip()[:200]}"
        if "at least one indent warning" in what and "Indent warning" not in e:
            return text, "a wrong positive indent is not warned about"
        if "enum-zero" in what:
            has0 = lay["ev0"] == 0 or lay["ev1"] == 0
            fired = bool(other)
            if fired == has0:
                return text, f"enum-zero warning fired={fired} although a zero member {'exists' if has0 else 'is missing'}"
        if "no other warning" in what and other:
            return text, f"unexpected warning {other[0][:200]}"
        return None
    path, attr = m.group(1), m.group(2)
    if attr is None:  # reference
        nm = path
        for r in proto.references:
            if r.token == nm:
                line = tl[r.lineno - 1] if 0 < r.lineno <= len(tl) else ""
                if line[r.token_col_start - 1: r.token_col_start - 1 + len(nm)] != nm:
                    return text, f"reference {nm} recorded at L{r.lineno} col {r.token_col_start}, but column {r.token_col_start} (1-based) of that line does not start with {nm!r}"
        return None
    node = proto
    for part in path.split("."):
        node = node.members[part] if part in node.members else node.members[path[path.index(part):]]
        if getattr(node, "name", "") == path or part == path.split(".")[-1]:
            break
    nm = path.split(".")[-1] if not path.startswith("c.") else "c"
    if attr in ("lineno", "token_col_start"):
        line = tl[node.lineno - 1] if 0 < node.lineno <= len(tl) else ""
        got = line[node.token_col_start - 1: node.token_col_start - 1 + len(nm)]
        if got != nm:
            return text, f"{path} recorded at L{node.lineno} col {node.token_col_start}; column {node.token_col_start} (1-based) of that line holds {got!r}, not {nm!r}"
    elif attr == "indent":
        line = tl[node.lineno - 1]
        real = len(line) - len(line.lstrip(" "))
        if node.indent != real:
            return text, f"{path}.indent = {node.indent}, the line is indented by {real}"
    elif attr in ("scope_start", "scope_end"):
        ln, cl = (node.scope_start_lineno, node.scope_start_col) if attr == "scope_start" else (node.scope_end_lineno, node.scope_end_col)
        ch = "{" if attr == "scope_start" else "}"
        line = tl[ln - 1] if 0 < ln <= len(tl) else ""
        if line[cl - 1: cl] != ch:
            return text, f"{path}.{attr} recorded at L{ln} col {cl}; that position holds {line[cl - 1: cl]!r}, not {ch!r}"
    return None


# --------------------------------------------------------------------------- (b) cited lines, real lexer, enumerated layouts

BAD = """{lead}proto p
const NOTE = "first\\nsecond\\nthird\\t\\"q\\" \\\\"
{gap}// leading comment
type bad_alias = uint3
{gap}const badConst = 1
enum bad_enum : uint3 {{
    {gap_in}bad_member = 1
}}
message bad_msg {{
    // doc
    uint3 BadField = 1{semi}
      bool over_indented = 2
    enum Nested : uint1 {{
        ZERO = 0
    }}
}}
"""
GOOD = """{lead}proto good
const NOTE = "first\\nsecond\\nthird\\t\\"q\\" \\\\"
{gap}// A style-guide conforming schema.
type Stamp = int64
{gap}const LIMIT = 2
enum Color : uint3 {{
    {gap_in}COLOR_UNKNOWN = 0
    COLOR_RED = 1
}}
message Pen {{
    // doc
    Color color = 1{semi}
    Stamp[LIMIT] stamps = 2
    message Cap {{
        bool on = 1
        enum Kind : uint1 {{
            KIND_NONE = 0
        }}
    }}
    Cap cap = 3
}}
"""
EXPECT_BAD = [("bad_alias", "bad_alias"), ("badConst", "badConst"), ("bad_enum", "bad_enum"), ("bad_enum", "bad_enum"), ("bad_member", "bad_member"), ("bad_msg", "bad_msg"), ("BadField", "BadField"), ("over_indented", "over_indented")]


def work_cited(job: Tuple[str, str, str, str, bool]) -> Dict[str, Any]:
    from ..compile import load_plain_compiler

    lead, gap, gap_in, semi, imported = job
    res = _res(f"cited:{lead!r}{gap!r}{gap_in!r}{semi!r}{'imp' if imported else ''}")
    res["value_independent"] = 1
    load_plain_compiler()
    from bitproto.linter import lint
    from bitproto.parser import parse

    with Scratch() as sc:
        for kind, tmpl in (("bad", BAD), ("good", GOOD)):
            text = tmpl.format(lead=lead, gap=gap, gap_in=gap_in.replace("\n", "\n    ") if gap_in else "", semi=semi)
            fn = sc.path(f"{kind}.bitproto")
            with open(fn, "w") as f:
                f.write(text)
            target = fn
            if imported:  # the warnings of an imported file are reported when that file is linted itself
                main = sc.path(f"main_{kind}.bitproto")
                with open(main, "w") as f:
                    f.write(f'proto main_{kind}\nimport "{kind}.bitproto"\n')
                proto = parse(main)
                with contextlib.redirect_stderr(io.StringIO()) as err0:
                    n0 = lint(proto)
                res["obligations"] += 1
                if n0 != 0:
                    res["violations"].append(_v(res, f"linting the importing file reports {n0} warnings of the imported file: {err0.getvalue()[:200]}", {"main": open(main).read(), kind: text}))
            proto = parse(target)
            with contextlib.redirect_stderr(io.StringIO()) as err:
                n = lint(proto)
            warns = [l for l in err.getvalue().split("\n") if "warning" in l]
            res["paths"] += 1
            res["obligations"] += 1
            if kind == "good":
                if n != 0 or warns:
                    res["violations"].append(_v(res, f"style-conforming schema produces warnings: {warns[:3]}", {"good": text}))
                continue
            lines = text.split("\n")
            if n != len(warns):
                res["violations"].append(_v(res, f"lint() returned {n} but printed {len(warns)} warnings", {"bad": text}))
            for w in warns:
                res["obligations"] += 1
                m = re.search(r"(\S+):L(\d+) (\S+) =>", w)
                if not m:
                    res["violations"].append(_v(res, f"warning does not cite file:line name: {w}", {"bad": text}))
                    continue
                wf, wl, wn = m.group(1), int(m.group(2)), m.group(3)
                if not os.path.samefile(wf, target) or not (0 < wl <= len(lines)) or wn not in re.findall(r"\w+", lines[wl - 1]):
                    res["violations"].append(_v(res, f"warning cites {os.path.basename(wf)}:L{wl} for {wn!r}, but that line is {lines[wl - 1] if 0 < wl <= len(lines) else None!r}", {"bad": text}))
            got = sorted(re.search(r"L\d+ (\S+) =>", w).group(1) for w in warns if re.search(r"L\d+ (\S+) =>", w))
            want = sorted(nm for nm, _ in EXPECT_BAD)
            res["obligations"] += 1
            if got != want:
                res["violations"].append(_v(res, f"warned definitions {got} != expected {want}", {"bad": text}))
    res["samples"].append({"layout": res["case"], "value_independent": True})
    return res


def _v(res: Dict[str, Any], what: str, files: Dict[str, str]) -> Dict[str, Any]:
    return {"what": f"{res['case']}: {what}", "payload": {"kind": "lint", "files": files, "what": what}, "confirmed": True, "info": {"kind": "lint", "key": "lint"}}


# --------------------------------------------------------------------------- (c) check-only exit logic


class _Fatal(Exception):
    pass


# --------------------------------------------------------------------------- (b2) citations of errors raised by the LEXER, several imports
LEX_ERRORS = [("invalid-character", "const A = 1 @ 2"), ("bad-escape", 'const S = "a\\qb"'), ("width-out-of-range", "type W = uint65"), ("undefined-type", "message Z {\n    Missing m = 1\n}")]


def work_lexcite(job: Tuple[str, str, str]) -> Dict[str, Any]:
    """value-independent, real lexer + parser natively (my token sources cannot see this: they wire the file-name stacks
    themselves): an error in the file named on the command line, in the first and in the SECOND imported file cites that
    file and the line on which the offending text stands"""
    from ..compile import load_plain_compiler

    kind, bad, where = job
    res = _res(f"lexcite:{kind}:{where}")
    load_plain_compiler()
    from bitproto.errors import LexerError, ParserError
    from bitproto.parser import parse

    pad = "\n".join(f"const FILLER_{i} = {i}" for i in range(9))
    good = lambda name: f"proto {name}\n// a comment\n{pad}\nenum K_{name} : uint3 {{\n    K_{name.upper()}_0 = 0\n}}\n"
    files = {"first.bitproto": good("first"), "second.bitproto": good("second"), "main.bitproto": 'proto main\nimport "first.bitproto"\nimport "second.bitproto"\nmessage M {\n    first.K_first a = 1\n    second.K_second b = 2\n}\n'}
    target = {"root": "main.bitproto", "first": "first.bitproto", "second": "second.bitproto"}[where]
    lines = files[target].rstrip("\n").split("\n")
    lines.insert(min(len(lines), 5), bad)  # after the proto line and a few more: line 6..
    files[target] = "\n".join(lines) + "\n"
    bad_first_line = 6
    want_line = bad_first_line + (1 if kind == "undefined-type" else 0)
    with Scratch() as sc:
        for fn, text in files.items():
            open(sc.path(fn), "w").write(text)
        res["obligations"] += 1
        try:
            with contextlib.redirect_stderr(io.StringIO()):
                parse(sc.path("main.bitproto"))
            res["violations"].append({"what": f"{res['case']}: the invalid schema is accepted", "payload": {"kind": "lexcite", "files": files}, "confirmed": True, "info": {"kind": "cite", "key": "lexcite"}})
        except (LexerError, ParserError) as e:
            msg = str(e)
            m = re.search(r"(\S*?)([\w.]+\.bitproto)?:?L(\d+)", msg)
            cited_file = m.group(2) if m else None
            cited_line = int(m.group(3)) if m else None
            plain = re.sub(chr(27) + r"\[[0-9;]*m", "", msg).strip()[:160]
            if cited_file != target or cited_line != want_line:
                res["violations"].append({"what": f"{res['case']}: the error for {bad.splitlines()[-1].strip()!r} on line {want_line} of {target} cites {cited_file}:L{cited_line} ({plain})",
                                          "payload": {"kind": "lexcite", "files": files, "target": target, "line": want_line}, "confirmed": True, "info": {"kind": "cite", "key": "lexcite"}})
            elif len(res["samples"]) < 1:
                res["samples"].append({"case": res["case"], "cites": f"{cited_file}:L{cited_line}"})
        except Exception as e:
            res["inconclusive"].append(f"{res['case']}: {type(e).__name__}: {e} (C09's matter)")
    return res


def work_exit(job: Tuple[bool, bool]) -> Dict[str, Any]:
    from ..zc import zc

    parse_ok, disable = job
    res = _res(f"exit:parse_ok={parse_ok}:disable_linter={disable}")
    z = zc()
    M = z.mod("bitproto._main")
    cnt = z3.Int("lint_warnings")
    eng = Engine(max_paths=50)
    pysym.set_engine(eng)
    with Scratch() as sc:
        fn = sc.path("x.bitproto")
        with open(fn, "w") as f:
            f.write("proto x\nmessage M {\n    bool a = 1\n}\n" if parse_ok else "proto x\nmessage M {\n    uint65 a = 1\n}\n")
        calls = {"fatal": 0, "render": 0}

        def fatal(s: str = "", code: Any = 1) -> None:
            # process exit is environment; what the parent sees is the low 8 bits of the code (POSIX wait status)
            calls["fatal"] += 1
            calls["status"] = (ZInt.lift(code) if ZInt.lift(code) is not None else z3.IntVal(1)) % 256
            raise _Fatal()

        def h() -> Any:
            pysym.ENGINE.assume(cnt >= 0)
            calls["fatal"] = 0
            calls["render"] = 0
            calls["status"] = z3.IntVal(0)
            M.__dict__["fatal"] = fatal  # process exit is environment
            M.__dict__["lint"] = lambda proto: ZInt(cnt)
            M.__dict__["render"] = lambda *a, **k: calls.__setitem__("render", calls["render"] + 1)
            with contextlib.redirect_stderr(io.StringIO()):
                try:
                    M.main(fn, check=True, disable_linter=disable)
                except _Fatal:
                    return True
            return False

        try:
            for p in eng.explore(h):
                if p.exc is not None:
                    res["inconclusive"].append(f"{res['case']}: unexpected {type(p.exc).__name__}: {p.exc}")
                    continue
                exited = p.value
                want = z3.Or(z3.BoolVal(not parse_ok), z3.And(z3.BoolVal(not disable), cnt > 0))
                res["obligations"] += 2
                nonzero = (calls["status"] != 0) if exited else z3.BoolVal(False)
                r, model = p.holds(nonzero == want)
                if r == "sat":
                    c = model.eval(cnt, model_completion=True).as_long()
                    st = model.eval(calls["status"], model_completion=True).as_long() if exited else 0
                    res["violations"].append({"what": f"{res['case']}: check-only mode ends with exit status {st} with {c} warnings", "payload": {"kind": "exit", "count": c, "parse_ok": parse_ok, "disable_linter": disable},
                                              "confirmed": True, "info": {"kind": "exit", "key": "exit"}})
                elif r == "unknown":
                    res["inconclusive"].append(f"{res['case']}: unknown")
                if calls["render"]:
                    res["violations"].append({"what": f"{res['case']}: check-only mode rendered output", "payload": {"kind": "exit"}, "confirmed": True, "info": {"kind": "exit", "key": "exit"}})
            res["samples"].append({"exit_logic": res["case"], "paths": eng.stats["paths"]})
        except Inconclusive as e:
            res["inconclusive"].append(f"{res['case']}: {type(e).__name__}: {e}")
    for k in ("paths", "queries", "unsat", "sat", "unknown"):
        res[k] += eng.stats.get(k, 0)
    res["solver_s"] += eng.stats.get("solver_s", 0.0)
    return res


# --------------------------------------------------------------------------- (d) lint is advisory

ADV = [
    ("enum-order", "proto p\nenum E : uint5 {\n    B = {n:v1}\n    A = {x:v2}\n    C = {n:v3}\n}\nmessage M {\n    E e = 1\n    E[2] es = 2\n}\n"),
    ("field-order", "proto p\nmessage M {\n    bool z = {n:n1}\n    uint3 a = {n:n2}\n    int9 m = {n:n3}\n}\n"),
    ("consts", "proto p\nconst B = {n:a}\nconst A = B * {x:b} - 1\nmessage bad_name {\n    byte[3] BadField = 1\n}\n"),
    ("nested", "proto p\nmessage O {\n    enum K : uint3 {\n        K1 = {n:v1}\n        K0 = {n:v2}\n    }\n    message I {\n        K k = {n:n1}\n        bool b = {n:n2}\n    }\n    I[2] is_ = 1\n}\n"),
]


def work_advisory(job: Tuple[str, str]) -> Dict[str, Any]:
    """rendering before and after lint() in the same symbolic run gives identical text (terms
    compared for the symbolic literals), for all values of the holes"""
    from ..zc import Template, parse_text, zc

    name, ttext = job
    res = _res("advisory:" + name)
    z = zc()
    PE = z.errors.ParserError
    tm = Template(ttext)
    text, holes = tm.render()
    names = sorted({n for _, n in tm.names()})
    zv = {n: z3.Int(n) for n in names}
    syms = {n: ZInt(zv[n]) for n in names}
    eng = Engine(max_paths=300)
    pysym.set_engine(eng)
    R = [("c", z.mod("bitproto.renderer.impls.c.renderer_h").RendererCHeader), ("c", z.mod("bitproto.renderer.impls.c.renderer_c").RendererC), ("go", z.mod("bitproto.renderer.impls.go.renderer").RendererGo),
         ("py", z.mod("bitproto.renderer.impls.py.renderer").RendererPy)]
    with Scratch() as sc:
        main_ = sc.path("main.bitproto")
        with open(main_, "w") as f:
            f.write(text)

        def h() -> Any:
            for n in names:
                pysym.ENGINE.assume(z3.And(zv[n] >= 0, zv[n] < 256))
            proto = parse_text(text, holes, syms, filepath=main_)
            before = [r(proto, outdir=sc.dir).render_string() for _, r in R]
            with contextlib.redirect_stderr(io.StringIO()):
                z.mod("bitproto.linter").lint(proto)
            after = [r(proto, outdir=sc.dir).render_string() for _, r in R]
            return before, after

        try:
            for p in eng.explore(h):
                if p.exc is not None:
                    if not isinstance(p.exc, PE):
                        res["inconclusive"].append(f"{res['case']}: {type(p.exc).__name__}: {p.exc}")
                    continue
                before, after = p.value
                norm = lambda t: re.sub(r"⟦S\d+⟧", lambda m: "<" + str(z3.simplify(p.sentinels[m.group(0)])) + ">", t)
                res["obligations"] += len(before)
                for (lang, _), b, a in zip(R, before, after):
                    if norm(b) != norm(a):
                        wm = p.witness()
                        vals = {n: wm.eval(zv[n], model_completion=True).as_long() for n in names}
                        conf = _confirm_advisory(tm.concrete(vals), lang)
                        if conf is None:
                            res["inconclusive"].append(f"{res['case']}: output differs after lint in the symbolic run but not natively for {vals}")
                        else:
                            res["violations"].append({"what": f"{res['case']} {vals}: {lang} output differs with and without lint: {conf}", "payload": {"kind": "schema", "files": {"main.bitproto": tm.concrete(vals)}, "main": "main.bitproto", "lang": lang},
                                                      "confirmed": True, "info": {"kind": "advisory", "key": "advisory"}})
                        break
            res["samples"].append({"advisory": name, "paths": eng.stats["paths"]})
        except Inconclusive as e:
            res["inconclusive"].append(f"{res['case']}: {type(e).__name__}: {e}")
    for k in ("paths", "queries", "unsat", "sat", "unknown"):
        res[k] += eng.stats.get(k, 0)
    return res


def _confirm_advisory(text: str, lang: str) -> Optional[str]:
    from ..compile import compile_cli

    with Scratch() as sc:
        with open(sc.path("main.bitproto"), "w") as f:
            f.write(text)
        outs = []
        for flags in ([], ["-q"]):
            d = sc.path("out" + "".join(flags))
            os.makedirs(d)
            r = compile_cli(sc.dir, "main.bitproto", lang, d, flags)
            if r.returncode != 0:
                return f"compile failed with {flags}: {r.stderr[-200:]}"
            outs.append({fn: open(os.path.join(d, fn)).read() for fn in sorted(os.listdir(d))})
        if outs[0] != outs[1]:
            fn = next(f for f in outs[0] if outs[0][f] != outs[1].get(f))
            a, b = outs[0][fn].split("\n"), outs[1][fn].split("\n")
            i = next(i for i in range(min(len(a), len(b))) if a[i] != b[i])
            return f"{fn} line {i + 1}: {a[i]!r} (lint on) vs {b[i]!r} (-q)"
    return None


def main() -> int:
    from .agg import run_parts

    q = tier() == "quick"
    nsc = len(scenarios())
    lay_jobs = []
    for si in range(nsc):
        big = scenarios()[si][0] == "nested+references"
        for one in (False, True):
            for first in (True, False):
                if big:
                    lay_jobs += [(si, one, first, "none")] + ([(si, one, first, "conforming")] if not one else [])
                else:
                    lay_jobs.append((si, one, first, "free"))
    cited = [(lead, gap, gin, semi, imp) for lead in ("", "\n", "\n\n// c\n") for gap in ("", "\n", "\n\n") for gin in ("", "\n") for semi in ("", ";") for imp in (False, True)]
    if q:
        cited = cited[::3]
    exits = [(a, b) for a in (True, False) for b in (True, False)]
    from . import c08

    parts = [("symbolic-layout", work_layout, lay_jobs), ("cited-lines", work_cited, cited), ("check-only-exit", work_exit, exits), ("lint-is-advisory", work_advisory, ADV),
             ("parser-error-citations", c08.work, c08.catalogue()),
             ("lexer-error-citations", work_lexcite, [(k, b, w) for k, b in LEX_ERRORS for w in ("root", "first", "second")])]  # every ParserError of the C08 templates cites the offending file and line, for all hole values
    meta = {
        "functions_encoded": FILES,
        "bounds": "(a) 4 scenarios covering every definition kind (option, alias, typedef, const, enum, enum field, message, message field, nested enum/message) and references to types and constants at depth <= 2, each multi-line and on one physical line, starting on line 1 or later; line numbers, line-start offsets, columns and enum values symbolic (unbounded); runs of blank lines abstracted by one NEWLINE token; (b) 2 schemas x enumerated layouts (leading blank/comment lines, gaps, semicolons, imported) through the real lexer; (c) check-only exit logic for every warning count >= 0",
        "outside_claim": "which *names* the naming rules accept (character-level string code: case converters, regexes); `lint never changes acceptance or output` beyond the 4 templates of part (d) (rendering before and after lint() in one symbolic run, all values of enum values / field numbers / constants); indent of a definition on line 1 (the code reports column-1 there; the property only speaks of line and column of the name)",
        "explanation": "(a) the real grammar actions run on synthetic tokens with symbolic positions; z3 proves lineno == line of the name token and token_col_start == its 1-based column (the convention the language server documents), brace positions, indent == column offset, indent rule silent at 4*depth and firing on a wrong positive indent, enum-zero rule <=> no member is 0",
        "evaluations": len(lay_jobs) + len(cited) + len(exits),
        "distinct_nontrivial": len(lay_jobs) + len(exits),
        "rule": "one evaluation = one scenario/layout class explored along all paths; cited-lines layouts are value-independent",
    }
    return run_parts(PROP, "other", parts, meta, ["z3 decides linear integer queries", "p_newline is idempotent over runs of blank lines (read off the code: it clears the comment block and overwrites last_newline_pos)", "1-based columns are the intended convention (editors/language_server documents it; the code implements it on every line but the first)"])


def replay(path: str) -> int:
    import json

    p = json.load(open(path))
    print(json.dumps(p, indent=1)[:1500])
    return 1
