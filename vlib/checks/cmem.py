"""C parts of C07: (b) memory containment is the interpreter's bounds check on every access of
every run (output buffer of exactly BYTES_LENGTH bytes, struct of exactly sizeof bytes);
(c) arbitrary storage contents of integer fields: bits a field contributes depend on its low
n bits only (standard and optimization mode)."""
from __future__ import annotations

from typing import Any, List, Tuple

from ..families import is_extensible_case
from . import cenc
from .cenc import Cfg


def parts(shape: List[Any], grid: List[Any], q: bool) -> List[Tuple[str, Any, List[Any]]]:
    std = [Cfg("O0", "x86_64"), Cfg("O2", "x86_64", True)]
    opm = [Cfg("O2", "x86_64", False, (), True, "both"), Cfg("O2", "x86_64", False, ("BP_BIG_ENDIAN",), True, "both", False)]
    g = grid[::6] if q else grid[::2]
    cases = [c for c in shape if "large" not in c.tags] + g
    trad = [c for c in cases if not is_extensible_case(c)]
    if q:
        return [("c-standard-arbitrary-storage+bounds", cenc.work, [(c, [std[i % 2]], ("storage", "decode")) for i, c in enumerate(cases)]),
                ("c-optimization-arbitrary-storage+bounds", cenc.work, [(c, [opm[i % 2]], ("storage", "decode")) for i, c in enumerate(trad)])]
    return [("c-standard-arbitrary-storage+bounds", cenc.work, [(c, [cfg], ("storage", "decode")) for c in cases for cfg in std]),
            ("c-optimization-arbitrary-storage+bounds", cenc.work, [(c, [cfg], ("storage", "decode")) for c in trad for cfg in opm])]
