"""C19 Go standard-mode output describes the same messages as the Python output (E3 + E1)."""
from __future__ import annotations

import os
from typing import Any, Dict, List, Tuple

import z3

from .. import gosym, pysym
from ..common import REPO, Inconclusive, seed, tier
from ..families import f_grid, f_shape
from ..gort import GOLIB, GOLIB_PATH
from ..gosym import BASIC, Interp, V
from ..pysym import BVInt, Engine, SymBool, SymLoader
from . import goenc
from .agg import run_parts

PROP = "C19"


def _res(name: str) -> Dict[str, Any]:
    return {"case": name, "messages": 1, "leaves": 0, "paths": 0, "queries": 0, "unsat": 0, "sat": 0, "unknown": 0, "solver_s": 0.0, "merges": 0, "witness": 0, "witness_agree": 0,
            "violations": [], "inconclusive": [], "samples": [], "obligations": 0}


def work_helper(name: str) -> Dict[str, Any]:
    """Go helper term == Python helper term on the whole domain"""
    res = _res("helper:" + name)
    I = Interp()
    pkg = I.load(GOLIB, GOLIB_PATH)
    pysym.set_domain("BV")
    bp = SymLoader("BV", {"bitprotolib": os.path.join(REPO, "lib", "py", "bitprotolib")}).load("bitprotolib.bp")
    INT = BASIC["int"]
    W = pysym.W
    k, c, sh, i, j, n, a, b = [z3.BitVec(x, 64) for x in ("k", "c", "sh", "i", "j", "n", "a", "b")]
    nb = z3.BitVec("nbyte", 8)
    bb = z3.Bool("bflag")
    py = lambda x: BVInt(z3.SignExt(W - 64, x), 64, False)
    pyb = lambda x: BVInt(z3.ZeroExt(W - 8, x), 9, True)
    gov = lambda x: V(INT, x)
    spec: Dict[str, Any] = {
        "getMask": ([z3.And(k >= 0, k <= 7, c >= 0, c <= 8)], lambda: I.call(pkg.scope["getMask"], [gov(k), gov(c)]), lambda: bp.get_mask(py(k), py(c)), 64),
        "smartShift": ([z3.And(sh >= -7, sh <= 7)], lambda: I.call(pkg.scope["smartShift"], [V(BASIC["uint8"], nb), gov(sh)]), lambda: bp.smart_shift(pyb(nb), py(sh)) & 255, 8),
        "getNbitsToCopy": ([z3.And(j >= 0, j < n, n <= 64, i >= 0, i < 2 ** 31)], lambda: I.call(pkg.scope["getNbitsToCopy"], [gov(i), gov(j), gov(n)]), lambda: bp.get_nbits_to_copy(py(i), py(j), py(n)), 64),
        "min": ([], lambda: I.call(pkg.scope["min"], [gov(a), gov(b)]), lambda: pysym.sym_minmax("min")(py(a), py(b)), 64),
        "Bool2byte": ([], lambda: I.call(pkg.scope["Bool2byte"], [V(BASIC["bool"], bb)]), lambda: BVInt.from_bool(SymBool(bb)), 8),
        "Byte2bool": ([], lambda: I.call(pkg.scope["Byte2bool"], [V(BASIC["uint8"], nb)]), lambda: pysym.sym_bool(pyb(nb)), 1),
    }
    pre, gof, pyf, bits = spec[name]
    eng = Engine(max_paths=2000, max_conc=64)
    pysym.set_engine(eng)

    def h() -> Any:
        for p in pre:
            pysym.ENGINE.assume(p)
        return gof(), pyf()

    try:
        for p in eng.explore(h):
            if p.exc is not None:
                raise Inconclusive(f"{type(p.exc).__name__}: {p.exc}")
            g, y = p.value
            if bits == 1:
                ge = g.v if gosym.is_sym(g.v) else z3.BoolVal(bool(g.v))
                ye = y.e if isinstance(y, SymBool) else z3.BoolVal(bool(y))
                phi = ge == ye
            else:
                gt = g.v if gosym.is_sym(g.v) else z3.BitVecVal(g.v, bits)
                u = gosym.under(g.t)
                ge = z3.SignExt(W - bits, gt) if getattr(u, "signed", False) else z3.ZeroExt(W - bits, gt)
                ye = BVInt.lift(y).e
                phi = ge == ye
            res["obligations"] += 1
            r, model = p.holds(phi)
            if r == "sat":
                res["violations"].append({"what": f"Go {name} differs from the Python helper at {model}", "payload": {"kind": "helper", "helper": name, "model": str(model)}, "confirmed": False, "info": {"kind": "helper", "key": ""}})
            elif r == "unknown":
                res["inconclusive"].append(f"{name}: unknown")
        res["samples"].append({"helper": name, "paths": eng.stats["paths"], "verdict": "unsat on every path"})
    except Inconclusive as e:
        res["inconclusive"].append(f"helper {name}: {type(e).__name__}: {e}")
    for kk in ("paths", "queries", "unsat", "sat", "unknown"):
        res[kk] += eng.stats.get(kk, 0)
    res["solver_s"] += eng.stats.get("solver_s", 0.0)
    if res["paths"] == 0 and not res["inconclusive"]:
        res["inconclusive"].append(f"helper {name}: vacuous")
    return res


def main() -> int:
    q = tier() == "quick"
    shape = [c for c in f_shape(q, seed()) if "large" not in c.tags or not q]
    grid = f_grid(True)
    cases = shape + (grid[::6] if q else grid)
    parts = [("go-standard-vs-reference", goenc.work, [(c, False, ("encode", "decode")) for c in cases]),
             ("helpers-go-vs-python", work_helper, ["getMask", "smartShift", "getNbitsToCopy", "min", "Bool2byte", "Byte2bool"])]
    meta = {
        "functions_encoded": goenc.GO_FILES + ["lib/py/bitprotolib/bp.py"],
        "bounds": "F_shape (+seeded random tail) and a slice of F_grid in Go standard mode: Encode() == specified bytes (== Python, C01), Decode() of the specified bytes == the values (sign-extended), Size() == ceil(N/8), every struct field is declared with exactly the smallest covering Go integer type of the right signedness (value-independent); helpers getMask / smartShift / getNbitsToCopy / min / Bool2byte / Byte2bool equal the Python helpers for all k in 0..7, c in 0..8, byte n, shift -7..7, 0 <= j < n <= 64, 0 <= i < 2^31 (Go's 64-bit wrap-around excluded by equality with Python's unbounded result)",
        "outside_claim": "String()/encoding-json; the JSON tags; everything is interpreter-only: there is no Go toolchain, a Go counterexample is re-run concretely through the same interpreter and compared with the reference/Python",
        "explanation": "behavioural equivalence subsumes the structural clauses that matter for the wire: a wrong case label, index depth, conversion type, missing or superfluous sign extension, wrong field number, width, capacity or extensible flag changes some byte for some value and is found as a model",
    }
    return run_parts(PROP, "translation_validation", parts, meta, ["z3 decides QF_BV", "my Go-subset interpreter implements the Go spec for the constructs executed (validated only against the reference/Python on extreme values; fails closed on anything outside the subset)"])


def replay(path: str) -> int:
    import json

    p = json.load(open(path))
    print(json.dumps({k: p[k] for k in p if k != "files"}, indent=1)[:1200])
    return 1
