"""C12 The wire format depends only on field numbers and resolved types (differential)."""
from __future__ import annotations

from ..common import seed, tier
from ..families import f_rw
from . import pyrw
from .agg import run_parts
from .pycommon import RUNTIME_FILES

PROP = "C12"


def main() -> int:
    q = tier() == "quick"
    rw = f_rw(q, seed())
    parts = [("python", pyrw.work, rw)]
    try:
        from . import crw

        parts.append(("c", crw.work, crw.select(rw, q)))
    except ImportError:
        pass
    meta = {
        "functions_encoded": RUNTIME_FILES,
        "bounds": "F_rw: the rewrites of the property (rename, reorder field declarations, reorder independent definitions, introduce / inline alias, nest / hoist a definition, move definitions into an imported file, comments+whitespace+semicolons, literal -> constant expression, order-preserving renumbering), each applied alone to ~20 base schemas (+seeded random bases) and in seeded compositions of 2-3; all values",
        "outside_claim": "rewrites applied to schemas outside the bases; compositions longer than 3",
        "explanation": "both generated encoders run symbolically on corresponding leaves (shared solver variables); obligation: equal length and equal bytes; no reference model involved",
        "stubs": ["as C01 (Python)"],
    }
    return run_parts(PROP, "translation_validation", parts, meta, ["z3 decides QF_BV", "leaf correspondence of a rewrite is positional in wire order (my own layout model must agree on both sides, else inconclusive)"])


def replay(path: str) -> int:
    import json

    p = json.load(open(path))
    if p.get("kind") == "c-rw" and "struct_a" in p:
        from . import crw

        return crw.replay(p)
    print(json.dumps({k: p[k] for k in ("pair", "rewrites", "native_a", "native_b") if k in p}, indent=1)[:800])
    return 1
