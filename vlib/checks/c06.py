"""C06 The wire is little-endian whatever the host byte order (E2 on true big-endian IR)."""
from __future__ import annotations

from ..common import seed, tier
from ..families import f_grid, f_shape
from . import cenc
from .agg import run_parts
from .cenc import Cfg

PROP = "C06"


def main() -> int:
    q = tier() == "quick"
    shape = f_shape(q, seed())
    trad = [c for c in f_shape(q, seed(), traditional=True)]
    grid = f_grid(q)
    # (forcing -DBP_BIG_ENDIAN on the little-endian host is NOT a valid configuration for the runtime library as a
    # whole: its own 16-bit prefixes and sign handling use native integers; it is used only to replay / validate
    # unsigned, prefix-free messages natively, see cenc._native)
    std_cfgs = [Cfg("O0", "s390x", False), Cfg("O2", "s390x", False), Cfg("O2", "s390x", True), Cfg("O2", "ppc64", False), Cfg("O1", "mips64", False)]  # thorough: two more big-endian data layouts
    if q:
        std_cfgs = [Cfg("O2", "s390x", False), Cfg("O0", "s390x", True)]
    # toolchains that announce big-endian without __BYTE_ORDER__ (ACLE Arm, legacy TI ARM CGT, generic __BIG_ENDIAN__): the
    # runtime library must still select its big-endian paths from the other macros of its detection list
    legacy = [Cfg("O2", "s390x", False, ("U:__BYTE_ORDER__", m)) for m in ("__big_endian__", "__ARM_BIG_ENDIAN", "__BIG_ENDIAN__")]
    legacy = legacy[:1] if q else legacy
    op_cfgs = [Cfg("O2", "s390x", False, (), True, "both"), Cfg("O2", "x86_64", False, ("BP_BIG_ENDIAN",), True, "both", False), Cfg("O2", "s390x", False, (), True, "big")]
    if not q:
        op_cfgs += [Cfg("O2", "ppc64", False, (), True, "both"), Cfg("O0", "mips64", False, (), True, "big")]
    gsel = grid[::3] if q else grid
    jobs_rt = [(c, [cfg], ("encode", "decode")) for c in shape + gsel for cfg in (std_cfgs if "large" not in c.tags else std_cfgs[:1])]
    jobs_rt += [(c, [cfg], ("encode", "decode")) for c in [x for x in shape + gsel if "large" not in x.tags][::(6 if q else 2)] for cfg in legacy]
    jobs_op = [(c, [cfg], ("encode", "decode")) for c in trad + gsel[::2] for cfg in (op_cfgs if "large" not in c.tags else op_cfgs[:1])]
    meta = {
        "functions_encoded": cenc.C_FILES,
        "configurations": [c.name() for c in std_cfgs + op_cfgs],
        "bounds": "runtime library lowered by clang 14 for s390x-linux-gnu (datalayout E-..., __BYTE_ORDER__ auto-detection fires); struct storage holds every field in big-endian byte order; the same specified (little-endian) wire bytes are the oracle; (width x offset x storage size) grid for base types and array elements from F_grid" + (" (slice)" if q else " (complete)") + ", F_shape for the rest; -O0 and -O2; -O output: big-endian branch on s390x and forced on x86-64",
        "outside_claim": "other big-endian ABIs (clang's s390x data layout; thorough adds powerpc64 and mips64); the s390x IR cannot be run natively here: it rests on the interpreter that is validated natively on x86-64 (incl. the forced -DBP_BIG_ENDIAN build on hand-laid big-endian storage)",
        "explanation": "obligations are those of C03/C04 with the same specified bytes: exercises the auto-detection macros, BpBaseTypeStorageSize, the staging-buffer reversal, the disabled fast paths, the per-element array loop and the 16-bit prefixes",
    }
    return run_parts(PROP, "translation_validation", [("be-runtime", cenc.work, jobs_rt), ("be-optimization-mode", cenc.work, jobs_op)], meta, ["z3 decides QF_BV", "IR interpreter core validated on x86-64"])


def replay(path: str) -> int:
    return cenc.replay_main(path)
