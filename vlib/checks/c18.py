"""C18 kernel: the one clause of determinism that has a value quantifier reachable by symbolic
execution -- `independent of ... whether other schemas were compiled earlier in the same
process` (and, with C20d, of whether linting is enabled): in ONE symbolic run the real compiler
compiles schema A, then a different schema B that re-uses A's names with other values, then A
again (and lints in between); the first and the third output of A must be identical text with
identical terms for every symbolic literal, for all values of the holes of A and B."""
from __future__ import annotations

import contextlib
import io
import re
from typing import Any, Dict, List, Tuple

import z3

from .. import pysym
from ..common import Inconclusive, Scratch, tier
from ..pysym import Engine, ZInt

PROP = "C18"
PAIRS = [
    ("consts+enum",
     "// Schema A: header comment, first line.\n// Second line of the header comment.\nproto a\nconst N = {n:a1}\nconst F = true\nconst S = \"s\"\nenum E : uint5 {\n    X = {n:a2}\n    Y = {x:a3}\n}\nmessage M {\n    byte[N] raw = 1\n    E e = {n:a4}\n    bool b = {n:a5}\n}\n",
     "proto a\nconst N = {n:b1}\nconst F = false\nconst S = \"t\"\nenum E : uint5 {\n    X = {n:b2}\n    Y = {x:b3}\n}\nmessage M {\n    byte[N] raw = 1\n    E e = {n:b4}\n    bool b = {n:b5}\n}\n"),
    ("nested+arrays",
     "// Leading comment of A\nproto a\n// doc of Row\ntype Row = int9[3]\nmessage O {\n    message I {\n        Row r = {n:a2}\n        uint3 u = {n:a3}\n    }\n    I[{n:a4}]' is_ = 1\n    I one = 2\n}\n",
     "proto a\ntype Row = int9[{n:b1}]'\nmessage O' {\n    message I {\n        Row r = {n:b2}\n        uint3 u = {n:b3}\n    }\n    I[2] is_ = 1\n    I one = 2\n}\n"),
    ("bool-vs-int-constants",
     "proto a\nconst T = true\nconst ONE = {n:a1}\nconst Z = {n:a2}\nconst NO = false\n",
     "proto a\nconst ONE = {n:b1}\nconst T = false\nconst NO = true\nconst Z = {n:b2}\n"),
]


def work(job: Tuple[str, str, str, str, str]) -> Dict[str, Any]:
    """mode: nolint | lint (lint before every rendering) | lint-vs-q (render, lint the same tree, render again: -q must
    not matter); order: fwd | rev (the order in which the target languages are rendered within the process)"""
    from ..zc import Template, parse_text, zc

    name, ta, tb, mode, order = job
    res = {"case": f"{name}:{mode}:{order}", "messages": 1, "leaves": 0, "paths": 0, "queries": 0, "unsat": 0, "sat": 0, "unknown": 0, "solver_s": 0.0, "merges": 0, "witness": 0, "witness_agree": 0,
           "violations": [], "inconclusive": [], "samples": [], "obligations": 0}
    z = zc()
    PE = z.errors.ParserError
    A, B = Template(ta), Template(tb)
    texta, ha = A.render()
    textb, hb = B.render()
    names = sorted({n for _, n in A.names()} | {n for _, n in B.names()})
    zv = {n: z3.Int(n) for n in names}
    syms = {n: ZInt(zv[n]) for n in names}
    R = [("c.h", z.mod("bitproto.renderer.impls.c.renderer_h").RendererCHeader), ("c.c", z.mod("bitproto.renderer.impls.c.renderer_c").RendererC), ("go", z.mod("bitproto.renderer.impls.go.renderer").RendererGo),
         ("py", z.mod("bitproto.renderer.impls.py.renderer").RendererPy)]
    if order == "rev":
        R = R[::-1]
    eng = Engine(max_paths=400)
    pysym.set_engine(eng)
    with Scratch() as sc:
        fa, fb = sc.path("a.bitproto"), sc.path("b", "a.bitproto")
        import os

        os.makedirs(sc.path("b"))
        open(fa, "w").write(texta)
        open(fb, "w").write(textb)

        def lint(proto: Any) -> None:
            with contextlib.redirect_stderr(io.StringIO()):
                z.mod("bitproto.linter").lint(proto)

        def comp(text: str, holes: Any, fp: str) -> Tuple[List[str], List[str]]:
            proto = parse_text(text, holes, syms, filepath=fp)
            if mode == "lint":
                lint(proto)
            first = [r(proto, outdir=sc.dir).render_string() for _, r in R]
            if mode != "lint-vs-q":
                return first, first
            lint(proto)
            return first, [r(proto, outdir=sc.dir).render_string() for _, r in R]

        def h() -> Any:
            for n in names:
                pysym.ENGINE.assume(z3.And(zv[n] >= 0, zv[n] < 200))
            first, relint = comp(texta, ha, fa)
            try:
                comp(textb, hb, fb)
            except PE:
                pass  # B may be rejected for some values: it still ran before A's second compilation
            third, _ = comp(texta, ha, fa)
            return first, relint, third

        try:
            fresh_done = 0
            for p in eng.explore(h):
                if p.exc is not None:
                    if not isinstance(p.exc, PE):
                        res["inconclusive"].append(f"{res['case']}: {type(p.exc).__name__}: {p.exc}")
                    continue
                first, relint, third = p.value
                norm = lambda t: re.sub(r"⟦S\d+⟧", lambda m: "<" + str(z3.simplify(p.sentinels[m.group(0)])) + ">", t)
                vals: Dict[str, int] = {}

                def witness() -> Dict[str, int]:
                    if not vals:
                        wm = p.witness()
                        vals.update({n: wm.eval(zv[n], model_completion=True).as_long() for n in names})
                    return vals

                for (lang, _), x, y, w in zip(R, first, third, relint):
                    res["obligations"] += 2
                    for other, what, kind in ((y, "after schema B was compiled in the same process", "history"), (w, "once the linter has looked at the schema (i.e. without -q)", "lint")):
                        if norm(x) == norm(other):
                            continue
                        v = witness()
                        conf = _confirm(A.concrete(v), B.concrete(v), lang, kind)
                        lx, ly = norm(x).split("\n"), norm(other).split("\n")
                        i = next((i for i in range(min(len(lx), len(ly))) if lx[i] != ly[i]), 0)
                        if conf:
                            res["violations"].append({"what": f"{res['case']} {v}: {lang} output of schema A differs {what}: {conf}", "payload": {"kind": kind, "a": A.concrete(v), "b": B.concrete(v), "lang": lang},
                                                      "confirmed": True, "info": {"kind": kind, "key": kind}})
                        else:
                            res["inconclusive"].append(f"{res['case']}: {lang} output differs in the symbolic run {what} (line {i + 1}: {lx[i][:50]!r} vs {ly[i][:50]!r}) but not natively for {v}")
                        break
                    else:
                        continue
                    break
                # the FIRST rendering in this (fresh) worker process already has a history: the other target languages were
                # rendered before it, in this job's order.  Its text, literals instantiated by the path's witness, must be
                # what a fresh process that renders only this language writes.
                if fresh_done < FRESH_PER_JOB:
                    fresh_done += 1
                    v = witness()
                    conc = lambda t: re.sub(r"⟦S\d+⟧", lambda m: str(p.witness().eval(p.sentinels[m.group(0)], model_completion=True)), t)
                    for (lang, _), x in zip(R, first):
                        ref = _fresh(A.concrete(v), lang)
                        res["obligations"] += 1
                        res["witness"] += 1
                        if ref is None:
                            res["inconclusive"].append(f"{res['case']}: no native reference for {lang} {v}")
                            continue
                        if conc(x) == ref:
                            res["witness_agree"] += 1
                            continue
                        lx, ly = conc(x).split("\n"), ref.split("\n")
                        i = next((i for i in range(min(len(lx), len(ly))) if lx[i] != ly[i]), 0)
                        conf = _confirm_order(A.concrete(v), [l for l, _ in R], lang)
                        if conf:
                            res["violations"].append({"what": f"{res['case']} {v}: {lang} output depends on which target languages were rendered earlier in the process ({[l for l, _ in R]}): {conf}",
                                                      "payload": {"kind": "order", "a": A.concrete(v), "order": [l for l, _ in R], "lang": lang}, "confirmed": True, "info": {"kind": "order", "key": "order"}})
                        else:
                            res["inconclusive"].append(f"{res['case']}: {lang} text of the symbolic run differs from a fresh native process (line {i + 1}: {lx[i][:60]!r} vs {ly[i][:60]!r}) but the native history run does not")
            res["samples"].append({"history": f"render {[l for l, _ in R]} of A; compile B; compile A", "pair": res["case"], "paths": eng.stats["paths"]})
        except Inconclusive as e:
            res["inconclusive"].append(f"{res['case']}: {type(e).__name__}: {e}")
    for k in ("paths", "queries", "unsat", "sat", "unknown"):
        res[k] += eng.stats.get(k, 0)
    if res["paths"] == 0 and not res["inconclusive"]:
        res["inconclusive"].append(f"{res['case']}: vacuous")
    return res


FRESH_PER_JOB = 2

NATIVE = r'''
import sys, os, json
sys.path.insert(0, sys.argv[1])
from bitproto.parser import parse
from bitproto.renderer import render
from bitproto.linter import lint
import contextlib, io
d = sys.argv[2]; mode = sys.argv[3]; langs = sys.argv[4].split(",")
def comp(f, out, lang, do_lint=False, proto=None):
    os.makedirs(out, exist_ok=True)
    try:
        proto = proto or parse(f)
        if do_lint:
            with contextlib.redirect_stderr(io.StringIO()):
                lint(proto)
        render(proto, lang, outdir=out)
    except Exception as e:
        return None
    return {fn: open(os.path.join(out, fn)).read() for fn in sorted(os.listdir(out))}
A = os.path.join(d, "a.bitproto")
if mode == "history":
    a1 = comp(A, os.path.join(d, "o1"), langs[0])
    comp(os.path.join(d, "b", "a.bitproto"), os.path.join(d, "o2"), langs[0])
    a3 = comp(A, os.path.join(d, "o3"), langs[0])
    print(json.dumps({"same": a1 == a3}))
elif mode == "order":
    outs = {}
    for i, l in enumerate(langs):
        outs[l] = comp(A, os.path.join(d, "o%d" % i), l)
    print(json.dumps(outs))
'''


def _native(files: Dict[str, str], mode: str, langs: List[str]) -> Any:
    import json
    import os
    import subprocess

    from ..common import REPO, VENV_PY

    with Scratch() as sc:
        for fn, text in files.items():
            os.makedirs(os.path.dirname(sc.path(fn)), exist_ok=True)
            open(sc.path(fn), "w").write(text)
        r = subprocess.run([VENV_PY, "-c", NATIVE, os.path.join(REPO, "compiler"), sc.dir, mode, ",".join(langs)], capture_output=True, text=True, timeout=120)
        if r.returncode:
            return None
        return json.loads(r.stdout)


def _cli(text: str, lang: str, quiet: bool) -> Any:
    "the real command line, one process, with or without -q; returns {file name: content} or None"
    import os

    from ..compile import compile_cli

    with Scratch() as sc:
        open(sc.path("a.bitproto"), "w").write(text)
        if compile_cli(sc.dir, "a.bitproto", lang, sc.path("out"), ["-q"] if quiet else []).returncode != 0:
            return None
        return {fn: open(sc.path("out", fn)).read() for fn in sorted(os.listdir(sc.path("out")))}


_EXT = {"c.h": ("c", "a_bp.h"), "c.c": ("c", "a_bp.c"), "go": ("go", "a_bp.go"), "py": ("py", "a_bp.py")}


def _fresh(ta: str, lang: str) -> Any:
    "what a fresh process that compiles only A for only this language writes"
    L, fn = _EXT[lang]
    o = _cli(ta, L, True)
    return None if o is None else o.get(fn)


def _confirm(ta: str, tb: str, lang: str, kind: str = "history") -> str:
    "native: (history) one process compiles A, B, A; (lint) the command line with and without -q"
    L, fn = _EXT[lang]
    if kind == "lint":
        q, nq = _cli(ta, L, True), _cli(ta, L, False)
        if q is not None and nq is not None and q != nq:
            return "the files written with and without -q differ"
        return ""
    o = _native({"a.bitproto": ta, "b/a.bitproto": tb}, "history", [L])
    if o is not None and not o["same"]:
        return "first and third compilation of A differ within one process"
    return ""


def _confirm_order(ta: str, order: List[str], lang: str) -> str:
    "native: one process renders A for the languages in the given order; compare with a fresh process per language"
    L, fn = _EXT[lang]
    langs = []
    for l in order:
        if _EXT[l][0] not in langs:
            langs.append(_EXT[l][0])
    o = _native({"a.bitproto": ta}, "order", langs)
    ref = _cli(ta, L, True)
    if o is None or ref is None or o.get(L) is None:
        return ""
    if o[L].get(fn) != ref.get(fn):
        return f"{fn} written after {langs[:langs.index(L)]} in the same process differs from the one a fresh process writes"
    return ""


# ---- supporting concrete observation of the clauses that have no value quantifier (process, hash seed, directories, -q)
OBS_SCHEMAS = {
    "vehicle": {
        "vehicle.bitproto": '// A vehicle.\nproto vehicle\nimport "geometry.bitproto"\nimport pw "power.bitproto"\nimport "clock.bitproto"\n\nconst WHEELS = 2 * 2\n\nenum Gear : uint3 {\n    GEAR_NEUTRAL = 0\n    GEAR_ONE = 1\n    GEAR_REVERSE = 5\n}\n\n'
                            "message Vehicle' {\n    message Wheel {\n        enum Side : uint1 {\n            SIDE_LEFT = 0\n            SIDE_RIGHT = 1\n        }\n        Side side = 1\n        uint11 rpm = 2\n    }\n"
                            "    geometry.Point position = 1\n    pw.Battery battery = 2\n    clock.Stamp seen = 3\n    Wheel[WHEELS] wheels = 4\n    Gear gear = 5\n    geometry.Point[2]' track = 6\n}\n",
        "geometry.bitproto": "proto geometry\nmessage Point {\n    int20 x = 1\n    int20 y = 2\n}\n",
        "power.bitproto": "proto power\nenum Cell : uint2 {\n    CELL_UNKNOWN = 0\n    CELL_LION = 1\n}\nmessage Battery {\n    Cell cell = 1\n    uint7 percent = 2\n}\n",
        "clock.bitproto": "proto clock\ntype Stamp = int48\n",
    },
    # file stems that differ from the proto names they declare, several enum-typed fields per message, aliases, an option
    "fleet_v2": {
        "fleet_v2.bitproto": 'proto fleet\nimport "kinds_v1.bitproto"\ntype Id = uint24\ntype Tags = byte[3]\n'
                             "enum Role : uint2 {\n    ROLE_NONE = 0\n    ROLE_LEAD = 1\n    ROLE_TAIL = 2\n}\nenum Mode : uint4 {\n    MODE_OFF = 0\n    MODE_ON = 9\n}\n"
                             "message Member {\n    Role role = 1\n    Mode mode = 2\n    kinds.Kind kind = 3\n    Role[3] history = 4\n    Id id = 5\n    Tags tags = 6\n    Mode fallback = 7\n}\n"
                             "message Fleet {\n    option max_bytes = 64\n    message Slot {\n        Role r = 1\n        Mode m = 2\n        bool free = 3\n    }\n    Member[4] members = 1\n    Role lead = 2\n    Mode mode = 3\n    Slot[2] slots = 4\n}\n",
        "kinds_v1.bitproto": "proto kinds\nenum Kind : uint5 {\n    KIND_UNKNOWN = 0\n    KIND_A = 17\n}\n",
    },
}


def work_process(job: Tuple[str, str]) -> Dict[str, Any]:
    """The same schema files with the same options through the real command line in fresh processes that differ in
    PYTHONHASHSEED, working directory, relative / absolute schema path, output directory and -q: every output file must
    be byte-identical.  No symbolic variable -- these clauses quantify over runs, so runs are what is observed."""
    import hashlib
    import os
    import subprocess

    from ..common import REPO, VENV_PY

    name, lang = job
    res = {"case": f"process:{name}:{lang}", "messages": 1, "leaves": 0, "paths": 0, "queries": 0, "unsat": 0, "sat": 0, "unknown": 0, "solver_s": 0.0, "merges": 0, "witness": 0, "witness_agree": 0,
           "violations": [], "inconclusive": [], "samples": [], "obligations": 0}
    files = OBS_SCHEMAS[name]
    main = name + ".bitproto"
    with Scratch() as sc:
        src = sc.path("src")
        os.makedirs(src)
        for fn, text in files.items():
            open(os.path.join(src, fn), "w").write(text)

        def run_one(tag: str, seed_: str, cwd: str, path: str, quiet: bool, prefill: Any = None) -> Any:
            out = sc.path("out_" + tag)
            os.makedirs(out, exist_ok=True)
            for f in (prefill or []):  # the output directory was used before: longer files of the same names are in the way
                open(os.path.join(out, f), "w").write("/* stale */\n" * 20000)
            digests = {}
            for fn in files:  # every file of the import graph, as a build would
                p = os.path.join(os.path.dirname(path), fn) if os.path.dirname(path) else fn
                cmd = [VENV_PY, "-m", "bitproto._main", lang, p, out] + (["-q"] if quiet else [])
                r = subprocess.run(cmd, capture_output=True, text=True, timeout=120, cwd=cwd, env={"PYTHONPATH": os.path.join(REPO, "compiler"), "PYTHONHASHSEED": seed_, "PATH": os.environ.get("PATH", "")})
                if r.returncode != 0:
                    return f"exit {r.returncode}: {r.stderr[-200:]}"
            for f in sorted(os.listdir(out)):
                digests[f] = hashlib.sha256(open(os.path.join(out, f), "rb").read()).hexdigest()
            return digests

        ref = run_one("ref", "0", src, main, True)
        if not isinstance(ref, dict):
            res["inconclusive"].append(f"{res['case']}: reference run failed: {ref}")
            return res
        # the same files once more under a directory whose name contains a dot
        dotted = sc.path("proj.v2", "schemas")
        os.makedirs(dotted)
        for fn, text in files.items():
            open(os.path.join(dotted, fn), "w").write(text)
        variants = [(f"seed{s}", s, src, main, True) for s in ("1", "2", "3", "7", "12345", "4294967295")]
        variants += [("dot-slash", "0", src, "./" + main, True), ("dotted-dir-rel", "0", sc.dir, os.path.join("proj.v2", "schemas", main), True), ("dotted-dir-abs", "0", src, os.path.join(dotted, main), True),
                     ("dotdot", "0", sc.path("out_ref"), os.path.join("..", "src", main), True)]
        variants += [("abs-path", "0", src, os.path.join(src, main), True), ("cwd-root", "0", "/", os.path.join(src, main), True), ("cwd-parent-rel", "0", sc.dir, os.path.join("src", main), True),
                     ("lint-on", "0", src, main, False), ("lint-on-seed5", "5", src, main, False)]
        # a working directory that holds OTHER files under the names this schema imports (relative imports belong to the
        # importing file's directory), and an output directory that already holds longer files of the same names
        shadow = sc.path("shadow_cwd")
        os.makedirs(shadow)
        for fn, text in files.items():
            if fn != main:
                open(os.path.join(shadow, fn), "w").write(text.replace("int20", "int22").replace("uint7 percent", "uint5 percent").replace("int48", "int40"))
        variants += [("cwd-with-same-named-files", "0", shadow, os.path.join(src, main), True), ("used-output-dir", "0", src, main, True)]
        for tag, s, cwd, path, quiet in variants:
            res["obligations"] += 1
            got = run_one(tag, s, cwd, path, quiet, prefill=sorted(ref) if tag == "used-output-dir" else None)
            if not isinstance(got, dict):
                res["inconclusive"].append(f"{res['case']}: run {tag} failed: {got}")
                continue
            diff = sorted(f for f in set(ref) | set(got) if ref.get(f) != got.get(f))
            if diff:
                res["violations"].append({"what": f"{res['case']}: output differs from the reference run (PYTHONHASHSEED=0, cwd = schema directory, relative path, -q) when run as `{tag}` (seed {s}, cwd {'schema dir' if cwd == src else cwd}, {'-q' if quiet else 'lint on'}): {diff[:3]}",
                                          "payload": {"kind": "process", "files": files, "main": main, "lang": lang, "variant": tag}, "confirmed": True, "info": {"kind": "process", "key": "process:" + tag.rstrip("0123456789")}})
                break
        else:
            res["samples"].append({"case": res["case"], "runs_identical": len(variants) + 1, "files": sorted(ref)})
        # one long-lived process that changes directory between compilations of DIFFERENT projects that use the same relative
        # file names: every compilation must give what a fresh process gives for that project
        other = sc.path("other")
        os.makedirs(other)
        for fn, text in files.items():
            open(os.path.join(other, fn), "w").write(text.replace("int20", "int21").replace("uint7 percent", "uint6 percent").replace("WHEELS = 2 * 2", "WHEELS = 3"))
        ref_other = run_one("ref_other", "0", other, main, True)
        hist = subprocess.run([VENV_PY, "-c", CHDIR_HISTORY, os.path.join(REPO, "compiler"), lang, main, src, other, sc.path("hist")], capture_output=True, text=True, timeout=300,
                              env={"PYTHONHASHSEED": "0", "PATH": os.environ.get("PATH", "")})
        res["obligations"] += 1
        if hist.returncode != 0 or not isinstance(ref_other, dict):
            res["inconclusive"].append(f"{res['case']}: in-process chdir history failed: {hist.stderr[-200:]}")
        else:
            import json as _json

            got = _json.loads(hist.stdout)
            for step, want in (("0", ref), ("1", ref_other), ("2", ref)):
                diff = sorted(f for f in set(want) | set(got[step]) if want.get(f) != got[step].get(f))
                if diff:
                    res["violations"].append({"what": f"{res['case']}: one process compiles project A, changes directory, compiles project B (same relative file names), changes back and compiles A again: compilation #{int(step) + 1} differs from what a fresh process writes: {diff[:3]}",
                                              "payload": {"kind": "process", "files": files, "main": main, "lang": lang, "variant": "chdir-history"}, "confirmed": True, "info": {"kind": "process", "key": "process:chdir-history"}})
                    break
    return res


CHDIR_HISTORY = r'''
import sys, os, json, hashlib, contextlib, io
sys.path.insert(0, sys.argv[1])
from bitproto._main import main as bp_main
lang, main, a, b, out = sys.argv[2:7]
res = {}
for i, d in enumerate((a, b, a)):
    os.chdir(d)
    o = os.path.join(out, str(i)); os.makedirs(o)
    for fn in sorted(os.listdir(d)):
        if fn.endswith(".bitproto"):
            with contextlib.redirect_stderr(io.StringIO()):
                bp_main(fn, lang=lang, outdir=o, disable_linter=True)
    res[str(i)] = {f: hashlib.sha256(open(os.path.join(o, f), "rb").read()).hexdigest() for f in sorted(os.listdir(o))}
print(json.dumps(res))
'''



def main() -> int:
    from .agg import run_parts

    jobs = [(n, a, b, m, o) for n, a, b in PAIRS for m, o in (("nolint", "fwd"), ("lint", "fwd"), ("lint-vs-q", "rev"))] + [(n + "/swapped", b, a, "nolint", "rev") for n, a, b in PAIRS]
    meta = {
        "functions_encoded": ["compiler/bitproto/utils.py", "compiler/bitproto/_ast.py", "compiler/bitproto/parser.py", "compiler/bitproto/renderer/block.py", "compiler/bitproto/renderer/formatter.py", "compiler/bitproto/linter.py"],
        "bounds": f"{len(PAIRS)} schema pairs (A, B re-using A's names with other values / marks / constant kinds), both orders; modes: no lint, lint before every rendering, render - lint the same tree - render again (= without / with -q); the four renderers in the order c.h, c.c, go, py or reversed; holes 0..199; histories of length 3 (A, B, A) in one process; each job in a worker process of its own (nothing compiled before); for the first {FRESH_PER_JOB} paths of a job the text of the first rendering, literals instantiated by the path's witness, is compared with the file a fresh command-line process writes for that language alone",
        "process_level_observation": "supporting concrete observation, not a solver verdict: two schemas (three imports, nesting, enum, constants, extensible marks; file stems other than the proto names, five enum-typed fields in one message, aliases, an option) x {c, go, py} through the real command line in 12 fresh processes differing in PYTHONHASHSEED (7 values), working directory (3), relative / absolute path, -q; sha256 of every output file",
        "outside_claim": "decided by the solver for nothing but the in-process history; PYTHONHASHSEED, working / output directories, relative vs absolute paths are only observed on the runs listed: none of these is an input that can be made symbolic (the hash seed is fixed before the interpreter starts; id()-based hashing and dict order are properties of the runtime, not of values); deciding them means re-running the compiler, i.e. enumerating concrete runs",
        "explanation": "kernel only: caches and module-level state keyed on values or classes (functools.cache on formatter / AST methods, class-level attributes, cached lists mutated in place, e.g. by a linter rule) are exercised by compiling A, B, A in one symbolic run, for several target languages in a row; the first and third rendering of A, and the rendering before and after lint, must be the same text with the same terms for all values; the first rendering must be what a fresh process writes",
    }
    obs = [(n, l) for n in OBS_SCHEMAS for l in ("c", "go", "py")]
    return run_parts(PROP, "other", [("in-process-history", work, jobs), ("process-level-observation", work_process, obs)], meta, ["z3 decides the integer queries", "sentinel normalisation compares literals by their simplified terms"], fresh_workers=True)


def replay(path: str) -> int:
    import json

    p = json.load(open(path))
    if p.get("kind") == "process":
        r = work_process((p["main"].replace(".bitproto", ""), p["lang"]))
        print(r["violations"][0]["what"] if r["violations"] else "passes: holds on this input now")
        return 1 if r["violations"] else 0
    if p.get("kind") == "order":
        r = _confirm_order(p["a"], p["order"], p["lang"])
    else:
        r = _confirm(p["a"], p.get("b", p["a"]), p["lang"], p.get("kind", "history"))
    print(r or "passes: holds on this input now")
    return 1 if r else 0
