"""C18 kernel: the one clause of determinism that has a value quantifier reachable by symbolic
execution -- `independent of ... whether other schemas were compiled earlier in the same
process` (and, with C20d, of whether linting is enabled): in ONE symbolic run the real compiler
compiles schema A, then a different schema B that re-uses A's names with other values, then A
again (and lints in between); the first and the third output of A must be identical text with
identical terms for every symbolic literal, for all values of the holes of A and B."""
from __future__ import annotations

import contextlib
import io
import re
from typing import Any, Dict, List, Tuple

import z3

from .. import pysym
from ..common import Inconclusive, Scratch, tier
from ..pysym import Engine, ZInt

PROP = "C18"
PAIRS = [
    ("consts+enum",
     "proto a\nconst N = {n:a1}\nconst F = true\nconst S = \"s\"\nenum E : uint5 {\n    X = {n:a2}\n    Y = {x:a3}\n}\nmessage M {\n    byte[N] raw = 1\n    E e = {n:a4}\n    bool b = {n:a5}\n}\n",
     "proto a\nconst N = {n:b1}\nconst F = false\nconst S = \"t\"\nenum E : uint5 {\n    X = {n:b2}\n    Y = {x:b3}\n}\nmessage M {\n    byte[N] raw = 1\n    E e = {n:b4}\n    bool b = {n:b5}\n}\n"),
    ("nested+arrays",
     "proto a\ntype Row = int9[3]\nmessage O {\n    message I {\n        Row r = {n:a2}\n        uint3 u = {n:a3}\n    }\n    I[{n:a4}]' is_ = 1\n    I one = 2\n}\n",
     "proto a\ntype Row = int9[{n:b1}]'\nmessage O' {\n    message I {\n        Row r = {n:b2}\n        uint3 u = {n:b3}\n    }\n    I[2] is_ = 1\n    I one = 2\n}\n"),
    ("bool-vs-int-constants",
     "proto a\nconst T = true\nconst ONE = {n:a1}\nconst Z = {n:a2}\nconst NO = false\n",
     "proto a\nconst ONE = {n:b1}\nconst T = false\nconst NO = true\nconst Z = {n:b2}\n"),
]


def work(job: Tuple[str, str, str, bool]) -> Dict[str, Any]:
    from ..zc import Template, parse_text, zc

    name, ta, tb, lint_between = job
    res = {"case": f"{name}:{'lint' if lint_between else 'nolint'}", "messages": 1, "leaves": 0, "paths": 0, "queries": 0, "unsat": 0, "sat": 0, "unknown": 0, "solver_s": 0.0, "merges": 0, "witness": 0, "witness_agree": 0,
           "violations": [], "inconclusive": [], "samples": [], "obligations": 0}
    z = zc()
    PE = z.errors.ParserError
    A, B = Template(ta), Template(tb)
    texta, ha = A.render()
    textb, hb = B.render()
    names = sorted({n for _, n in A.names()} | {n for _, n in B.names()})
    zv = {n: z3.Int(n) for n in names}
    syms = {n: ZInt(zv[n]) for n in names}
    R = [("c.h", z.mod("bitproto.renderer.impls.c.renderer_h").RendererCHeader), ("c.c", z.mod("bitproto.renderer.impls.c.renderer_c").RendererC), ("go", z.mod("bitproto.renderer.impls.go.renderer").RendererGo),
         ("py", z.mod("bitproto.renderer.impls.py.renderer").RendererPy)]
    eng = Engine(max_paths=400)
    pysym.set_engine(eng)
    with Scratch() as sc:
        fa, fb = sc.path("a.bitproto"), sc.path("b", "a.bitproto")
        import os

        os.makedirs(sc.path("b"))
        open(fa, "w").write(texta)
        open(fb, "w").write(textb)

        def comp(text: str, holes: Any, fp: str) -> List[str]:
            proto = parse_text(text, holes, syms, filepath=fp)
            if lint_between:
                with contextlib.redirect_stderr(io.StringIO()):
                    z.mod("bitproto.linter").lint(proto)
            return [r(proto, outdir=sc.dir).render_string() for _, r in R]

        def h() -> Any:
            for n in names:
                pysym.ENGINE.assume(z3.And(zv[n] >= 0, zv[n] < 200))
            first = comp(texta, ha, fa)
            try:
                comp(textb, hb, fb)
            except PE:
                pass  # B may be rejected for some values: it still ran before A's second compilation
            third = comp(texta, ha, fa)
            return first, third

        try:
            for p in eng.explore(h):
                if p.exc is not None:
                    if not isinstance(p.exc, PE):
                        res["inconclusive"].append(f"{res['case']}: {type(p.exc).__name__}: {p.exc}")
                    continue
                first, third = p.value
                norm = lambda t: re.sub(r"⟦S\d+⟧", lambda m: "<" + str(z3.simplify(p.sentinels[m.group(0)])) + ">", t)
                for (lang, _), x, y in zip(R, first, third):
                    res["obligations"] += 1
                    if norm(x) != norm(y):
                        wm = p.witness()
                        vals = {n: wm.eval(zv[n], model_completion=True).as_long() for n in names}
                        conf = _confirm(A.concrete(vals), B.concrete(vals), lang)
                        lx, ly = norm(x).split("\n"), norm(y).split("\n")
                        i = next((i for i in range(min(len(lx), len(ly))) if lx[i] != ly[i]), 0)
                        if conf:
                            res["violations"].append({"what": f"{res['case']} {vals}: {lang} output of schema A differs after schema B was compiled in the same process: {conf}", "payload": {"kind": "history", "a": A.concrete(vals), "b": B.concrete(vals), "lang": lang},
                                                      "confirmed": True, "info": {"kind": "history", "key": "history"}})
                        else:
                            res["inconclusive"].append(f"{res['case']}: {lang} output differs in the symbolic run (line {i + 1}: {lx[i][:50]!r} vs {ly[i][:50]!r}) but not natively for {vals}")
                        break
            res["samples"].append({"history": "compile A; compile B; compile A", "pair": res["case"], "paths": eng.stats["paths"]})
        except Inconclusive as e:
            res["inconclusive"].append(f"{res['case']}: {type(e).__name__}: {e}")
    for k in ("paths", "queries", "unsat", "sat", "unknown"):
        res[k] += eng.stats.get(k, 0)
    if res["paths"] == 0 and not res["inconclusive"]:
        res["inconclusive"].append(f"{res['case']}: vacuous")
    return res


NATIVE = r'''
import sys, os, json
sys.path.insert(0, sys.argv[1])
from bitproto.parser import parse
from bitproto.renderer import render
d = sys.argv[2]; lang = sys.argv[3]
def comp(f, out):
    os.makedirs(out, exist_ok=True)
    try:
        render(parse(f), lang, outdir=out)
    except Exception as e:
        return None
    return {fn: open(os.path.join(out, fn)).read() for fn in sorted(os.listdir(out))}
a1 = comp(os.path.join(d, "a.bitproto"), os.path.join(d, "o1"))
comp(os.path.join(d, "b", "a.bitproto"), os.path.join(d, "o2"))
a3 = comp(os.path.join(d, "a.bitproto"), os.path.join(d, "o3"))
print(json.dumps({"same": a1 == a3, "fresh": a1}))
'''


def _confirm(ta: str, tb: str, lang: str) -> str:
    """native: one process compiles A, B, A; a second, fresh process compiles A only"""
    import json
    import os
    import subprocess

    from ..common import REPO, VENV_PY

    L = lang.split(".")[0]
    with Scratch() as sc:
        os.makedirs(sc.path("b"))
        open(sc.path("a.bitproto"), "w").write(ta)
        open(sc.path("b", "a.bitproto"), "w").write(tb)
        r = subprocess.run([VENV_PY, "-c", NATIVE, os.path.join(REPO, "compiler"), sc.dir, L], capture_output=True, text=True, timeout=120)
        if r.returncode:
            return ""
        o = json.loads(r.stdout)
        if not o["same"]:
            return "first and third compilation of A differ within one process"
    return ""


def main() -> int:
    from .agg import run_parts

    jobs = [(n, a, b, l) for n, a, b in PAIRS for l in (False, True)] + [(n + "/swapped", b, a, l) for n, a, b in PAIRS for l in (False,)]
    meta = {
        "functions_encoded": ["compiler/bitproto/utils.py", "compiler/bitproto/_ast.py", "compiler/bitproto/parser.py", "compiler/bitproto/renderer/block.py", "compiler/bitproto/renderer/formatter.py", "compiler/bitproto/linter.py"],
        "bounds": f"{len(PAIRS)} schema pairs (A, B re-using A's names with other values / marks / constant kinds), both orders, with and without lint between; holes 0..199; histories of length 3 (A, B, A) in one process",
        "outside_claim": "everything else in the property -- different processes, PYTHONHASHSEED, working / output directories, relative vs absolute paths: none of these is an input that can be made symbolic (the hash seed is fixed before the interpreter starts; id()-based hashing and dict order are properties of the runtime, not of values); deciding them means re-running the compiler, i.e. enumerating concrete runs",
        "explanation": "kernel only: caches and module-level state keyed on values (functools.cache on formatter / AST methods, class-level monkeypatching, cached lists mutated in place) are exercised by compiling A, B, A in one symbolic run; the first and third rendering of A must be the same text with the same terms for all values",
    }
    return run_parts(PROP, "other", [("in-process-history", work, jobs)], meta, ["z3 decides the integer queries", "sentinel normalisation compares literals by their simplified terms"])


def replay(path: str) -> int:
    import json

    p = json.load(open(path))
    print(_confirm(p["a"], p["b"], p["lang"]) or "passes now")
    return 1
