"""C03 C standard mode writes/reads the same bytes as the specification and Python (E2)."""
from __future__ import annotations

from ..common import seed, tier
from ..families import f_grid, f_shape
from . import cenc
from .agg import run_parts
from .cenc import Cfg

PROP = "C03"


def configs(q: bool):
    if q:
        return [Cfg("O0", "x86_64", False), Cfg("O2", "x86_64", True)]
    return [Cfg(o, "x86_64", s) for o in ("O0", "O1", "O2", "O3") for s in (False, True)]


def main() -> int:
    q = tier() == "quick"
    shape = f_shape(q, seed())
    grid = f_grid(True)
    cases = shape + (grid[::8] if q else grid)
    # large-capacity schemas cost many IR steps: only at two configurations
    cfgs = configs(q)
    jobs = []
    for c in cases:
        cc = cfgs if "large" not in c.tags else cfgs[:2]
        for cfg in cc:
            jobs.append((c, [cfg], ("encode", "decode")))
    meta = {
        "functions_encoded": cenc.C_FILES,
        "configurations": [c.name() for c in cfgs],
        "bounds": "families F_shape (+seeded random tail) and a slice of F_grid (the full grid is C14); clang-14 IR at " + ", ".join(sorted({c.olevel for c in cfgs})) + " x {separate translation units, single translation unit}, x86-64, scalar pipeline (-fno-vectorize -fno-slp-vectorize); all in-range values; struct padding bytes arbitrary on encode; output buffer of exactly BYTES_LENGTH zero bytes, struct region of exactly sizeof bytes, every access bounds-checked",
        "outside_claim": "the back end (IR -> machine code); gcc's optimiser (replays use gcc, proofs use clang's IR); auto-vectorised IR; c.struct_packing_alignment other than the default",
        "explanation": "encode: struct filled with symbolic in-range leaves, Encode<Msg> interpreted, buffer == specified bytes; decode: buffer = specified bytes of symbolic leaves, zeroed struct, Decode<Msg> interpreted, every field's storage read at its C type == sign/zero-extended leaf. Python interoperability follows from C01/C02 against the same reference.",
        "stubs": ["memset/memcpy as intrinsics", "vsprintf (unused here)"],
    }
    return run_parts(PROP, "translation_validation", [("c-standard", cenc.work, jobs)], meta, ["z3 decides QF_BV", "my IR interpreter (validated against gcc-built native code on witness/extreme values every run)", "clang 14 front end + middle end produce the IR users' code is built from"])


def replay(path: str) -> int:
    return cenc.replay_main(path)
