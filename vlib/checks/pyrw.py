"""E1/BV differential harness for C12: two schemas related by wire-preserving rewrites are
encoded by their own generated Python on corresponding symbolic leaves; bytes must be equal."""
from __future__ import annotations

import time
from typing import Any, Dict, List

import z3

from .. import pysym
from ..common import Inconclusive, Scratch
from ..compile import CompileError
from ..families import RwCase
from ..pyrt import PyTarget, cell8, native_run
from ..pysym import Engine
from ..schema import print_proto
from .pycommon import MsgRun, compile_case_py, extreme_values, vals_case
from .pyenc import MAX_PATHS, _acc, _vals_from_model, new_result


def work(rc: RwCase) -> Dict[str, Any]:
    res = new_result(rc.a)
    res["case"] = rc.name
    t00 = time.time()
    rc.b.style = rc.style_b  # type: ignore
    with Scratch() as sa, Scratch() as sb:
        try:
            gen_a, mods_a = compile_case_py(rc.a, sa)
        except CompileError as e:
            res["inconclusive"].append(f"{rc.name}: base schema rejected: {e}")
            return res
        try:
            gen_b, mods_b = compile_case_py(rc.b, sb)
        except CompileError as e:
            # the rewrites are valid by construction; a rejection is a harness problem, not a verdict
            # the base is accepted and the rewrite is wire-preserving by construction (it is accepted on
            # the unchanged tree): an equivalent schema that no longer compiles has no bytes at all
            res["violations"].append({"what": f"{rc.name}: the rewritten (equivalent) schema is rejected: {e}", "payload": {"kind": "py-rw", "pair": rc.name, "rewrites": list(rc.rewrites),
                                      "files_a": rc.a.proto.files(), "files_b": rc.b.proto.files(rc.style_b), "error": str(e)}, "confirmed": True, "info": {"kind": "rw-rejected"}})
            return res
        try:
            TA = PyTarget(gen_a, mods_a)
            TB = PyTarget(gen_b, mods_b)
        except Exception as e:
            res["inconclusive"].append(f"{rc.name}: generated module does not load: {type(e).__name__}: {e}")
            return res
        for (ma, cha), (mb, chb) in rc.pairs:
            A = MsgRun(TA, gen_a, mods_a[0], ma, cha)
            B = MsgRun(TB, gen_b, mods_b[0], mb, chb)
            la, lb = A.lay.leaves(), B.lay.leaves()
            res["messages"] += 1
            res["leaves"] += len(la)
            if [(l.kind, l.n, l.off) for l in la] != [(l.kind, l.n, l.off) for l in lb]:
                res["inconclusive"].append(f"{rc.name}.{ma.name}: family bug: rewritten layout differs in my own model")
                continue
            for x, y in zip(la, lb):  # corresponding leaves share one solver variable
                B.terms[y.path] = A.terms[x.path]
                B.prox[y.path] = A.prox[x.path]
            eng = Engine(max_paths=MAX_PATHS)
            pysym.set_engine(eng)

            def h() -> Any:
                A.assume_all()
                return A.filled().encode(), B.filled().encode()

            cexs = []
            try:
                for p in eng.explore(h):
                    if p.exc is not None:
                        cexs.append(_vals_from_model(A, p.witness()))
                        continue
                    sa_, sb_ = p.value
                    if len(sa_) != len(sb_):
                        cexs.append(_vals_from_model(A, p.witness()))
                        continue
                    conj = [cell8(x) == cell8(y) for x, y in zip(sa_.cells, sb_.cells)]
                    res["obligations"] += len(conj)
                    r, model = p.holds(z3.And(*conj) if conj else z3.BoolVal(True))
                    if r == "unknown":
                        res["inconclusive"].append(f"{rc.name}: solver unknown")
                    elif r == "sat":
                        cexs.append(_vals_from_model(A, model))
                    elif len(res["samples"]) < 1:
                        res["samples"].append({"pair": rc.name, "rewrites": list(rc.rewrites), "message": ma.name, "rewritten_message": "_".join(chb), "bits": A.lay.nbits, "verdict": "unsat"})
            except Inconclusive as e:
                res["inconclusive"].append(f"{rc.name}.{ma.name}: {type(e).__name__}: {e}")
            _acc(res, eng)
            import random

            rng = random.Random(hash(rc.name) & 0xFFFF)
            tests = [("cex", v) for v in cexs[:3]] + [("wit", v) for v in extreme_values(A.lay, rng, 1)]
            if not tests:
                continue
            try:
                oa = native_run(gen_a, mods_a[0], [{"message": A.cls, "op": "encode", "values": vals_case(A.lay, v)} for _, v in tests])
                vb = [{y.path: v[x.path] for x, y in zip(la, lb)} for _, v in tests]
                ob = native_run(gen_b, mods_b[0], [{"message": B.cls, "op": "encode", "values": vals_case(B.lay, v)} for v in vb])
            except Inconclusive as e:
                res["inconclusive"].append(f"{rc.name}: {e}")
                continue
            for (kind, v), x, y in zip(tests, oa, ob):
                differ = ("exc" in x) or ("exc" in y) or x.get("bytes") != y.get("bytes")
                if kind == "wit":
                    res["witness"] += 1
                    if not differ:
                        res["witness_agree"] += 1
                    elif not cexs:
                        res["inconclusive"].append(f"{rc.name}: native run disagrees with an unsat verdict: {x} vs {y}")
                    continue
                if not differ:
                    res["inconclusive"].append(f"{rc.name}: solver model did not reproduce natively")
                    continue
                payload = {"kind": "py-rw", "pair": rc.name, "rewrites": list(rc.rewrites), "files_a": rc.a.proto.files(), "files_b": rc.b.proto.files(rc.style_b), "message_a": A.cls, "message_b": B.cls,
                           "values_a": vals_case(A.lay, v), "native_a": x, "native_b": y}
                res["violations"].append({"what": f"{rc.name} {A.cls}: bytes {x.get('bytes', x)} vs rewritten {y.get('bytes', y)}", "payload": payload, "confirmed": True, "info": {"kind": "rw"}})
    res["exec_s"] = round(time.time() - t00, 3)
    return res
