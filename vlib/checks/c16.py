"""C16 JSON output is valid JSON that states the message's values (Python: E1/BV with a
segment-producing json stub; C: E2 with the vsprintf stub)."""
from __future__ import annotations

import json
import os
import random
import re
import types
from typing import Any, Dict, List, Optional, Tuple

import z3

from .. import llsym, pysym
from ..common import Inconclusive, Scratch, seed, tier
from ..compile import CompileError
from ..crt import CBuild, CMsg, native_json, pack_struct
from ..families import Case, f_shape
from ..llsym import Ptr, PtrIte
from ..pyrt import PyTarget, native_run, sym_leaves
from ..pysym import BVInt, Engine, SymBool, SymBytes, SymInt
from ..schema import Alias, Enum, Layout, Message, TArray, TBase, TRef, layout
from .cenc import Cfg, fill_struct
from .pycommon import MsgRun, compile_case_py, extreme_values, vals_case
from .pyenc import _vals_from_model, new_result

PROP = "C16"
W65 = 65


# ---- expected JSON value tree from the schema
def expected_tree(msg: Message, terms: Dict[Any, Any]) -> Any:
    def rec_type(t: Any, path: Tuple[Any, ...]) -> Any:
        if isinstance(t, TBase):
            x = terms[path]
            if t.kind == "bool":
                return ("bool", x == 1)
            return ("num", z3.SignExt(W65 - x.size(), x) if t.kind == "int" else z3.ZeroExt(W65 - x.size(), x))
        if isinstance(t, TArray):
            return ("arr", [rec_type(t.el, path + (("i", k),)) for k in range(t.cap)])
        tg = t.target
        if isinstance(tg, Enum):
            x = terms[path]
            return ("num", z3.ZeroExt(W65 - x.size(), x))
        if isinstance(tg, Alias):
            return rec_type(tg.to, path)
        return rec_msg(tg, path)

    def rec_msg(m: Message, path: Tuple[Any, ...]) -> Any:
        return ("obj", [(f.name, rec_type(f.type, path + (("f", f.name),))) for f in m.sorted_fields()])

    return rec_msg(msg, ())


def concrete_tree(tree: Any, model_eval: Any) -> Any:
    k = tree[0]
    if k == "obj":
        return {n: concrete_tree(v, model_eval) for n, v in tree[1]}
    if k == "arr":
        return [concrete_tree(v, model_eval) for v in tree[1]]
    if k == "bool":
        return bool(model_eval(tree[1]))
    if k == "num":
        return model_eval(tree[1])
    raise ValueError(k)


def compare(exp: Any, got: Any, where: str, conj: List[Any], errs: List[str]) -> None:
    """structural comparison; leaf equalities are appended to conj"""
    if exp[0] != got[0]:
        errs.append(f"{where}: expected a JSON {exp[0]}, got {got[0]}")
        return
    if exp[0] == "obj":
        ek, gk = [n for n, _ in exp[1]], [n for n, _ in got[1]]
        if ek != gk:
            errs.append(f"{where}: object keys {gk} != field names in field-number order {ek}")
            return
        for (n, e), (_, g) in zip(exp[1], got[1]):
            compare(e, g, f"{where}.{n}", conj, errs)
    elif exp[0] == "arr":
        if len(exp[1]) != len(got[1]):
            errs.append(f"{where}: list of {len(got[1])} elements, expected {len(exp[1])}")
            return
        for i, (e, g) in enumerate(zip(exp[1], got[1])):
            compare(e, g, f"{where}[{i}]", conj, errs)
    elif exp[0] == "bool":
        conj.append(exp[1] == got[1])
    elif exp[0] == "num":
        conj.append(exp[1] == got[1])


# ---- Python: json stub implementing json's documented type table
class JsonStub(types.ModuleType):
    def __init__(self) -> None:
        super().__init__("json")
        import json as real

        self.loads = real.loads
        self.JSONDecodeError = real.JSONDecodeError

    def dumps(self, obj: Any, *, indent: Any = None, separators: Any = None, default: Any = None, **kw: Any) -> Any:
        return JsonText(self._tree(obj, default))

    def _tree(self, o: Any, default: Any) -> Any:
        import enum

        if isinstance(o, dict):
            items = []
            for k, v in o.items():
                if not isinstance(k, (str, int, float, bool)) and k is not None:
                    raise pysym.modelled(TypeError(f"keys must be str, int, float, bool or None, not {type(k).__name__}"))
                items.append((str(k), self._tree(v, default)))
            return ("obj", items)
        if isinstance(o, (list, tuple)):
            return ("arr", [self._tree(v, default) for v in o])
        if isinstance(o, SymBool):
            return ("bool", o.e)
        if isinstance(o, bool):
            return ("bool", z3.BoolVal(o))
        if isinstance(o, str):
            return ("str", o)
        if o is None:
            return ("null",)
        if isinstance(o, float):
            return ("float", o)
        if isinstance(o, (int, SymInt)):
            b = BVInt.lift(o)
            return ("num", z3.Extract(W65 - 1, 0, b.e), b)
        if default is not None:
            return self._tree(default(o), default)
        raise pysym.modelled(TypeError(f"Object of type {'bytearray' if isinstance(o, SymBytes) else type(o).__name__} is not JSON serializable"))


class JsonText:
    """what the stubbed json.dumps returns instead of a str"""

    def __init__(self, tree: Any):
        self.tree = tree


def work_py(case: Case) -> Dict[str, Any]:
    res = new_result(case)
    rng = random.Random(seed() * 13 + hash(case.name) % 7919)
    with Scratch() as sc:
        try:
            gen, mods = compile_case_py(case, sc)
            T = PyTarget(gen, mods)
        except CompileError as e:
            res["inconclusive"].append(f"{case.name}: compiler rejected family schema: {e}")
            return res
        except Exception as e:
            res["inconclusive"].append(f"{case.name}: generated module does not load: {type(e).__name__}: {e}")
            return res
        T.bp.__dict__["json"] = JsonStub()  # the C encoder of `json` is beyond the symbolic boundary
        for msg, chain in case.messages:
            mr = MsgRun(T, gen, mods[0], msg, chain)
            lay = mr.lay
            if len(lay.leaves()) > 64:
                continue
            prod = 1
            for l in lay.leaves():
                if l.kind == "enum" and l.enum:
                    prod *= max(1, len(l.enum.members))
            if prod > 200:  # every scalar enum field forks per member (IntEnum lookup): stated path bound
                res["skipped_enum_paths"] = res.get("skipped_enum_paths", 0) + 1
                continue
            res["messages"] += 1
            res["leaves"] += len(lay.leaves())
            exp = expected_tree(msg, mr.terms)
            eng = Engine(max_paths=300)
            pysym.set_engine(eng)

            def h() -> Any:
                mr.assume_all()
                m = mr.filled()
                return m.to_dict(), m.to_json()

            cexs: List[Tuple[Dict[Any, int], str]] = []
            try:
                for p in eng.explore(h):
                    if p.exc is not None:
                        cexs.append((_vals_from_model(mr, p.witness()), f"{type(p.exc).__name__}: {p.exc}"))
                        continue
                    d, jt = p.value
                    errs: List[str] = []
                    conj: List[Any] = []
                    stub = JsonStub()
                    try:
                        dtree = stub._tree(d, lambda o: list(o) if isinstance(o, SymBytes) else (_ for _ in ()).throw(TypeError("not serialisable")))
                    except TypeError as e:
                        errs.append(f"to_dict() holds a value JSON cannot state: {e}")
                        dtree = None
                    for name, tr in (("to_dict", dtree), ("to_json", jt.tree if isinstance(jt, JsonText) else None)):
                        if tr is None:
                            if name == "to_json":
                                errs.append("to_json() did not go through json.dumps")
                            continue
                        compare(exp, _strip(tr), name, conj, errs)
                        # the full Python int must equal the leaf value (not only its low 65 bits)
                        _ranges(tr, conj)
                    if errs:
                        cexs.append((_vals_from_model(mr, p.witness()), "; ".join(errs[:3])))
                        continue
                    res["obligations"] += len(conj)
                    r, model = p.holds(z3.And(*conj) if conj else z3.BoolVal(True))
                    if r == "unknown":
                        res["inconclusive"].append(f"{case.name}.{mr.cls}: unknown")
                    elif r == "sat":
                        cexs.append((_vals_from_model(mr, model), "value"))
                    elif len(res["samples"]) < 1:
                        res["samples"].append({"case": case.name, "message": mr.cls, "runtime": "python", "keys": [n for n, _ in exp[1]], "verdict": "unsat"})
            except Inconclusive as e:
                res["inconclusive"].append(f"{case.name}.{mr.cls}: {type(e).__name__}: {e}")
            for k in ("paths", "queries", "unsat", "sat", "unknown", "merges"):
                res[k] += eng.stats.get(k, 0)
            tests = [("cex", v, w) for v, w in cexs[:3]] + ([] if cexs else [("wit", v, "") for v in extreme_values(lay, rng, 1)[:2]])
            if not tests:
                continue
            try:
                outs = native_run(gen, mods[0], [{"message": mr.cls, "op": "json", "values": vals_case(lay, v)} for _, v, _ in tests])
            except Inconclusive as e:
                res["inconclusive"].append(f"{case.name}: {e}")
                continue
            for (kind, v, why), o in zip(tests, outs):
                want = _concrete_expected(msg, v)
                bad = None
                if "exc" in o:
                    bad = f"{o['exc']}: {o['msg']} at {o['frame']}"
                else:
                    try:
                        got = json.loads(o["json"])
                        if got != want or list(got.keys()) != list(want.keys()):
                            bad = f"to_json() = {o['json'][:160]}, expected {json.dumps(want)[:160]}"
                    except ValueError as e:
                        bad = f"to_json() is not valid JSON: {e}"
                if kind == "wit":
                    res["witness"] += 1
                    res["witness_agree"] += int(bad is None)
                    if bad:
                        res["inconclusive"].append(f"{case.name}.{mr.cls}: native run disagrees with an unsat verdict: {bad}")
                elif bad is None:
                    res["inconclusive"].append(f"{case.name}.{mr.cls}: model did not reproduce natively ({why})")
                else:
                    res["violations"].append({"what": f"{case.name}.{mr.cls} [python]: {bad}", "payload": {"kind": "py-json", "files": case.proto.files(), "message": mr.cls, "values": vals_case(lay, v), "native": o}, "confirmed": True,
                                              "info": {"kind": "py-json", "native": o, "key": ""}})
    return res


def _strip(tr: Any) -> Any:
    k = tr[0]
    if k == "obj":
        return ("obj", [(n, _strip(v)) for n, v in tr[1]])
    if k == "arr":
        return ("arr", [_strip(v) for v in tr[1]])
    if k == "num":
        return ("num", tr[1])
    return tr


def _ranges(tr: Any, conj: List[Any]) -> None:
    k = tr[0]
    if k == "obj":
        for _, v in tr[1]:
            _ranges(v, conj)
    elif k == "arr":
        for v in tr[1]:
            _ranges(v, conj)
    elif k == "num" and len(tr) > 2:
        b = tr[2]
        conj.append(z3.SignExt(pysym.W - W65, tr[1]) == b.e)


def _concrete_expected(msg: Message, vals: Dict[Any, int]) -> Any:
    def rec_type(t: Any, path: Tuple[Any, ...]) -> Any:
        if isinstance(t, TBase):
            return bool(vals[path]) if t.kind == "bool" else int(vals[path])
        if isinstance(t, TArray):
            return [rec_type(t.el, path + (("i", k),)) for k in range(t.cap)]
        tg = t.target
        if isinstance(tg, Enum):
            return int(vals[path])
        if isinstance(tg, Alias):
            return rec_type(tg.to, path)
        return {f.name: rec_type(f.type, path + (("f", f.name),)) for f in tg.sorted_fields()}

    return {f.name: rec_type(f.type, (("f", f.name),)) for f in msg.sorted_fields()}


# ---- C: Json<Msg> with the vsprintf stub
def parse_segments(seg: List[Any]) -> Any:
    """JSON structure parser over the segment list of the vsprintf stub"""
    toks: List[Any] = []
    merged: List[Any] = []
    for s in seg:  # a string literal may be split over adjacent literal segments ("%s" conversions)
        if s[0] == "lit" and merged and merged[-1][0] == "lit":
            merged[-1] = ("lit", merged[-1][1] + s[1])
        else:
            merged.append(s)
    for s in merged:
        if s[0] == "lit":
            txt = s[1]
            i = 0
            while i < len(txt):
                c = txt[i]
                if c in "{}[],:":
                    toks.append(c)
                    i += 1
                elif c == '"':
                    j = txt.index('"', i + 1)
                    toks.append(("str", txt[i + 1:j]))
                    i = j + 1
                elif c.isspace():
                    i += 1
                else:
                    m = re.match(r"-?\d+|true|false|null", txt[i:])
                    if not m:
                        raise ValueError(f"unexpected text {txt[i:i + 12]!r} in JSON output")
                    w = m.group(0)
                    toks.append(("bool", z3.BoolVal(w == "true")) if w in ("true", "false") else ("num", z3.BitVecVal(int(w), W65)) if w != "null" else ("null",))
                    i += len(w)
        elif s[0] == "choice":
            if {s[2], s[3]} != {"true", "false"}:
                raise ValueError(f"a %s choice between {s[2]!r} and {s[3]!r}")
            toks.append(("bool", s[1] if s[2] == "true" else z3.Not(s[1])))
        elif s[0] == "num":
            _, conv, want, argbits, term = s
            t = llsym.bv(term, argbits)
            width = min(want, argbits)
            if argbits > width:
                t = z3.Extract(width - 1, 0, t)
            toks.append(("num", z3.SignExt(W65 - width, t) if conv == "d" else z3.ZeroExt(W65 - width, t)))
        else:
            raise ValueError(f"segment {s[0]}")
    pos = [0]

    def val() -> Any:
        t = toks[pos[0]]
        pos[0] += 1
        if t == "{":
            items = []
            if toks[pos[0]] == "}":
                pos[0] += 1
                return ("obj", items)
            while True:
                k = toks[pos[0]]
                if not (isinstance(k, tuple) and k[0] == "str"):
                    raise ValueError("object key is not a string")
                if toks[pos[0] + 1] != ":":
                    raise ValueError("missing ':'")
                pos[0] += 2
                items.append((k[1], val()))
                t2 = toks[pos[0]]
                pos[0] += 1
                if t2 == "}":
                    return ("obj", items)
                if t2 != ",":
                    raise ValueError("missing ',' in object")
        if t == "[":
            items2 = []
            if toks[pos[0]] == "]":
                pos[0] += 1
                return ("arr", items2)
            while True:
                items2.append(val())
                t2 = toks[pos[0]]
                pos[0] += 1
                if t2 == "]":
                    return ("arr", items2)
                if t2 != ",":
                    raise ValueError("missing ',' in list")
        if isinstance(t, tuple):
            return t
        raise ValueError(f"unexpected token {t!r}")

    try:
        v = val()
    except IndexError:
        raise ValueError("truncated JSON")
    if pos[0] != len(toks):
        raise ValueError("trailing text after the JSON value")
    return v


def work_c(job: Tuple[Case, Cfg]) -> Dict[str, Any]:
    case, cfg = job
    res = new_result(case)
    if "noc" in case.tags:
        return res
    rng = random.Random(seed() * 17 + hash(case.name) % 7919)
    with Scratch() as sc:
        try:
            cb = CBuild(case, sc.dir)
            mods, consts = cb.modules(cfg.olevel, cfg.target, cfg.defines, cfg.single_tu, msgs=case.messages)
        except (CompileError, Inconclusive) as e:
            res["inconclusive"].append(f"{case.name}: {e}")
            return res
        for mi, (msg, chain) in enumerate(case.messages):
            cm = CMsg(mods, consts, mi, msg, chain)
            lay = cm.lay
            if len(lay.leaves()) > 64:
                continue
            res["messages"] += 1
            terms, _p, assumes = sym_leaves(lay)
            exp = expected_tree(msg, terms)
            eng = Engine(max_paths=64)
            pysym.set_engine(eng)

            def h() -> Any:
                for a in assumes:
                    pysym.ENGINE.assume(a)
                M = cm.machine()
                st = M.new_region(cm.sizeof, "msg", fill=None)
                buf = M.new_region(8, "jsonbuf", fill=0)
                M.json[buf] = []
                fill_struct(cm, M, st, terms, False)
                M.call("@Json" + cm.name, [Ptr(st, 0), Ptr(buf, 0)])
                return M, M.json[buf]

            cexs: List[Tuple[Dict[Any, int], str]] = []
            try:
                for p in eng.explore(h):
                    if p.exc is not None:
                        raise Inconclusive(f"{type(p.exc).__name__}: {p.exc}")
                    M, seg = p.value
                    errs: List[str] = []
                    conj: List[Any] = []
                    try:
                        tree = parse_segments(seg)
                        compare(exp, tree, "Json" + cm.name, conj, errs)
                    except ValueError as e:
                        errs.append(f"not well-formed JSON: {e}")
                    if errs:
                        cexs.append((_vals(lay, terms, p.witness()), "; ".join(errs[:3])))
                        continue
                    res["obligations"] += len(conj)
                    r, model = p.holds(z3.And(*conj) if conj else z3.BoolVal(True))
                    if r == "sat":
                        cexs.append((_vals(lay, terms, model), "value"))
                    elif r == "unknown":
                        res["inconclusive"].append(f"{case.name}.{cm.name}: unknown")
                    elif len(res["samples"]) < 1:
                        res["samples"].append({"case": case.name, "message": cm.name, "runtime": "c " + cfg.name(), "segments": len(seg), "verdict": "unsat"})
            except Inconclusive as e:
                res["inconclusive"].append(f"{case.name}.{cm.name} [{cfg.name()}] json: {type(e).__name__}: {e}")
            for k in ("paths", "queries", "unsat", "sat", "unknown"):
                res[k] += eng.stats.get(k, 0)
            tests = [("cex", v, w) for v, w in cexs[:3]] + ([] if cexs else [("wit", v, "") for v in extreme_values(lay, rng, 1)[:2]])
            if not tests:
                continue
            try:
                so = cb.shared_object("O2")
            except Inconclusive as e:
                res["inconclusive"].append(f"{case.name}: {e}")
                continue
            for kind, v, why in tests:
                txt = native_json(so, "Json" + cm.name, pack_struct(cm, v, fill=0x5A))
                want = _concrete_expected(msg, v)
                bad = None
                try:
                    got = json.loads(txt)
                    if got != want or list(got.keys()) != list(want.keys()):
                        bad = f"Json{cm.name} gives {txt[:160]}, expected {json.dumps(want, separators=(',', ':'))[:160]}"
                except ValueError as e:
                    bad = f"Json{cm.name} output is not valid JSON ({e}): {txt[:120]}"
                if kind == "wit":
                    res["witness"] += 1
                    res["witness_agree"] += int(bad is None)
                    if bad:
                        res["inconclusive"].append(f"{case.name}.{cm.name}: native run disagrees with an unsat verdict: {bad}")
                elif bad is None:
                    res["inconclusive"].append(f"{case.name}.{cm.name}: model did not reproduce natively ({why})")
                else:
                    res["violations"].append({"what": f"{case.name}.{cm.name} [c {cfg.name()}]: {bad}", "payload": {"kind": "c-json", "files": case.proto.files(), "message": cm.name, "values": vals_case(lay, v)}, "confirmed": True, "info": {"kind": "c-json", "key": ""}})
    return res


def _vals(lay: Any, terms: Dict[Any, Any], model: Any) -> Dict[Any, int]:
    d = {}
    for l in lay.leaves():
        v = model.eval(terms[l.path], model_completion=True).as_long()
        if l.signed and v >> (l.n - 1):
            v -= 1 << l.n
        d[l.path] = v
    return d


def main() -> int:
    from .agg import run_parts

    q = tier() == "quick"
    shape = [c for c in f_shape(q, seed()) if "large" not in c.tags]
    cfgs = [Cfg("O0", "x86_64"), Cfg("O2", "x86_64")]
    cj = [(c, cfgs[i % 2]) for i, c in enumerate(shape)] if q else [(c, cfg) for c in shape for cfg in cfgs]
    parts = [("python-to_dict+to_json", work_py, shape), ("c-json", work_c, cj)]
    meta = {
        "functions_encoded": ["lib/py/bitprotolib/bp.py", "compiler/bitproto/renderer/impls/py/renderer.py", "lib/c/bitproto.c", "compiler/bitproto/renderer/impls/c/renderer_c.py"],
        "bounds": "F_shape (+seeded random tail) minus messages with > 64 leaves or (Python) more than 200 enum-member combinations; all in-range values; C: clang IR at -O0/-O2, x86-64",
        "outside_claim": "the characters of the decimal rendering (libc vsprintf / Python json); output-buffer capacity (the C API takes none); `%lu` with a 32-bit argument (bitproto.c, uint17..32) is UB by the C standard: recorded, read as zero-extended (what x86-64 does)",
        "explanation": "Python: to_dict() runs for real (dataclasses.asdict + generated dict_factory), json.dumps is replaced by a stub implementing json's documented type table that returns a value tree; C: Json<Msg> is interpreted with a vsprintf stub that yields (literal | conversion, argument term | choice) segments, parsed by a JSON structure parser; both must give an object keyed by the field names in field-number order whose leaves equal the field values (negative where the signed value is negative; booleans; lists; nested objects; enums as numbers). Equality of Python and C follows from both matching the same expected tree.",
        "stubs": ["json.dumps (type table -> value tree)", "vsprintf (segments)"],
    }
    return run_parts(PROP, "translation_validation", parts, meta, ["z3 decides QF_BV", "json's documented type table", "IR interpreter validated natively"])


def replay(path: str) -> int:
    p = json.load(open(path))
    print(json.dumps({k: p[k] for k in p if k != "files"}, indent=1)[:1200])
    return 1
