"""C11 Names resolve to the innermost visible earlier definition.
Stage 1 (E1/Z): token templates through the real parser; the same name is optionally declared
at every enclosing depth / in an imported file, before or after the use, each with a symbolic
width; accepted <=> a visible earlier definition exists, and the field's nbits() is the width
variable of the innermost one.  Stage 2 (E1/BV): generated encoder == spec built with my own
resolver on the shadowing family."""
from __future__ import annotations

import itertools
import os
from dataclasses import dataclass, field
from typing import Any, Dict, List, Optional, Tuple

import z3

from .. import pysym
from ..common import Inconclusive, Scratch, seed, tier
from ..families import Case, case_of
from ..pysym import Engine, ZInt
from ..schema import Alias, Enum, Field, Import, Message, Proto, TArray, TBase, TRef
from . import pyenc

PROP = "C11"
FILES = ["compiler/bitproto/parser.py", "compiler/bitproto/_ast.py"]
LIBW = 9
LIB = f"proto lib\nenum X : uint{LIBW} {{\n    LX = 0\n}}\ntype T = uint{LIBW + 2}\nmessage B {{\n    enum K : uint{LIBW + 4} {{\n        LK = 0\n    }}\n}}\n"


@dataclass
class Variant:
    name: str
    text: str
    use: Tuple[Tuple[str, ...], str]  # (path of message names, field name)
    expect: Any  # None = must be rejected; str = hole name; int = concrete width
    use_line: int
    files: Dict[str, str] = field(default_factory=dict)


def _enum(ind: str, name: str, hole: str, tag: str) -> List[str]:
    return [f"{ind}enum {name} : {{U:{hole}}} {{", f"{ind}    {tag} = 0", f"{ind}}}"]


def variants(quick: bool) -> List[Variant]:
    out: List[Variant] = []
    I = "    "
    # ---- simple name X used at depth 3; definitions at levels 0..3 none/before/after
    for combo in itertools.product(("none", "before", "after"), repeat=4):
        if quick and sum(c != "none" for c in combo) >= 3 and hash(combo) % 3:
            continue
        L: List[str] = ["proto p"]
        if combo[0] == "before":
            L += _enum("", "X", "w0", "Z0")
        L.append("message A {")
        if combo[1] == "before":
            L += _enum(I, "X", "w1", "Z1")
        L.append(I + "message B {")
        if combo[2] == "before":
            L += _enum(I * 2, "X", "w2", "Z2")
        L.append(I * 2 + "message C {")
        if combo[3] == "before":
            L += _enum(I * 3, "X", "w3", "Z3")
        L.append(I * 3 + "X f = 1")
        use_line = len(L)
        if combo[3] == "after":
            L += _enum(I * 3, "X", "w3", "Z3")
        L.append(I * 2 + "}")
        if combo[2] == "after":
            L += _enum(I * 2, "X", "w2", "Z2")
        L.append(I + "}")
        if combo[1] == "after":
            L += _enum(I, "X", "w1", "Z1")
        L.append("}")
        if combo[0] == "after":
            L += _enum("", "X", "w0", "Z0")
        vis = [k for k in range(4) if combo[k] == "before"]
        out.append(Variant("simple:" + ",".join(c[0] for c in combo), "\n".join(L) + "\n", (("A", "B", "C"), "f"), f"w{max(vis)}" if vis else None, use_line))
    # ---- a use BEFORE the shadowing definition in the same open scope, and another one after it (a lookup must
    # not be remembered while the scope is still open); the first use may also sit in a child scope
    for child in (False, True):
        L = ["proto p"] + _enum("", "X", "w0", "Z0") + ["message A {"]
        if child:
            L += [I + "message B {", I * 2 + "X f = 1", I + "}"]
        else:
            L += [I + "X f = 1"]
        first_line = len(L) - (1 if child else 0)
        L += _enum(I, "X", "w1", "Z1") + [I + "X g = 2", "}"]
        for fld, path, exp, ln in (("f", ("A", "B") if child else ("A",), "w0", first_line), ("g", ("A",), "w1", len(L) - 1)):
            out.append(Variant(f"use-shadow-use:{'child' if child else 'direct'}:{fld}", "\n".join(L) + "\n", (path, fld), exp, ln))
    # the same for a dotted path whose head is re-declared later in the open scope
    L = ["proto p", "message T {"] + _enum(I, "K", "w0", "Z0") + ["}", "message A {", I + "T.K f = 1", I + "message T {"] + _enum(I * 2, "K", "w1", "Z1") + [I + "}", I + "T.K g = 2", "}"]
    out.append(Variant("use-shadow-use:dotted:f", "\n".join(L) + "\n", (("A",), "f"), "w0", 0))
    out.append(Variant("use-shadow-use:dotted:g", "\n".join(L) + "\n", (("A",), "g"), "w1", 0))
    # ---- the head of a dotted path is, in the innermost scope, the name of a FIELD (not a scope): the lookup fails there
    # and goes on outward; it must not pick a sibling of that field named like the rest of the path
    L = ["proto p", "message gps {"] + _enum(I, "Fix", "w0", "Z0") + ["}", "message Track {"] + _enum(I, "Fix", "w1", "Z1") + [I + "uint8 gps = 1", I + "gps.Fix f = 2", "}"]
    out.append(Variant("dotted-head-is-a-field:local", "\n".join(L) + "\n", (("Track",), "f"), "w0", 0))
    L = ["proto p", 'import "lib.bitproto"', "message Track {"] + _enum(I, "X", "w1", "Z1") + [I + "uint8 lib = 1", I + "lib.X f = 2", "}"]
    out.append(Variant("dotted-head-is-a-field:import", "\n".join(L) + "\n", (("Track",), "f"), 9, 0, files={"lib.bitproto": "proto lib\nenum X : uint9 {\n    Z = 0\n}\n"}))
    # ---- a message becomes visible where it CLOSES: inside its own body (and in messages nested in it) its name still means
    # the earlier outer definition of that name
    L = ["proto p"] + _enum("", "X", "w0", "Z0") + ["message A {", I + "message X {", I * 2 + "message D {", I * 3 + "X f = 1", I * 2 + "}", I * 2 + "X g = 2", I * 2 + "uint{U:w1pad} pad = 3".replace("uint{U:w1pad}", "{U:w1}"), I + "}", "}"]
    out.append(Variant("own-name-inside:nested", "\n".join(L) + "\n", (("A", "X", "D"), "f"), "w0", 0))
    out.append(Variant("own-name-inside:direct", "\n".join(L) + "\n", (("A", "X"), "g"), "w0", 0))
    # ---- an import without `as` binds the imported file's PROTO name, whatever the file is called
    out.append(Variant("import-binds-proto-name", "\n".join(["proto p", 'import "units_v2.bitproto"', "message A {", I + "units.X f = 1", "}"]) + "\n", (("A",), "f"), 9, 0,
                       files={"units_v2.bitproto": "proto units\nenum X : uint9 {\n    Z = 0\n}\n"}))
    out.append(Variant("import-binds-proto-name:by-stem-rejected", "\n".join(["proto p", 'import "units_v2.bitproto"', "message A {", I + "units_v2.X f = 1", "}"]) + "\n", (("A",), "f"), None, 4,
                       files={"units_v2.bitproto": "proto units\nenum X : uint9 {\n    Z = 0\n}\n"}))
    sw = {"left.bitproto": "proto right\nenum W : uint9 {\n    Z = 0\n}\n", "right.bitproto": "proto left\nenum W : uint5 {\n    Z = 0\n}\n"}
    L = ["proto p", 'import "left.bitproto"', 'import "right.bitproto"', "message A {", I + "left.W f = 1", I + "right.W g = 2", "}"]
    out.append(Variant("import-binds-proto-name:swapped:f", "\n".join(L) + "\n", (("A",), "f"), 5, 0, files=sw))
    out.append(Variant("import-binds-proto-name:swapped:g", "\n".join(L) + "\n", (("A",), "g"), 9, 0, files=sw))
    # ---- file-scope alias instead of enum, use at depth 1 and 2
    for lvl1 in ("none", "before"):
        L = ["proto p", "type X = {I:w0}[2]", "message A {"]
        if lvl1 == "before":
            L += _enum(I, "X", "w1", "Z1")
        L += [I + "X f = 1", "}"]
        out.append(Variant(f"alias0:{lvl1}", "\n".join(L) + "\n", (("A",), "f"), "w1" if lvl1 == "before" else "2*w0", len(L) - 1))
    # ---- dotted paths from a later top-level message
    for present in itertools.product((False, True), repeat=4):
        base = ["proto p"]
        if present[0]:
            base += _enum("", "X", "w0", "Z0")
        base.append("message A {")
        if present[1]:
            base += _enum(I, "X", "w1", "Z1")
        base.append(I + "message B {")
        if present[2]:
            base += _enum(I * 2, "X", "w2", "Z2")
        base.append(I * 2 + "message C {")
        if present[3]:
            base += _enum(I * 3, "X", "w3", "Z3")
        base += [I * 2 + "}", I + "}", "}"]
        for k, ref in enumerate(("X", "A.X", "A.B.X", "A.B.C.X")):
            if quick and (sum(present) + k) % 2:
                continue
            L = base + ["message D {", I + f"{ref} d = 1", "}"]
            out.append(Variant(f"dotted:{''.join('1' if p else '0' for p in present)}:{ref}", "\n".join(L) + "\n", (("D",), "d"), f"w{k}" if present[k] else None, len(L) - 1))
    # ---- dotted first component declared both nested and at file scope / as an import name
    for top in (False, True):
        for nested in (False, True):
            L = ["proto p"]
            if top:
                L += ["message B {"] + _enum(I, "K", "w0", "Z0") + ["}"]
            L.append("message A {")
            if nested:
                L += [I + "message B {"] + _enum(I * 2, "K", "w1", "Z1") + [I + "}"]
            L += [I + "B.K f = 1", "}"]
            exp = "w1" if nested else ("w0" if top else None)
            out.append(Variant(f"dotted-shadow:{int(top)}{int(nested)}", "\n".join(L) + "\n", (("A",), "f"), exp, len(L) - 1))
    for as_name in (None, "base"):
        q = as_name or "lib"
        for nested in (False, True):
            L = ["proto p", f'import {as_name + " " if as_name else ""}"lib.bitproto"', "message A {"]
            if nested:
                L += [I + f"message {q} {{"] + _enum(I * 2, "X", "w1", "Z1") + [I + "}"]
            L += [I + f"{q}.X f = 1", "}"]
            out.append(Variant(f"import-shadow:{q}:{int(nested)}", "\n".join(L) + "\n", (("A",), "f"), "w1" if nested else LIBW, len(L) - 1, {"lib.bitproto": LIB}))
        L = ["proto p", f'import {as_name + " " if as_name else ""}"lib.bitproto"'] + _enum("", "X", "w0", "Z0") + ["message A {", I + f"{q}.X f = 1", I + "X g = 2", I + f"{q}.B.K h = 3", I + f"{q}.T t = 4", "}"]
        for fld, exp in (("f", LIBW), ("g", "w0"), ("h", LIBW + 4), ("t", LIBW + 2)):
            out.append(Variant(f"import:{q}:{fld}", "\n".join(L) + "\n", (("A",), fld), exp, 0, {"lib.bitproto": LIB}))
    # the other name of the import is NOT visible
    out.append(Variant("import-as-hides-own-name", 'proto p\nimport base "lib.bitproto"\nmessage A {\n    lib.X f = 1\n}\n', (("A",), "f"), None, 4, {"lib.bitproto": LIB}))
    out.append(Variant("import-unqualified", 'proto p\nimport "lib.bitproto"\nmessage A {\n    X f = 1\n}\n', (("A",), "f"), None, 4, {"lib.bitproto": LIB}))
    # ---- an imported file sees only its own definitions: a lookup that misses there must not go on into the scopes of the
    # importing file (type, constant, import name), and its own definition wins over an earlier one of the importer
    CH = "proto child\nmessage C {\n    %s f = 1\n}\n"
    USE = ["message A {", I + "child.C c = 1", "}"]
    out.append(Variant("import-child-sees-importer:type", "\n".join(["proto p"] + _enum("", "X", "w0", "Z0") + ['import "child.bitproto"'] + USE) + "\n", (("A",), "c"), None, 0, {"child.bitproto": CH % "X"}))
    out.append(Variant("import-child-sees-importer:alias", "\n".join(["proto p", "type X = {U:w0}", 'import "child.bitproto"'] + USE) + "\n", (("A",), "c"), None, 0, {"child.bitproto": CH % "X"}))
    out.append(Variant("import-child-sees-importer:const", "\n".join(["proto p", "const N = {n:c0}", 'import "child.bitproto"'] + USE) + "\n", (("A",), "c"), None, 0, {"child.bitproto": CH % "bool[N]"}))
    out.append(Variant("import-child-sees-importer:import-name", "\n".join(["proto p", 'import "lib.bitproto"', 'import "child.bitproto"'] + USE) + "\n", (("A",), "c"), None, 0,
                       {"child.bitproto": CH % "lib.X", "lib.bitproto": LIB}))
    out.append(Variant("import-child-own-definition-wins", "\n".join(["proto p"] + _enum("", "X", "w0", "Z0") + ['import "child.bitproto"'] + USE) + "\n", (("A",), "c"), 9, 0,
                       {"child.bitproto": "proto child\nenum X : uint9 {\n    Z = 0\n}\nmessage C {\n    X f = 1\n}\n"}))
    # ---- a definition with an EMPTY body is a definition all the same: it is found, and it shadows the outer one
    for outer in (False, True):
        L = ["proto p"] + (_enum("", "X", "w0", "Z0") if outer else []) + ["message A {", I + "enum X : {U:w1} {", I + "}", I + "X f = 1", "}"]
        out.append(Variant(f"empty-enum-innermost:{int(outer)}", "\n".join(L) + "\n", (("A",), "f"), "w1", 0))
        L = ["proto p"] + (_enum("", "X", "w0", "Z0") if outer else []) + ["message A {", I + "message X {", I + "}", I + "X f = 1", "}"]
        out.append(Variant(f"empty-message-innermost:{int(outer)}", "\n".join(L) + "\n", (("A",), "f"), 0, 0))
    # constants: innermost is file scope only (consts cannot nest), must precede the use
    out.append(Variant("const-before", "proto p\nconst N = {n:c0}\nmessage A {\n    bool[N] f = 1\n}\n", (("A",), "f"), "c0", 4))
    out.append(Variant("const-after", "proto p\nmessage A {\n    bool[N] f = 1\n}\nconst N = {n:c0}\n", (("A",), "f"), None, 3))
    out.append(Variant("const-imported", 'proto p\nimport "k.bitproto"\nconst N = {n:c0}\nmessage A {\n    bool[k.N] f = 1\n    bool[N] g = 2\n}\n', (("A",), "g"), "c0", 0, {"k.bitproto": "proto k\nconst N = 5\n"}))
    return out


def work(v: Variant) -> Dict[str, Any]:
    from ..zc import Template, parse_text, plain_outcome, zc

    res = {"case": v.name, "messages": 1, "leaves": 0, "paths": 0, "queries": 0, "unsat": 0, "sat": 0, "unknown": 0, "solver_s": 0.0, "merges": 0, "witness": 0, "witness_agree": 0,
           "violations": [], "inconclusive": [], "samples": [], "obligations": 0}
    z = zc()
    PE = z.errors.ParserError
    tm = Template(v.text)
    text, holes = tm.render()
    names = sorted({n for _, n in tm.names()})
    zv = {n: z3.Int(n) for n in names}
    syms = {n: ZInt(zv[n]) for n in names}
    eng = Engine(max_paths=100)
    pysym.set_engine(eng)
    with Scratch() as sc:
        for fn, txt in v.files.items():
            with open(sc.path(fn), "w") as f:
                f.write(txt)
        main = sc.path("main.bitproto")
        with open(main, "w") as f:
            f.write(text)

        def h() -> Any:
            for n in names:
                if n.startswith("w"):
                    pysym.ENGINE.assume(z3.And(zv[n] >= 1, zv[n] <= 64))  # pre-condition: widths are valid
                else:
                    pysym.ENGINE.assume(z3.And(zv[n] >= 1, zv[n] <= 1000))
            return parse_text(text, holes, syms, filepath=main)

        try:
            for p in eng.explore(h):
                wm = p.witness()
                vals = {n: wm.eval(zv[n], model_completion=True).as_long() for n in names}
                ctext = tm.concrete(vals)
                with open(main, "w") as f:
                    f.write(ctext)
                po, pobj = plain_outcome(ctext, filepath=main)
                with open(main, "w") as f:
                    f.write(text)
                res["witness"] += 1
                sym_out = "ok" if p.exc is None else type(p.exc).__name__
                if po == sym_out:
                    res["witness_agree"] += 1
                else:
                    res["inconclusive"].append(f"{v.name}: token-substitution validation mismatch: symbolic {sym_out}, native {po}")
                res["obligations"] += 1
                files = dict(v.files)
                files["main.bitproto"] = ctext
                if p.exc is not None:
                    if v.expect is not None:
                        if po == "ok":  # the real compiler accepts this witness: the rejection is the engine's
                            res["inconclusive"].append(f"{v.name}: rejected with {sym_out} in the symbolic run only ({p.exc}); the real compiler accepts {vals}")
                        else:
                            res["violations"].append(_viol(v, files, vals, f"rejected with {sym_out} ({p.exc}) although a visible earlier definition exists", True))
                    elif not isinstance(p.exc, PE):
                        res["inconclusive"].append(f"{v.name}: {sym_out} escapes (C09)")
                    continue
                proto = p.value
                node = proto
                for mname in v.use[0]:
                    node = node.members[mname]
                fld = node.members[v.use[1]]
                if v.expect is None:
                    res["violations"].append(_viol(v, files, vals, f"accepted although no earlier definition of the name is visible at the use (resolved to {fld.type!r} in {getattr(fld.type, 'filepath', '?')}:{getattr(fld.type, 'lineno', '?')})", po == "ok"))
                    continue
                got = ZInt.lift(fld.type.nbits())
                if isinstance(v.expect, int):
                    want = z3.IntVal(v.expect)
                elif v.expect == "2*w0":
                    want = 2 * zv["w0"]
                else:
                    want = zv[v.expect]
                r, model = p.holds(got == want)
                if r == "unknown":
                    res["inconclusive"].append(f"{v.name}: solver unknown")
                elif r == "sat":
                    cv = {n: model.eval(zv[n], model_completion=True).as_long() for n in names}
                    ct = tm.concrete(cv)
                    with open(main, "w") as f:
                        f.write(ct)
                    po2, pr2 = plain_outcome(ct, filepath=main)
                    with open(main, "w") as f:
                        f.write(text)
                    conf = False
                    gotn = None
                    if po2 == "ok":
                        n2 = pr2
                        for mname in v.use[0]:
                            n2 = n2.members[mname]
                        gotn = n2.members[v.use[1]].type.nbits()
                        wantn = z3.simplify(z3.substitute(want, *[(zv[n], z3.IntVal(cv[n])) for n in names])).as_long() if names else v.expect
                        conf = gotn != wantn
                    files["main.bitproto"] = ct
                    if conf:
                        res["violations"].append(_viol(v, files, cv, f"field {'.'.join(v.use[0])}.{v.use[1]} resolves to a {gotn}-bit definition, the innermost visible earlier one has {wantn} bits", True))
                    else:
                        res["inconclusive"].append(f"{v.name}: solver model did not reproduce natively: {cv}")
                elif len(res["samples"]) < 1:
                    res["samples"].append({"variant": v.name, "use": list(v.use[0]) + [v.use[1]], "expected_width": v.expect, "nbits_term": str(z3.simplify(got)), "verdict": "unsat"})
        except Inconclusive as e:
            res["inconclusive"].append(f"{v.name}: {type(e).__name__}: {e}")
    for k in ("paths", "queries", "unsat", "sat", "unknown"):
        res[k] += eng.stats.get(k, 0)
    res["solver_s"] += eng.stats.get("solver_s", 0.0)
    return res


def _viol(v: Variant, files: Dict[str, str], vals: Dict[str, int], what: str, confirmed: bool) -> Dict[str, Any]:
    return {"what": f"{v.name} {vals}: {what}", "payload": {"kind": "schema", "files": files, "main": "main.bitproto", "values": vals, "use": [list(v.use[0]), v.use[1]], "what": what},
            "confirmed": confirmed, "info": {"kind": "resolve", "key": "resolve"}}


# ---- stage 2: the resolved definition is the one that is encoded (E1/BV, concrete widths)
def f_shadow() -> List[Case]:
    cases: List[Case] = []
    U = lambda n: TBase("uint", n)

    def en(name: str, w: int, tag: str) -> Enum:
        return Enum(name, w, [(f"{tag}_A", 0), (f"{tag}_B", (1 << w) - 1)])

    k = 0
    for present in itertools.product((False, True), repeat=4):
        if not any(present):
            continue
        e = [en("X", 3 + 2 * i, f"L{i}") if present[i] else None for i in range(4)]
        inner = max(i for i in range(4) if present[i])
        c = Message("C", [Field(U(2), "p", 1), Field(TRef(e[inner], "X"), "f", 2), Field(TArray(TRef(e[inner], "X"), 2), "fs", 3), Field(U(3), "t", 4)], nested=[x for x in [e[3]] if x])
        vis_b = max(i for i in range(3) if present[i]) if any(present[:3]) else None
        b = Message("B", [Field(TRef(c), "c", 1)] + ([Field(TRef(e[vis_b], "X"), "g", 2)] if vis_b is not None else []), nested=[x for x in [e[2]] if x] + [c])
        a = Message("A", [Field(TRef(b), "b", 1)], nested=[x for x in [e[1]] if x] + [b])
        dfields = []
        for i, ref in enumerate(("X", "A.X", "A.B.X", "A.B.C.X")):
            if present[i]:
                dfields.append(Field(TRef(e[i], ref), f"d{i}", i + 1))
        d = Message("D", dfields + [Field(U(1), "z", 9)])
        p = Proto(f"shadow{k}", [x for x in [e[0]] if x] + [a, d])
        cases.append(case_of(p.name, p, ("shadow",), only=["A", "D", "C"]))
        k += 1
    # import names: two files imported under each other's proto names (`as`); the qualifier written in the schema decides
    ta, tb = Alias("T", TBase("int", 3)), Alias("T", TBase("uint", 11))
    ma, mb = en("Mode", 2, "A"), en("Mode", 7, "B")
    pa, pb = Proto("a", [ta, ma]), Proto("b", [tb, mb])
    m = Message("M", [Field(TRef(ta, "b.T"), "x", 1), Field(TRef(tb, "a.T"), "y", 2), Field(TRef(ma, "b.Mode"), "m", 3), Field(TRef(mb, "a.Mode"), "n", 4), Field(TArray(TRef(tb, "a.T"), 2), "ys", 5)])
    cases.append(case_of("imp_swap", Proto("imp_swap", [m], [Import(pa, "b"), Import(pb, "a")]), ("shadow", "import", "noc")))
    cases.append(samename_case())
    return cases


def _stage2(job: Any) -> Dict[str, Any]:
    """stage 2 workers with one difference: when the code generated for these accepted shadowing schemas does not load
    (Python) or does not have the struct members the schema declares (C layout unit rejected), a name was bound to the wrong
    definition somewhere between parser and generator -- a violation here, not a precondition failure"""
    from . import cenc

    is_c = isinstance(job[1], list)
    r = (cenc.work if is_c else pyenc.work)(job)
    keep = []
    for w in r.get("inconclusive", []):
        if "generated module does not load" in w or "clang rejected bpv_layout.c" in w or "clang rejected" in w and "_bp.c" in w:
            case = job[0]
            r["violations"].append({"what": f"{case.name}: the code generated for this accepted schema is not what its names resolve to: {w[-260:]}",
                                    "payload": {"kind": "schema", "files": case.proto.files(), "main": case.proto.fname()}, "confirmed": True, "info": {"kind": "binding", "key": "generated-binding"}})
        else:
            keep.append(w)
    r["inconclusive"] = keep
    return r


def samename_case() -> Case:
    """an imported file with its own c.name_prefix, and local definitions with the SAME names as the imported ones used next to
    them: `Pos` is the local one, `shared.Pos` the imported one -- in every target language"""
    U = lambda n: TBase("uint", n)
    I = lambda n: TBase("int", n)
    lpos = Message("Pos", [Field(I(11), "x", 1), Field(I(11), "y", 2)])
    lid = Alias("Id", U(9))
    lib = Proto("shared", [lid, lpos], [], [("c.name_prefix", '"lib_"')])
    pos = Message("Pos", [Field(U(3), "q", 1)])
    ident = Alias("Id", U(5))
    frame = Message("Frame", [Field(TRef(pos), "a", 1), Field(TRef(lpos, "shared.Pos"), "b", 2), Field(TRef(ident), "i", 3), Field(TRef(lid, "shared.Id"), "j", 4), Field(TArray(TRef(lpos, "shared.Pos"), 2), "bs", 5)])
    return case_of("imp_prefix_samename", Proto("imp_prefix_samename", [pos, ident, frame], [Import(lib, None)]), ("shadow", "import"), only=["Frame"])


def main() -> int:
    from .agg import run_parts

    q = tier() == "quick"
    vs = variants(q)
    sh = f_shadow()
    from . import cenc
    from .cenc import Cfg

    parts = [("parser-templates", work, vs), ("encoded-definition", _stage2, [(c, "encode") for c in sh]),
             ("encoded-definition-c", _stage2, [(samename_case(), [Cfg("O0", "x86_64", False)], ("encode", "decode"))])]
    meta = {
        "functions_encoded": FILES + ["lib/py/bitprotolib/bp.py", "compiler/bitproto/renderer/impls/py/renderer.py"],
        "bounds": "use at nesting depth <= 3; the name optionally declared at each of the 4 enclosing levels none/before/after (3^4 placements; quick: thinned), dotted paths of depth <= 4 from a later message, first dotted component shadowed by a nested message / an import name, imports with and without `as`, constants; widths symbolic in 1..64 (pre-condition); stage 2: 15 concrete shadowing schemas encoded for all values",
        "outside_claim": "scopes deeper than 3; more than one import level; an inner scope declaring only a *prefix* of a dotted path that an outer scope declares completely (the property does not say which reading applies)",
        "explanation": "accepted <=> a visible earlier definition exists; then field.type.nbits() == the width variable of the innermost visible one (unsat for all widths); stage 2 proves the generated encoder uses that definition's width and members",
        "evaluations": len(vs) + len(sh),
        "distinct_nontrivial": len(vs) + len(sh),
        "rule": "one evaluation = one placement variant explored along all paths of its symbolic widths",
    }
    return run_parts(PROP, "other", parts, meta, ["z3 decides the integer queries", "my own resolver (encoded in the variant generator) states the scoping rule of the property"])


def replay(path: str) -> int:
    import json

    from ..compile import compile_cli, write_files

    p = json.load(open(path))
    with Scratch() as sc:
        write_files(p["files"], sc.dir)
        r = compile_cli(sc.dir, p["main"], None, None, ["-c"])
        print(f"exit={r.returncode} {r.stderr[-300:]}")
    print("expected:", p["what"])
    return 1
