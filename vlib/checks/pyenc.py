"""E1/BV harnesses: symbolic encode (C01) and encode->decode->encode round trip (C02) of the
generated Python + real bp.py, per schema case; used by several property checks."""
from __future__ import annotations

import os
import random
import time
from typing import Any, Dict, List, Optional, Tuple

import z3

from .. import pysym
from ..common import Inconclusive, Scratch, seed
from ..compile import CompileError
from ..families import Case
from ..pyrt import PyTarget, cell8, leaf_term_of, model_values, native_run, nav_get
from ..pysym import Engine
from ..schema import layout, leaf_range, print_proto, spec_decode, spec_encode
from .pycommon import MsgRun, compile_case_py, exc_info, extreme_values, subst_eval, vals_case, values_to_assign

MAX_PATHS = 600


def new_result(case: Case) -> Dict[str, Any]:
    return {
        "case": case.name, "tags": list(case.tags), "messages": 0, "leaves": 0, "bits": 0, "paths": 0, "queries": 0, "unsat": 0, "sat": 0, "unknown": 0,
        "solver_s": 0.0, "merges": 0, "witness": 0, "witness_agree": 0, "violations": [], "inconclusive": [], "samples": [], "exec_s": 0.0, "obligations": 0,
    }


def _acc(res: Dict[str, Any], eng: Engine) -> None:
    for k in ("paths", "queries", "unsat", "sat", "unknown", "merges"):
        res[k] += eng.stats.get(k, 0)
    res["solver_s"] += eng.stats.get("solver_s", 0.0)


def _vals_from_model(mr: MsgRun, model: Any) -> Dict[Any, int]:
    d = {}
    for l in mr.lay.leaves():
        t = mr.terms[l.path]
        if z3.is_app_of(t, z3.Z3_OP_EXTRACT):  # free (out-of-range) leaf: the whole signed value
            d[l.path] = model.eval(t.arg(0), model_completion=True).as_signed_long()
            continue
        v = model.eval(t, model_completion=True).as_long()
        if l.signed and v >> (l.n - 1):
            v -= 1 << l.n
        d[l.path] = v
    return d


def _payload(case: Case, mr: MsgRun, op: str, vals: Dict[Any, int], extra: Dict[str, Any]) -> Dict[str, Any]:
    p = {
        "kind": "py-runtime", "op": op, "case": case.name, "files": case.proto.files(), "main": case.proto.fname(), "module": mr.module, "message": mr.cls,
        "values": vals_case(mr.lay, vals), "spec_bytes": spec_encode(mr.lay, vals).hex(),
    }
    p.update(extra)
    return p


def work(args: Tuple[Case, str]) -> Dict[str, Any]:
    """op: 'encode' | 'roundtrip' | 'oob' (encode with integer leaves holding arbitrary 128-bit
    values: the bits a field contributes must be a function of its low n bits only)"""
    case, op = args
    free_bits = 128 if op == "oob" else None
    res = new_result(case)
    t00 = time.time()
    rng = random.Random(seed() * 7919 + hash(case.name) % 100003)
    with Scratch() as sc:
        try:
            gen, mods = compile_case_py(case, sc)
        except CompileError as e:
            res["inconclusive"].append(f"{case.name}: real compiler rejected the family schema: {e}")
            return res
        try:
            T = PyTarget(gen, mods)
        except Exception as e:
            res["inconclusive"].append(f"{case.name}: generated module does not load: {type(e).__name__}: {e}")
            return res
        for msg, chain in case.messages:
            mr = MsgRun(T, gen, mods[0], msg, chain, free_bits=free_bits)
            lay = mr.lay
            res["messages"] += 1
            res["leaves"] += len(lay.leaves())
            res["bits"] += lay.nbits
            eng = Engine(max_paths=MAX_PATHS)
            pysym.set_engine(eng)
            nop = "roundtrip" if op == "roundtrip" else "encode"
            natives: List[Dict[str, Any]] = []  # native jobs
            checks: List[Tuple[str, Any]] = []  # how to check each native result
            try:
                # size constant of the generated class
                bl = getattr(T.cls(mr.cls), "BYTES_LENGTH", None)
                if bl != lay.nbytes:
                    res["violations"].append({"what": f"{case.name}.{mr.cls}: BYTES_LENGTH={bl}, expected ceil({lay.nbits}/8)={lay.nbytes}",
                                              "payload": _payload(case, mr, "size", {l.path: 0 for l in lay.leaves()}, {"bytes_length": bl, "expected": lay.nbytes}), "confirmed": True,
                                              "info": {"kind": "size"}})

                def h_enc() -> Any:
                    mr.assume_all()
                    return mr.filled().encode()

                def h_rt() -> Any:
                    mr.assume_all()
                    s = mr.filled().encode()
                    d = mr.fresh()
                    d.decode(s)
                    s2 = d.encode()
                    return s, d, s2

                for p in eng.explore(h_rt if op == "roundtrip" else h_enc):
                    wm = p.witness()
                    wvals = _vals_from_model(mr, wm)
                    if p.exc is not None:
                        info = exc_info(p.exc, gen)
                        natives.append({"message": mr.cls, "op": nop, "values": vals_case(lay, wvals), "read": [list(map(list, l.path)) for l in lay.leaves()]})
                        checks.append(("exc", (mr, wvals, info)))
                        continue
                    if op != "roundtrip":
                        out = p.value
                        s_cells, dec, s2_cells = out.cells, None, None
                    else:
                        s, dec, s2 = p.value
                        s_cells, s2_cells = s.cells, s2.cells
                    conj = []
                    what = []
                    if len(s_cells) != lay.nbytes:
                        conj.append(z3.BoolVal(False))
                        what.append(f"length {len(s_cells)} != {lay.nbytes}")
                    else:
                        conj += [cell8(c) == sp for c, sp in zip(s_cells, mr.spec)]
                    if dec is not None:
                        for l in lay.leaves():
                            t, inr = leaf_term_of(nav_get(dec, l.path), l)
                            conj += [t == mr.terms[l.path], inr]
                        if len(s2_cells) != len(s_cells):
                            conj.append(z3.BoolVal(False))
                        else:
                            conj += [cell8(a) == cell8(b) for a, b in zip(s_cells, s2_cells)]
                    res["obligations"] += len(conj)
                    r, model = p.holds(z3.And(*conj) if conj else z3.BoolVal(True))
                    if r == "unknown":
                        res["inconclusive"].append(f"{case.name}.{mr.cls}: solver unknown")
                        continue
                    if r == "sat":
                        cvals = _vals_from_model(mr, model)
                        natives.append({"message": mr.cls, "op": nop, "values": vals_case(lay, cvals), "read": [list(map(list, l.path)) for l in lay.leaves()]})
                        checks.append(("cex", (mr, cvals, None)))
                        continue
                    # validation of the proxies: witness + extremes through native CPython must
                    # give what the symbolic terms evaluate to
                    for vals in [wvals] + extreme_values(lay, rng, 1, free_bits):
                        asg = values_to_assign(lay, mr.terms, vals)
                        if not all(z3.is_true(subst_eval(c, asg)) for c in p.pc):
                            continue
                        exp_bytes = bytes(subst_eval(cell8(c), asg).as_long() for c in s_cells).hex()
                        natives.append({"message": mr.cls, "op": nop, "values": vals_case(lay, vals), "read": [list(map(list, l.path)) for l in lay.leaves()]})
                        checks.append(("wit", (mr, vals, exp_bytes)))
                    if len(res["samples"]) < 2:
                        res["samples"].append({"case": case.name, "message": mr.cls, "nbits": lay.nbits, "leaves": [f"{l.pname()}:{l.kind}{l.n}@{l.off}" for l in lay.leaves()][:12],
                                               "paths_so_far": eng.stats["paths"], "verdict": "unsat", "witness": {l.pname(): wvals[l.path] for l in lay.leaves()[:8]}})
            except Inconclusive as e:
                res["inconclusive"].append(f"{case.name}.{mr.cls}: {type(e).__name__}: {e}")
            _acc(res, eng)
            # ---- native replays for this message
            if natives:
                try:
                    outs = native_run(gen, mods[0], natives)
                except Inconclusive as e:
                    res["inconclusive"].append(f"{case.name}.{mr.cls}: {e}")
                    continue
                for (kind, (mr_, vals, aux)), o in zip(checks, outs):
                    specb = spec_encode(lay, vals).hex()
                    if kind == "wit":
                        res["witness"] += 1
                        ok = ("exc" not in o) and o.get("bytes") == aux
                        if ok and op == "roundtrip":
                            ok = o.get("bytes2") == aux and all(v == vals[tuple(map(tuple, pth))] for pth, v in o.get("leaves", []))
                        if ok:
                            res["witness_agree"] += 1
                        else:
                            res["inconclusive"].append(f"{case.name}.{mr.cls}: proxy validation mismatch: native {o} vs symbolic bytes {aux} for {vals_case(lay, vals)[:6]}")
                        continue
                    # counterexample or exception path: must reproduce natively against the oracle
                    bad = None
                    if "exc" in o:
                        bad = f"{o['exc']}: {o['msg']} at {o['frame']}"
                    elif o.get("bytes") != specb:
                        bad = f"encode gives {o.get('bytes')} but the specified layout is {specb}"
                    elif op == "roundtrip":
                        wrong = [(pth, v, vals[tuple(map(tuple, pth))]) for pth, v in o["leaves"] if v != vals[tuple(map(tuple, pth))]]
                        if wrong:
                            bad = f"decode(encode(v)) != v at {wrong[:3]}"
                        elif o.get("bytes2") != o.get("bytes"):
                            bad = f"re-encode gives {o.get('bytes2')} != {o.get('bytes')}"
                    if bad is None:
                        res["inconclusive"].append(f"{case.name}.{mr.cls}: solver model did not reproduce natively ({kind}); values {vals_case(lay, vals)[:6]}")
                        continue
                    info = {"kind": kind, "native": o, "leaves": [[l.pname(), l.kind, l.n, l.off] for l in lay.leaves()], "key": cause_key(lay, op, o, vals)}
                    res["violations"].append({"what": f"{case.name}.{mr.cls}: {bad}", "payload": _payload(case, mr, nop, vals, {"native": o}), "confirmed": True, "info": info})
    res["exec_s"] = round(time.time() - t00, 3)
    return res


def cause_key(lay: Any, op: str, o: Dict[str, Any], vals: Dict[Any, int]) -> str:
    """A key computed from the concrete native failure, used to attribute it to a listed known
    finding (and to nothing else)."""
    import re

    nozero = {l.enum.name for l in lay.leaves() if l.kind == "enum" and l.enum and all(v != 0 for _, v in l.enum.members)}
    if "exc" in o:
        m = re.match(r"(\d+) is not a valid (\w+)", o.get("msg", ""))
        fr = o.get("frame") or ["", "", ""]
        if o["exc"] == "ValueError" and m and m.group(2).split(".")[-1] in nozero and (fr[1].startswith("_get_") or "bp_set_byte" in fr[1]):
            return "enum-without-zero-member"
        return ""
    if op == "roundtrip" and "leaves" in o:
        by = {l.path: l for l in lay.leaves()}
        wrong = [by[tuple(map(tuple, pth))] for pth, v in o["leaves"] if v != vals[tuple(map(tuple, pth))]]
        if wrong and all(l.kind == "enum" and l.enum and l.enum.name in nozero for l in wrong):
            return "enum-without-zero-member"
    return ""


def replay_payload(payload: Dict[str, Any]) -> Tuple[bool, str]:
    """Re-run a recorded py-runtime counterexample against the current /repo natively.
    Returns (still_fails, description)."""
    from ..compile import compile_cli

    with Scratch() as sc:
        src = sc.path("src")
        gen = sc.path("gen")
        os.makedirs(src)
        os.makedirs(gen)
        from ..compile import write_files

        write_files(payload["files"], src)
        for fn in payload["files"]:
            r = compile_cli(src, fn, "py", gen, ["-q"])
            if r.returncode != 0:
                return True, f"compiler failed: {r.stderr[-300:]}"
        if payload["op"] == "size":
            o = native_run(gen, payload["module"], [{"message": payload["message"], "op": "encode", "values": []}])[0]
            n = len(bytes.fromhex(o.get("bytes", "")))
            return n != payload["expected"], f"encode() length {n}, expected {payload['expected']}"
        paths = [v[0] for v in payload["values"]]
        o = native_run(gen, payload["module"], [{"message": payload["message"], "op": payload["op"], "values": payload["values"], "read": paths}])[0]
        if "exc" in o:
            return True, f"{o['exc']}: {o['msg']}"
        if o.get("bytes") != payload["spec_bytes"]:
            return True, f"encode gives {o.get('bytes')}, specified {payload['spec_bytes']}"
        if payload["op"] == "roundtrip":
            exp = {str(v[0]): v[1] for v in payload["values"]}
            for pth, v in o["leaves"]:
                if exp[str(pth)] != v:
                    return True, f"decode(encode(v)) != v at {pth}: {v} != {exp[str(pth)]}"
            if o["bytes2"] != o["bytes"]:
                return True, "re-encode differs"
        return False, "holds on this input now"
