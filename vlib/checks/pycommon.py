"""Shared driver for the E1/BV checks over generated Python + the real bp.py."""
from __future__ import annotations

import os
import random
import time
import traceback
from typing import Any, Callable, Dict, List, Optional, Tuple

import z3

from .. import pysym
from ..common import REPO, Inconclusive, Scratch
from ..compile import CompileError, compile_inproc, write_files
from ..families import Case
from ..pyrt import PyTarget, cell8, leaf_term_of, model_values, native_run, nav_get, nav_set, py_class_name, sym_leaves
from ..pysym import Engine
from ..schema import Layout, Message, layout, leaf_range, spec_bytes_z3, spec_encode

RUNTIME_FILES = ["lib/py/bitprotolib/bp.py", "compiler/bitproto/renderer/impls/py/renderer.py", "compiler/bitproto/renderer/impls/py/formatter.py", "compiler/bitproto/renderer/formatter.py", "compiler/bitproto/_ast.py", "compiler/bitproto/parser.py"]


def compile_case_py(case: Case, sc: Scratch) -> Tuple[str, List[str]]:
    """write the schema files, compile every file with the real compiler; returns (gendir,
    module names with the main module first)"""
    src = sc.path("src_" + case.name)
    gen = sc.path("gen_" + case.name)
    os.makedirs(src, exist_ok=True)
    files = case.proto.files(getattr(case, "style", None))
    write_files(files, src)
    mods = []
    for fn in files:
        compile_inproc(src, fn, "py", gen)
        mods.append(fn.rsplit(".", 1)[0] + "_bp")
    return gen, mods


def subst_eval(term: Any, assign: List[Tuple[Any, Any]]) -> Any:
    return z3.simplify(z3.substitute(term, *assign)) if assign else z3.simplify(term)


def values_to_assign(lay: Layout, terms: Dict[Any, Any], vals: Dict[Any, int]) -> List[Tuple[Any, Any]]:
    out = []
    for l in lay.leaves():
        t = terms[l.path]
        v = vals[l.path]
        if l.kind == "bool":
            # term is If(b,1,0): substitute the Bool variable
            b = t.arg(0)
            out.append((b, z3.BoolVal(bool(v))))
        else:
            var = t if z3.is_const(t) else t.arg(0)
            out.append((var, z3.BitVecVal(v, var.size())))
    return out


def extreme_values(lay: Layout, rng: random.Random, n_random: int = 2, free_bits: Optional[int] = None) -> List[Dict[Any, int]]:
    """min / max / -1-or-all-ones / seeded random assignments (enum leaves: members only)"""
    outs: List[Dict[Any, int]] = []
    for mode in ["min", "max", "ones"] + ["rnd"] * n_random:
        d: Dict[Any, int] = {}
        for l in lay.leaves():
            lo, hi = leaf_range(l)
            if free_bits and l.kind in ("uint", "int"):
                lo, hi = -(1 << (free_bits - 1)), (1 << (free_bits - 1)) - 1
            if l.kind == "enum":
                ms = [v for _, v in l.enum.members] if l.enum else []
                if not ms:
                    return []
                d[l.path] = {"min": min(ms), "max": max(ms), "ones": ms[-1]}.get(mode, rng.choice(ms))
            elif mode == "min":
                d[l.path] = lo
            elif mode == "max":
                d[l.path] = hi
            elif mode == "ones":
                d[l.path] = -1 if (l.signed or free_bits) and l.kind in ("uint", "int") else hi
            else:
                d[l.path] = rng.randint(lo, hi)
        outs.append(d)
    return outs


def vals_case(lay: Layout, vals: Dict[Any, int]) -> List[Any]:
    return [[list(map(list, l.path)), vals[l.path], l.kind] for l in lay.leaves()]


class MsgRun:
    """Everything needed to run harnesses for one message of one compiled case."""

    def __init__(self, target: PyTarget, gendir: str, module: str, msg: Message, chain: List[str], free_bits: Optional[int] = None):
        self.T = target
        self.gendir = gendir
        self.module = module
        self.msg = msg
        self.cls = py_class_name(chain)
        self.lay = layout(msg)
        self.terms, self.prox, self.assumes = sym_leaves(self.lay, free_bits=free_bits)
        self.spec = spec_bytes_z3(self.lay, self.terms)

    def fresh(self) -> Any:
        return self.T.new(self.cls)

    def filled(self) -> Any:
        m = self.fresh()
        for l in self.lay.leaves():
            nav_set(m, l.path, self.prox[l.path])
        return m

    def assume_all(self) -> None:
        for a in self.assumes:
            pysym.ENGINE.assume(a)


def exc_info(e: BaseException, gendir: str) -> Dict[str, Any]:
    tb = traceback.extract_tb(e.__traceback__)
    fr = [f for f in tb if gendir in f.filename or "bitprotolib" in f.filename]
    last = fr[-1] if fr else (tb[-1] if tb else None)
    return {
        "exc": type(e).__name__,
        "msg": str(e)[:200],
        "frame": [last.filename.split("/")[-1], last.name, (last.line or "").strip()] if last else None,
    }
