"""C05 Forward compatibility: an older schema decodes data from an extended one."""
from __future__ import annotations

from ..common import seed, tier
from ..families import f_evo
from . import pyevo
from .agg import run_parts
from .pycommon import RUNTIME_FILES

PROP = "C05"


def main() -> int:
    q = tier() == "quick"
    evo = f_evo(q, seed())
    parts = [("python", pyevo.work, evo)]
    try:
        from . import cevo  # C runtime part (E2)

        parts.append(("c", cevo.work, cevo.select(evo, q)))
    except ImportError:
        pass
    try:
        from . import goevo  # Go runtime part (E3)

        parts.append(("go", goevo.work, goevo.select(evo, q)))
    except ImportError:
        pass
    meta = {
        "functions_encoded": RUNTIME_FILES + ["lib/c/bitproto.c", "lib/go/bitproto.go"],
        "bounds": "F_evo: every single permitted step (append 1-2 fields / a nested extensible message; capacity +1, +3, x2) on every extensible node of the extensible F_shape schemas and four evolution-specific bases, and two-step chains (quick: seeded subset of chains; thorough: all two-step chains and a seeded sample of three-step chains); all values of the newest version",
        "outside_claim": "evolutions the property does not permit; chains longer than 3; schemas outside the family",
        "explanation": "wire = specified encoding of the NEW version with symbolic leaves (prefixes are that version's constants); the OLD version's generated decoder runs symbolically on it; obligation: every leaf that exists in the old version equals the new leaf at the same path",
        "stubs": ["as C01 (Python)"],
    }
    return run_parts(PROP, "translation_validation", parts, meta, ["z3 decides QF_BV", "reference encoder states the wire layout of the new version (tied to the real encoders by C01/C03)", "native replays use the new version's real encoder and the old version's real decoder"])


def replay(path: str) -> int:
    import json

    p = json.load(open(path))
    print("replay files are self-contained: old_files/new_files + values; see payload['native']")
    print(json.dumps(p.get("native"), indent=1)[:600])
    return 1
