"""C09 Compilation is total (kernel): nothing but a parser error (or an OS error for an
unreadable import) escapes parsing, nothing but a renderer error escapes rendering -- for all
values of the numeric holes of token templates, for token-level mutations of valid schemas,
and for the lexer's escape loop (CrossHair)."""
from __future__ import annotations

import contextlib
import io
import os
import random
import re
import time
from typing import Any, Dict, List, Optional, Tuple

import z3

from .. import pysym
from ..common import REPO, Inconclusive, Scratch, TimeLimit, seed, tier, time_limit
from ..pysym import Engine, ZInt
from . import c08, c13

PROP = "C09"
FILES = ["compiler/bitproto/lexer.py", "compiler/bitproto/parser.py", "compiler/bitproto/_ast.py", "compiler/bitproto/_main.py", "compiler/bitproto/renderer/impls/py/formatter.py", "compiler/bitproto/renderer/formatter.py", "compiler/bitproto/renderer/block.py"]
LIB = "proto lib\ntype Row = uint12[3]\nenum Kind : uint3 {\n    K0 = 0\n}\nmessage Pt {\n    int10 x = 1\n}\nconst LN = 4\n"
MAIN = "main.bitproto"


def _res(name: str) -> Dict[str, Any]:
    return {"case": name, "messages": 1, "leaves": 0, "paths": 0, "queries": 0, "unsat": 0, "sat": 0, "unknown": 0, "solver_s": 0.0, "merges": 0, "witness": 0, "witness_agree": 0,
            "violations": [], "inconclusive": [], "samples": [], "obligations": 0, "rendered": 0}


def cli_traceback(files: Dict[str, str], main: str, langs: Tuple[Optional[str], ...] = (None,)) -> Optional[str]:
    """native replay: does the real CLI die with a traceback (internal exception) on this input?"""
    from ..compile import compile_cli, write_files

    with Scratch() as sc:
        write_files(files, sc.dir)
        for lang in langs:
            out = sc.path("out")
            os.makedirs(out, exist_ok=True)
            for flags in ((["-c"],) if lang is None else (["-q"], ["-q", "-O"]) if lang in ("c", "go") else (["-q"],)):
                r = compile_cli(sc.dir, main, lang, None if lang is None else out, flags)
                if "Traceback (most recent call last)" in r.stderr:
                    last = [l for l in r.stderr.strip().split("\n") if l.strip()][-1]
                    where = [l.strip() for l in r.stderr.split("\n") if "bitproto/" in l][-1:] or [""]
                    return f"[{lang or '-c'} {' '.join(flags)}] {last} @ {where[0]}"
    return None


def explore_template(name: str, ttext: str, files: Dict[str, str], render: bool, res: Dict[str, Any], traditional: bool = False) -> None:
    """all paths of one template through the real parser (and, on accepting paths, the real
    renderers of every language); any exception other than ParserError / OSError / RendererError
    is replayed through the real CLI and reported"""
    from ..zc import Template, parse_text, zc

    z = zc()
    PE, RE_ = z.errors.ParserError, z.errors.RendererError
    tm = Template(ttext)
    text, holes = tm.render()
    names = sorted({n for _, n in tm.names()})
    zv = {n: z3.Int(n) for n in names}
    syms = {n: ZInt(zv[n]) for n in names}
    eng = Engine(max_paths=300, timeout_ms=20000)
    pysym.set_engine(eng)
    rend = []
    # -O rendering unrolls arrays bit by bit: only with concrete capacities
    opt_ok = "[{" not in ttext and "[N]" not in ttext and "[A]" not in ttext
    if render:
        rend = [("c", z.mod("bitproto.renderer.impls.c.renderer_h").RendererCHeader, False), ("c", z.mod("bitproto.renderer.impls.c.renderer_c").RendererC, False),
                ("go", z.mod("bitproto.renderer.impls.go.renderer").RendererGo, False), ("py", z.mod("bitproto.renderer.impls.py.renderer").RendererPy, False)]
    with Scratch() as sc:
        for fn, txt in files.items():
            os.makedirs(os.path.dirname(sc.path(fn)), exist_ok=True)
            with open(sc.path(fn), "w") as f:
                f.write(txt)
        main = sc.path(MAIN)
        with open(main, "w") as f:
            f.write(text)
        stage = {"s": "parse"}

        def h() -> Any:
            stage["s"] = "parse"
            for n in names:
                pysym.ENGINE.assume(zv[n] >= 0)
            proto = parse_text(text, holes, syms, filepath=main, traditional_mode=traditional)
            if rend:
                stage["s"] = "lint"
                with contextlib.redirect_stderr(io.StringIO()):
                    z.mod("bitproto.linter").lint(proto)
            for lang, R, opt in rend:
                stage["s"] = f"render-{lang}"
                R(proto, outdir=sc.dir).render_string()
                res["rendered"] += 1
                if lang in ("c", "go") and "'" not in text and opt_ok:
                    stage["s"] = f"render-{lang}"
                    R(proto, outdir=sc.dir, optimization_mode=True).render_string()
                    res["rendered"] += 1
            return proto

        try:
          with time_limit(TEMPLATE_LIMIT):
            for p in eng.explore(h):
                res["obligations"] += 1
                e = p.exc
                if e is None or isinstance(e, (PE, OSError)) or (stage["s"] != "parse" and isinstance(e, RE_)):
                    continue
                wm = p.witness()
                vals = {n: wm.eval(zv[n], model_completion=True).as_long() for n in names}
                cfiles = dict(files)
                cfiles[MAIN] = tm.concrete(vals)
                langs: Tuple[Optional[str], ...] = (None,) if stage["s"] in ("parse", "lint") else (stage["s"].split("-")[1],)
                tb = cli_traceback(cfiles, MAIN, langs)
                if tb is None:
                    res["inconclusive"].append(f"{name}: {type(e).__name__} ({e}) at stage {stage['s']} did not reproduce through the real CLI for {vals}")
                    continue
                res["violations"].append({"what": f"{name} {vals}: internal {type(e).__name__} escapes at {stage['s']}: {tb}",
                                          "payload": {"kind": "schema", "files": cfiles, "main": MAIN, "values": vals, "stage": stage["s"], "traceback": tb}, "confirmed": True,
                                          "info": {"kind": "escape", "exc": type(e).__name__, "key": f"{type(e).__name__}@{tb.split('@')[-1].strip()}", "frame": [tb]}})
        except Inconclusive as e:
            res["inconclusive"].append(f"{name}: {type(e).__name__}: {e}")
        except TimeLimit:
            # `never hangs`: is it the compiler or the engine?  The same text (placeholders as literals) through the real CLI
            cfiles = dict(files)
            cfiles[MAIN] = text
            if cli_hangs(cfiles, MAIN):
                res["violations"].append({"what": f"{name}: the real command line does not finish within {CLI_LIMIT} s on a {len(text)}-character schema (stage reached symbolically: {stage['s']}): {text[:120]!r}",
                                          "payload": {"kind": "hang-cli", "files": cfiles, "main": MAIN}, "confirmed": True, "info": {"kind": "hang", "key": "hang-cli"}})
            else:
                res["inconclusive"].append(f"{name}: exploration exceeded {TEMPLATE_LIMIT} s at stage {stage['s']}; the real command line finishes on the same text")
    for k in ("paths", "queries", "unsat", "sat", "unknown"):
        res[k] += eng.stats.get(k, 0)
    res["solver_s"] += eng.stats.get("solver_s", 0.0)


TEMPLATE_LIMIT = 120
CLI_LIMIT = 20


def cli_hangs(files: Dict[str, str], main: str) -> bool:
    import subprocess

    from ..common import VENV_PY

    with Scratch() as sc:
        for fn, txt in files.items():
            os.makedirs(os.path.dirname(sc.path(fn)), exist_ok=True)
            with open(sc.path(fn), "w") as f:
                f.write(txt)
        os.makedirs(sc.path("out"), exist_ok=True)
        try:
            subprocess.run([VENV_PY, "-m", "bitproto._main", "py", sc.path(main), sc.path("out"), "-q"], capture_output=True, text=True, timeout=CLI_LIMIT, env={**os.environ, "PYTHONPATH": os.path.join(REPO, "compiler")})
        except subprocess.TimeoutExpired:
            return True
    return False


# ---- part A: the C08 catalogue and the C13 expression shapes (division!) as totality templates
def work_catalogue(t: Any) -> Dict[str, Any]:
    res = _res("cat:" + t.name)
    render = "{U:" not in t.text and "{I:" not in t.text  # widths stay concrete when rendering
    explore_template(t.name, t.text, t.files, render, res, t.traditional)
    if len(res["samples"]) < 1:
        res["samples"].append({"template": t.name, "paths": res["paths"], "rendered": res["rendered"]})
    return res


def work_expr(job: Any) -> Dict[str, Any]:
    shape, idx = job
    ttext, env, holes, expr = c13.build(shape, idx, True)
    res = _res("expr:" + shape[0])
    explore_template(shape[0], ttext, {"lib.bitproto": c13.LIB}, True, res)
    if len(res["samples"]) < 1:
        res["samples"].append({"expression": expr, "paths": res["paths"]})
    return res


# ---- part B: token-level mutations
BASES = [
    'proto p\nconst N = 2 * ( 3 + 1 ) - 4 / 2\ntype T = uint3 [ N ]\nmessage M \' {\n    option max_bytes = 9\n    T t = 1\n    int7 [ 2 ] \' v = 2 ;\n}\n',
    'proto p ;\nenum E : uint3 {\n    A = 0\n    B = 0x5 ;\n}\nmessage M {\n    E e = 1\n    message I {\n        bool type = 1\n    }\n    I i = 2\n}\n',
    'proto p\nimport "lib.bitproto"\nimport base "lib2.bitproto"\noption c.name_prefix = "x"\nmessage M {\n    lib . Pt a = 1\n    base . Row [ lib . LN ] b = 2\n    byte [ 3 ] c = 3\n}\n',
    'proto p\n// comment\nconst S = "a\\tb"\nconst B = yes\nconst C = S\ntypedef byte [ 2 ] Bs\nmessage M {\n    // doc\n    Bs x = 1 // tail\n    enum K : uint1 {\n        Z = 0\n    }\n    K k = 3\n}\n',
]
VOCAB = ["\n", "// c\n", "+", "-", "*", "/", "bool", "{U:mv}", "{I:mv}", "byte", "{x:mv}", "{n:mv}", "true", '"lib.bitproto"', '"nofile.bitproto"', '"x"', '"abc\\"', '"\\"', '"a\\\\"', '"a\\q"', '"a\\"b"', "M", "E", "T", "undefined_name", "max_bytes", "lib",
         "proto", "import", "option", "type", "const", "enum", "message", "typedef", ":", ";", "{", "}", "[", "]", "(", ")", "=", "\\", "'", ".", "?", '"unterminated']


def split_tokens(text: str) -> List[str]:
    out: List[str] = []
    for line in text.split("\n"):
        m = re.match(r"^(.*?)(//.*)?$", line)
        code, com = m.group(1), m.group(2)
        out.extend(re.findall(r'"(?:[^"\\]|\\.)*"|\S+', code))
        if com:
            out.append(com)
        out.append("\n")
    return out[:-1]


def join_tokens(toks: List[str]) -> str:
    s = ""
    for t in toks:
        if t == "\n" or t.endswith("\n"):
            s += t
        else:
            s += t + " "
    return s


def mutation_jobs(quick: bool) -> List[Tuple[str, str]]:
    rng = random.Random(1234567 + seed())
    jobs: List[Tuple[str, str]] = []
    for bi, base in enumerate(BASES):
        toks = split_tokens(base)
        for pos in range(len(toks) + 1):
            if pos < len(toks):
                jobs.append((f"b{bi}:del@{pos}", join_tokens(toks[:pos] + toks[pos + 1:])))
            jobs.append((f"b{bi}:trunc@{pos}", join_tokens(toks[:pos])))
            for vi, v in enumerate(VOCAB):
                jobs.append((f"b{bi}:ins@{pos}:{vi}", join_tokens(toks[:pos] + [v] + toks[pos:])))
                if pos < len(toks):
                    jobs.append((f"b{bi}:rep@{pos}:{vi}", join_tokens(toks[:pos] + [v] + toks[pos + 1:])))
    if quick:
        rng.shuffle(jobs)
        jobs = jobs[: len(jobs) // 10]
    else:
        # pairs of mutations on the two shortest bases, seeded sample
        for bi in (1, 3):
            toks = split_tokens(BASES[bi])
            for k in range(6000):
                p1, p2 = sorted(rng.sample(range(len(toks)), 2))
                v1, v2 = rng.choice(VOCAB), rng.choice(VOCAB)
                v2 = v2.replace(":mv}", ":mw}")
                jobs.append((f"b{bi}:pair{k}", join_tokens(toks[:p1] + [v1] + toks[p1 + 1:p2] + [v2] + toks[p2 + 1:])))
        # all free sequences of <= 2 tokens (+ sample of 3) after `proto p`
        for a in VOCAB:
            jobs.append((f"free:{VOCAB.index(a)}", join_tokens(["proto", "p", "\n", a])))
            for b in VOCAB:
                jobs.append((f"free:{VOCAB.index(a)},{VOCAB.index(b)}", join_tokens(["proto", "p", "\n", a, b.replace(":mv}", ":mw}")])))
        for k in range(8000):
            a, b, c = rng.choice(VOCAB), rng.choice(VOCAB).replace(":mv}", ":mw}"), rng.choice(VOCAB).replace(":mv}", ":mu}")
            jobs.append((f"free3:{k}", join_tokens(["proto", "p", "\n", a, b, c])))
    return jobs


def work_mut(chunk: List[Tuple[str, str]]) -> Dict[str, Any]:
    res = _res("mut")
    res["messages"] = len(chunk)
    files = {"lib.bitproto": LIB, "lib2.bitproto": LIB.replace("proto lib", "proto lib2")}
    for name, text in chunk:
        explore_template(name, text, files, False, res)
    res["samples"].append({"mutation": chunk[0][0], "text": chunk[0][1][:200]})
    return res


# ---- part C: rendering of edge-shaped accepted schemas with symbolic constant values
EDGE = [
    ("empty_enum_unused", "proto p\nenum E : uint3 {\n}\nmessage M {\n    bool x = {n:n1}\n}\n"),
    ("empty_enum_field", "proto p\nenum E : uint3 {\n}\nmessage M {\n    E e = 1\n}\n"),
    ("empty_enum_array", "proto p\nenum E : uint3 {\n}\nmessage M {\n    E[{n:c}] es = 1\n}\n"),
    ("empty_msgs", "proto p\nmessage A {}\nmessage B' {\n    A a = 1\n    A[{n:c}] as_ = 2\n}\n"),
    ("only_consts", "proto p\nconst A = {n:a}\nconst B = A * {x:b}\nconst S = \"s\"\nconst T = true\n"),
    ("only_aliases", "proto p\ntype A = byte[{n:c}]\ntype B = A[{n:c2}]'\n"),
    ("enum_one_member", "proto p\nenum E : uint9 {\n    ONLY = {n:v}\n}\nmessage M {\n    E e = 1\n    E[2] es = 2\n}\n"),
    ("nested_only", "proto p\nmessage O {\n    message I {\n        enum K : uint2 {\n            K0 = {n:v}\n        }\n    }\n}\n"),
    ("keyword_field", "proto p\nmessage M {\n    bool type = {n:n1}\n    uint3 message_ = {n:n2}\n}\n"),
    ("prefix_opts", "proto p\noption c.name_prefix = \"pre_\"\noption c.struct_packing_alignment = {n:a}\nmessage M {\n    int24[{n:c}] v = 1\n}\n"),
    ("double_underscore", "proto p\nmessage Foo__Bar {\n    bool x = {n:n1}\n}\nenum A__B : uint2 {\n    Z = 0\n}\ntype T__T = uint3\n"),
    ("trailing_underscore_nested", "proto p\nmessage Outer_ {\n    message Inner {\n        bool x = {n:n1}\n    }\n    Inner i = 2\n}\n"),
    ("prefix_underscore", "proto p\noption c.name_prefix = \"lib_\"\nmessage _Node {\n    bool x = {n:n1}\n}\n"),
    ("leading_underscores", "proto p\nmessage __M {\n    bool _x = {n:n1}\n    uint3 y_ = 2\n}\nconst _C = 1\nenum _E : uint1 {\n    _Z = 0\n}\n"),
    ("digits_in_names", "proto p\nmessage H8 {\n    byte[{n:c}] a = 2\n}\nmessage H {\n    byte[2] a = 82\n}\n"),
]


def work_edge(job: Tuple[str, str]) -> Dict[str, Any]:
    name, text = job
    res = _res("edge:" + name)
    explore_template(name, text, {}, True, res)
    res["samples"].append({"edge_schema": name, "paths": res["paths"], "rendered": res["rendered"]})
    return res


def main() -> int:
    from .agg import run_parts

    q = tier() == "quick"
    cat = c08.catalogue()
    sh = c13.shapes(q)
    sh = [s for s in sh if "/" in s[1]] if q else sh
    muts = mutation_jobs(q)
    chunks = [muts[i:i + 60] for i in range(0, len(muts), 60)]
    parts = [("catalogue+render", work_catalogue, cat), ("expressions", work_expr, [(s, i) for i, s in enumerate(sh)]), ("token-mutations", work_mut, chunks), ("edge-render", work_edge, EDGE),
             ("lexer-escape-loop-crosshair", work_escape, [0]), ("lexer-regex-inclusion", work_regex, [0]), ("lexer-regex-backtracking", work_redos, [0])]
    meta = {
        "functions_encoded": FILES,
        "token_mutations": len(muts),
        "bounds": f"(a) the {len(cat)} C08 templates and {len(sh)} constant-expression shapes, all values of their numeric holes, rendered with the real C/Go/Python renderers on accepting paths (width holes excluded from rendering); (c) {len(muts)} single token-level mutations (insert / replace / delete / truncate at every position, {len(VOCAB)}-entry vocabulary incl. symbolic integer literals and type widths) of 4 base schemas" + ("" if q else ", pairs of mutations and free sequences of <= 3 tokens after `proto p`") + "; (d) 11 edge-shaped schemas rendered for all values of their constants; (b) CrossHair on the lexer's escape loop, token bodies <= 3 (thorough 5) chars",
        "outside_claim": "arbitrary *text* (byte-level mutations): lexing is C code (re); termination beyond the step/time budget of each run; the token-type selector and mutation positions are enumerated, only numeric values are the solver's",
        "explanation": "every explored path must end in success, ParserError/OSError (parsing) or RendererError (rendering); anything else is replayed through the real CLI (traceback) before it is reported",
        "evaluations": len(cat) + len(sh) + len(muts) + len(EDGE),
        "distinct_nontrivial": len(cat) + len(sh) + len(muts) + len(EDGE),
        "rule": "one evaluation = one template / mutated token sequence explored along all paths of its symbolic numeric values",
    }
    return run_parts(PROP, "other", parts, meta, ["z3 decides the integer queries or reports unknown (= inconclusive)", "CrossHair 'Confirmed over all paths' is trusted within its bound"])


def work_escape(_: Any) -> Dict[str, Any]:
    """(b) the lexer's escape loop: result equals a reference unescape or InvalidEscapingChar, no IndexError"""
    r = c13.work_strings(0)
    r["case"] = "escape-loop"
    return r


def _z3str(x: str) -> str:
    """decode z3's string escapes (\\u{..})"""
    return re.sub(r"\\u\{([0-9a-fA-F]+)\}", lambda m: chr(int(m.group(1), 16)), x)


def work_regex(_: Any) -> Dict[str, Any]:
    """(b2) for each lexer rule whose action inspects the token text: every text the rule's
    regex (read from the current source) can match satisfies the action's precondition --
    a regex-inclusion query decided by z3; a counterexample is fed to the real lexer."""
    from .. import rx
    from ..compile import load_plain_compiler

    res = _res("lexer-regex-inclusion")
    load_plain_compiler()
    from bitproto.errors import LexerError
    from bitproto.lexer import Lexer

    BS = rx.ch("\\")
    D = z3.Range("0", "9")
    H = z3.Union(D, z3.Range("a", "f"), z3.Range("A", "F"))
    rules = {
        "t_STRING_LITERAL": z3.Concat(rx.ch('"'), z3.Star(z3.Union(rx.negclass([BS]), z3.Concat(BS, rx.ANY))), rx.ch('"')),  # no dangling backslash before the closing quote
        "t_UINT_TYPE": z3.Concat(z3.Re("uint"), z3.Plus(D)),  # int(value[4:])
        "t_INT_TYPE": z3.Concat(z3.Re("int"), z3.Plus(D)),  # int(value[3:])
        "t_HEX_LITERAL": z3.Concat(z3.Re("0x"), z3.Plus(H)),  # int(value, 16)
        "t_INT_LITERAL": z3.Plus(D),  # int(value)
    }
    for name, safe in rules.items():
        src = getattr(Lexer, name).__doc__
        res["obligations"] += 1
        res["paths"] += 1
        try:
            R = rx.translate(src, verbose=True)
        except Inconclusive as e:
            res["inconclusive"].append(f"{name}: {e}")
            continue
        t0 = time.time()
        r, cex = rx.included(R, safe, maxlen=10)
        res["queries"] += 1
        res["solver_s"] += time.time() - t0
        res[r] = res.get(r, 0) + 1
        if r == "unknown":
            res["inconclusive"].append(f"{name}: z3 unknown on regex inclusion")
        elif r == "sat":
            tok = _z3str(cex or "")
            lx = Lexer()
            lx.input("const A = " + tok + "\n")
            err = None
            try:
                while lx.token() is not None:
                    pass
            except LexerError:
                err = None
            except Exception as e:
                err = f"{type(e).__name__}: {e}"
            if err is None:
                res["inconclusive"].append(f"{name}: regex {src!r} admits {tok!r} outside the action's precondition, but the real lexer does not fail on it")
            else:
                files = {MAIN: "proto p\nconst A = " + tok + "\n"}
                tb = cli_traceback(files, MAIN)
                res["violations"].append({"what": f"{name}: regex {src!r} admits token text {tok!r}; the action raises {err}" + (f"; CLI: {tb}" if tb else ""),
                                          "payload": {"kind": "schema", "files": files, "main": MAIN, "token": tok}, "confirmed": True, "info": {"kind": "escape", "exc": err.split(":")[0], "key": f"lexer-{name}"}})
        else:
            res["samples"].append({"rule": name, "regex": src, "verdict": "L(regex, |s|<=10) included in the action's precondition language (unsat)"})
    return res


HANG_PROBE = r'''
import sys, time
sys.path.insert(0, sys.argv[1])
from bitproto.lexer import Lexer
from bitproto.errors import LexerError
lx = Lexer(); lx.input(open(sys.argv[2]).read())
try:
    while lx.token() is not None:
        pass
except LexerError:
    pass
print("done")
'''


def work_redos(_: Any) -> Dict[str, Any]:
    """(b3) `never hangs`, lexer side: no repetition in a token regex (read from the current source) has a body that
    matches one word both in one round and split over several rounds, or the empty word -- the condition under which
    the backtracking `re` engine needs exponential time on an input that finally fails.  A sat answer is pumped into
    an unterminated token and handed to the real lexer under a time limit."""
    import subprocess

    from .. import rx
    from ..common import VENV_PY
    from ..compile import load_plain_compiler

    res = _res("lexer-regex-backtracking")
    load_plain_compiler()
    from bitproto.lexer import Lexer

    rules = {}
    for name in sorted(dir(Lexer)):
        if not name.startswith("t_") or name in ("t_ignore", "t_error"):
            continue
        a = getattr(Lexer, name)
        src = a if isinstance(a, str) else getattr(a, "__doc__", None)
        if isinstance(src, str):
            rules[name] = src
    if len(rules) < 8:
        res["inconclusive"].append(f"only {len(rules)} token rules found in the lexer (expected its t_* rules)")
    for name, src in rules.items():
        try:
            bodies = rx.star_bodies(src, verbose=True)
        except Inconclusive as e:
            res["inconclusive"].append(f"{name}: {e}")
            continue
        for bi, body in enumerate(bodies):
            res["obligations"] += 1
            res["paths"] += 1
            t0 = time.time()
            r, w = rx.ambiguous_star(body)
            res["queries"] += 1
            res["solver_s"] += time.time() - t0
            res[r] = res.get(r, 0) + 1
            if r == "unknown":
                res["inconclusive"].append(f"{name}: z3 unknown on the ambiguity query of repetition #{bi}")
                continue
            if r == "unsat":
                if len(res["samples"]) < 3:
                    res["samples"].append({"rule": name, "regex": src, "repetition": bi, "verdict": "no word (<= 8 chars) is matched by the body both in one and in several rounds (unsat)"})
                continue
            word = _z3str(w or "") or "a"
            # pump: the start of a token of this rule, then the ambiguous word many times, never the terminator
            head = {"t_STRING_LITERAL": '"', "t_COMMENT": "//", "t_HEX_LITERAL": "0x", "t_UINT_TYPE": "uint", "t_INT_TYPE": "int"}.get(name, "")
            hung = None
            with Scratch() as sc:
                for k in (20, 28, 40):
                    open(sc.path("in.bitproto"), "w").write("proto p\nconst A = " + head + word * k + "\n")
                    try:
                        subprocess.run([VENV_PY, "-c", HANG_PROBE, os.path.join(REPO, "compiler"), sc.path("in.bitproto")], capture_output=True, text=True, timeout=10)
                    except subprocess.TimeoutExpired:
                        hung = k
                        break
            if hung is None:
                res["inconclusive"].append(f"{name}: repetition #{bi} of {src!r} is ambiguous on {word!r}, but the real lexer still answers within 10 s on pumped inputs")
            else:
                text = "proto p\nconst A = " + head + word * hung + "\n"
                res["violations"].append({"what": f"{name}: repetition #{bi} of {src!r} matches {word!r} both in one and in several rounds; the real lexer does not finish within 10 s on a {len(text)}-character input ({head + word * 3}... without terminator)",
                                          "payload": {"kind": "hang", "files": {MAIN: text}, "main": MAIN}, "confirmed": True, "info": {"kind": "hang", "key": f"lexer-hang-{name}"}})
    return res


def replay(path: str) -> int:
    import json

    p = json.load(open(path))
    if p.get("kind") == "hang-cli":
        h = cli_hangs(p["files"], p["main"])
        print(f"FAILS: the real command line does not finish within {CLI_LIMIT} s" if h else "passes: the real command line finishes")
        return 1 if h else 0
    if p.get("kind") == "hang":
        import subprocess

        from ..common import VENV_PY

        with Scratch() as sc:
            open(sc.path("in.bitproto"), "w").write(p["files"][p["main"]])
            try:
                subprocess.run([VENV_PY, "-c", HANG_PROBE, os.path.join(REPO, "compiler"), sc.path("in.bitproto")], capture_output=True, text=True, timeout=10)
            except subprocess.TimeoutExpired:
                print("FAILS: the real lexer does not finish within 10 s")
                return 1
        print("passes: the real lexer finishes")
        return 0
    tb = cli_traceback(p["files"], p["main"], (None, "c", "go", "py"))
    print("FAILS: " + tb if tb else "passes: no traceback from the real CLI")
    return 1 if tb else 0
