"""C14 Every width x bit-offset x signedness combination is bit-exact in every runtime."""
from __future__ import annotations

from ..common import seed, tier
from ..families import f_grid
from . import pyenc
from .agg import run_parts
from .pycommon import RUNTIME_FILES

PROP = "C14"


def main() -> int:
    q = tier() == "quick"
    grid = f_grid(q)
    parts = [("python-encode", pyenc.work, [(c, "encode") for c in grid]), ("python-roundtrip", pyenc.work, [(c, "roundtrip") for c in grid])]
    try:
        from . import cgrid

        parts += cgrid.parts(grid, q)
    except ImportError:
        pass
    try:
        from . import gogrid

        parts += gogrid.parts(grid, q)
    except ImportError:
        pass
    ncells = sum(len(c.cells) for c in grid)  # type: ignore
    meta = {
        "functions_encoded": RUNTIME_FILES + ["lib/c/bitproto.c", "lib/go/bitproto.go"],
        "grid_cells": ncells,
        "exhaustive": not q,
        "bounds": "F_grid = {bool, byte, uint1..64, int1..64} x stream offset 0..7 x {scalar, array element cap 3, array element cap 5 (batch path), alias, array of alias, alias of array, array of alias-of-array rows}; each leaf between a uint{o} pad and a uint3 tail; ALL values of the leaf (subsumes the zero/all-ones/single-bit/min/max basis). quick = fixed slice (all widths at offsets 0 and 3, all offsets at widths 1,7,8,9,15-17,31-33,63,64); thorough = complete grid",
        "outside_claim": "positions other than the seven listed; enum leaves (C02); per-runtime scope is listed under coverage.parts",
        "explanation": "per cell: symbolic encode == specified bits, and encode -> decode -> encode round trip with pad and tail untouched, for all values at once",
    }
    return run_parts(PROP, "translation_validation", parts, meta, ["z3 decides QF_BV", "reference encoder states the specified layout"])


def replay(path: str) -> int:
    import json

    p = json.load(open(path))
    if p.get("kind") == "c":
        from . import cenc

        return cenc.replay_main(path)
    bad, why = pyenc.replay_payload(p)
    print(("FAILS: " if bad else "passes: ") + why)
    return 1 if bad else 0
