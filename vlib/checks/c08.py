"""C08 A schema is accepted iff it satisfies the documented constraints (E1/Z through the real
lexer and parser)."""
from __future__ import annotations

import os
import time
from dataclasses import dataclass, field
from typing import Any, Callable, Dict, List, Optional, Tuple

import z3

from .. import pysym
from ..common import REPO, Evidence, Inconclusive, Report, Scratch, pmap, repo_files, seed, tier
from ..pysym import Engine, ZInt
from .agg import aggregate

PROP = "C08"
FILES = ["compiler/bitproto/_ast.py", "compiler/bitproto/parser.py", "compiler/bitproto/lexer.py", "compiler/bitproto/grammars.py", "compiler/bitproto/options.py", "compiler/bitproto/errors.py"]


def pow2(w: Any) -> Any:
    e = z3.IntVal(2 ** 65)
    for k in range(64, -1, -1):
        e = z3.If(w == k, z3.IntVal(2 ** k), e)
    return e


def W(w: Any) -> Any:
    return z3.And(w >= 1, w <= 64)


def CAP(c: Any) -> Any:
    return z3.And(c >= 1, c <= 65535)


def NUM(n: Any) -> Any:
    return z3.And(n >= 1, n <= 255)


def ceil8(b: Any) -> Any:
    return (b + 7) / 8


@dataclass
class Tmpl:
    name: str
    text: str
    accept: Optional[Callable[[Dict[str, Any]], Any]] = None  # oracle over hole variables (z3 Ints); None for value-independent
    expect: Optional[bool] = None  # value-independent templates: accepted?
    err_lines: Optional[Tuple[int, ...]] = None  # allowed line numbers of the cited error (1-based); None = any line of a hole
    files: Dict[str, str] = field(default_factory=dict)  # imported files (concrete)
    err_file: Optional[str] = None  # file the error must cite (default: the main file)
    traditional: bool = False
    tags: Tuple[str, ...] = ()


def _nest(depth: int, body: str) -> str:
    """put message M with `body` at nesting depth 0..2"""
    ind = "    "
    lines = [f"message M {{"] + [ind + l for l in body.strip("\n").split("\n")] + ["}"]
    inner = "M"
    for d in range(depth):
        lines = [f"message Outer{d} {{"] + [ind + l for l in lines] + [ind + f"{inner} m = 1", "}"]
        inner = f"Outer{d}"
    return "proto p\n\n" + "\n".join(lines) + "\n"


def catalogue() -> List[Tmpl]:
    T: List[Tmpl] = []
    # ---- widths, every context
    for kind in ("U", "I"):
        for depth in (0, 1, 2):
            T.append(Tmpl(f"width_{kind}_d{depth}", _nest(depth, f"{{{kind}:w}} a = 1"), lambda v: W(v["w"])))
        T.append(Tmpl(f"width_{kind}_alias", f"proto p\ntype A = {{{kind}:w}}\nmessage M {{\n    A a = 1\n}}\n", lambda v: W(v["w"])))
        T.append(Tmpl(f"width_{kind}_arr_el", _nest(0, f"{{{kind}:w}}[3] a = 1"), lambda v: W(v["w"])))
    T.append(Tmpl("width_enum", "proto p\nenum E : {U:w} {\n    A = 0\n}\n", lambda v: W(v["w"])))
    # ---- capacities
    for depth in (0, 1, 2):
        T.append(Tmpl(f"cap_d{depth}", _nest(depth, "bool[{n:c}] a = 1"), lambda v: CAP(v["c"])))
    T.append(Tmpl("cap_alias", "proto p\ntype A = byte[{n:c}]\n", lambda v: CAP(v["c"])))
    T.append(Tmpl("cap_hex_const", "proto p\nconst N = {x:c}\nmessage M {\n    bool[N] a = 1\n}\n", lambda v: CAP(v["c"]), err_lines=(4,)))
    # capacities through constant expressions that mix operator levels (precedence and associativity decide the value)
    T.append(Tmpl("cap_expr_add_mul", "proto p\nconst N = {n:a} + {n:b} * {n:c}\nmessage M {\n    bool[N] a = 1\n}\n", lambda v: CAP(v["a"] + v["b"] * v["c"]), err_lines=(2, 4)))
    T.append(Tmpl("cap_expr_mul_add", "proto p\nconst N = {n:a} * {n:b} + {n:c}\nmessage M {\n    bool[N] a = 1\n}\n", lambda v: CAP(v["a"] * v["b"] + v["c"]), err_lines=(2, 4)))
    T.append(Tmpl("cap_expr_sub_mul", "proto p\nconst N = {n:a} - {n:b} * 2\nmessage M {\n    bool[N] a = 1\n}\n", lambda v: CAP(v["a"] - v["b"] * 2), err_lines=(2, 4)))
    T.append(Tmpl("cap_expr_sub_sub", "proto p\nconst N = {n:a} - {n:b} - {n:c}\nmessage M {\n    bool[N] a = 1\n}\n", lambda v: CAP(v["a"] - v["b"] - v["c"]), err_lines=(2, 4)))
    T.append(Tmpl("cap_expr_paren", "proto p\nconst N = ({n:a} + {n:b}) * {n:c}\nmessage M {\n    bool[N] a = 1\n}\n", lambda v: CAP((v["a"] + v["b"]) * v["c"]), err_lines=(2, 4)))
    T.append(Tmpl("cap_width_size", _nest(0, "{U:w}[{n:c}] a = 1"), lambda v: z3.And(W(v["w"]), CAP(v["c"]), v["w"] * v["c"] <= 65535), err_lines=(3, 4)))
    T.append(Tmpl("cap_width_size_ext", _nest(0, "{I:w}[{n:c}]' a = 1"), lambda v: z3.And(W(v["w"]), CAP(v["c"]), v["w"] * v["c"] + 16 <= 65535), err_lines=(3, 4)))
    T.append(Tmpl("cap_msg_el", "proto p\nmessage E {\n    {U:w} x = 1\n    bool y = 2\n}\nmessage M' {\n    E[{n:c}]' a = 1\n}\n",
                  lambda v: z3.And(W(v["w"]), CAP(v["c"]), (v["w"] + 1) * v["c"] + 32 <= 65535), err_lines=(3, 6, 7)))
    # ---- field numbers
    for depth in (0, 1):
        T.append(Tmpl(f"num1_d{depth}", _nest(depth, "bool a = {n:n1}"), lambda v: NUM(v["n1"])))
    T.append(Tmpl("num2", _nest(0, "bool a = {n:n1}\nuint3 b = {n:n2}"), lambda v: z3.And(NUM(v["n1"]), NUM(v["n2"]), v["n1"] != v["n2"])))
    T.append(Tmpl("num3", _nest(1, "bool a = {n:n1}\nuint3 b = {n:n2}\nint9 c = {n:n3}"), lambda v: z3.And(NUM(v["n1"]), NUM(v["n2"]), NUM(v["n3"]), z3.Distinct(v["n1"], v["n2"], v["n3"]))))
    T.append(Tmpl("num_two_msgs", "proto p\nmessage A {\n    bool a = {n:n1}\n}\nmessage B {\n    bool a = {n:n2}\n}\n", lambda v: z3.And(NUM(v["n1"]), NUM(v["n2"]))))
    # ---- enum values
    T.append(Tmpl("enum_val", "proto p\nenum E : {U:w} {\n    A = {n:v1}\n}\n", lambda v: z3.And(W(v["w"]), v["v1"] < pow2(v["w"]))))
    T.append(Tmpl("enum_val2", "proto p\nenum E : uint5 {\n    A = {n:v1}\n    B = {x:v2}\n}\n", lambda v: z3.And(v["v1"] < 32, v["v2"] < 32, v["v1"] != v["v2"])))
    T.append(Tmpl("enum_val3_nested", "proto p\nmessage M {\n    enum E : {U:w} {\n        A = {n:v1}\n        B = {n:v2}\n        C = {n:v3}\n    }\n    E e = 1\n}\n",
                  lambda v: z3.And(W(v["w"]), v["v1"] < pow2(v["w"]), v["v2"] < pow2(v["w"]), v["v3"] < pow2(v["w"]), z3.Distinct(v["v1"], v["v2"], v["v3"]))))
    T.append(Tmpl("enum_val_w64", "proto p\nenum E : uint64 {\n    A = {n:v1}\n}\n", lambda v: v["v1"] < 2 ** 64))
    # ---- message size / max_bytes
    T.append(Tmpl("size_two", _nest(0, "byte[{n:c1}] a = 1\nuint13[{n:c2}] b = 2"), lambda v: z3.And(CAP(v["c1"]), CAP(v["c2"]), 8 * v["c1"] + 13 * v["c2"] <= 65535), err_lines=(3, 4, 5)))
    T.append(Tmpl("size_ext_msg", "proto p\nmessage M' {\n    byte[{n:c1}] a = 1\n    bool b = 2\n}\n", lambda v: z3.And(CAP(v["c1"]), 8 * v["c1"] + 1 + 16 <= 65535), err_lines=(2, 3)))
    T.append(Tmpl("size_nested", "proto p\nmessage I {\n    byte[{n:c1}] a = 1\n}\nmessage M {\n    I[{n:c2}] x = 1\n    I y = 2\n}\n",
                  lambda v: z3.And(CAP(v["c1"]), CAP(v["c2"]), 8 * v["c1"] <= 65535, 8 * v["c1"] * (v["c2"] + 1) <= 65535), err_lines=(2, 3, 5, 6)))
    for pos in ("before", "after"):
        body = ("option max_bytes = {n:mb}\n" if pos == "before" else "") + "{U:w} a = 1\nbool[{n:c}] b = 2\n" + ("option max_bytes = {n:mb}" if pos == "after" else "")
        T.append(Tmpl(f"max_bytes_{pos}", _nest(0, body), lambda v: z3.And(W(v["w"]), CAP(v["c"]), v["w"] + v["c"] <= 65535, z3.Or(v["mb"] == 0, ceil8(v["w"] + v["c"]) <= v["mb"])), err_lines=(3, 4, 5, 6)))
    T.append(Tmpl("max_bytes_const", "proto p\nconst LIMIT = {n:mb}\nmessage M {\n    option max_bytes = LIMIT\n    byte[{n:c}] a = 1\n}\n", lambda v: z3.And(CAP(v["c"]), 8 * v["c"] <= 65535, z3.Or(v["mb"] == 0, v["c"] <= v["mb"])), err_lines=(3, 4, 5)))
    T.append(Tmpl("max_bytes_nested_only_inner", "proto p\nmessage O {\n    message I {\n        option max_bytes = {n:mb}\n        byte[{n:c}] a = 1\n    }\n    I[2] x = 1\n}\n",
                  lambda v: z3.And(CAP(v["c"]), 16 * v["c"] <= 65535, z3.Or(v["mb"] == 0, v["c"] <= v["mb"])), err_lines=(2, 3, 4, 5)))
    # ---- sizes reached through a DOTTED name whose head is shadowed by a nested message: the innermost visible T wins,
    # so the size that the limit sees is the inner T.K's (symbolic), not the file-level T.K's (3 bits)
    T.append(Tmpl("max_bytes_dotted_shadow", "proto p\nmessage T {\n    message K {\n        uint3 a = 1\n    }\n}\nmessage A {\n    option max_bytes = {n:mb}\n    message T {\n        message K {\n            byte[{n:c}] b = 1\n        }\n    }\n    T.K f = 1\n}\n",
                  lambda v: z3.And(CAP(v["c"]), 8 * v["c"] <= 65535, z3.Or(v["mb"] == 0, v["c"] <= v["mb"])), err_lines=(7, 8, 10, 11, 12, 14, 15)))
    T.append(Tmpl("size_dotted_shadow", "proto p\nmessage T {\n    message K {\n        uint3 a = 1\n    }\n}\nmessage A {\n    message T {\n        message K {\n            byte[{n:c}] b = 1\n        }\n    }\n    T.K[{n:c2}] f = 1\n}\n",
                  lambda v: z3.And(CAP(v["c"]), CAP(v["c2"]), 8 * v["c"] <= 65535, 8 * v["c"] * v["c2"] <= 65535), err_lines=(7, 9, 10, 11, 13, 14)))
    # ---- options with numeric range
    T.append(Tmpl("opt_align", "proto p\noption c.struct_packing_alignment = {n:a}\n", lambda v: v["a"] <= 8))
    # ---- through an imported (concrete) file
    lib = "proto lib\ntype Row = uint12[3]\nenum Kind : uint3 {\n    K0 = 0\n}\nmessage Pt {\n    int10 x = 1\n}\n"
    T.append(Tmpl("import_cap", 'proto p\nimport "lib.bitproto"\nmessage M {\n    lib.Row[{n:c}] rows = {n:n1}\n    lib.Pt[{n:c2}] pts = {n:n2}\n}\n',
                  lambda v: z3.And(CAP(v["c"]), CAP(v["c2"]), NUM(v["n1"]), NUM(v["n2"]), v["n1"] != v["n2"], 36 * v["c"] + 10 * v["c2"] <= 65535), files={"lib.bitproto": lib}, err_lines=(3, 4, 5)))
    T.append(Tmpl("import_as_cap", 'proto p\nimport base "lib.bitproto"\nmessage M {\n    base.Kind[{n:c}] ks = 1\n}\n', lambda v: z3.And(CAP(v["c"]), 3 * v["c"] <= 65535), files={"lib.bitproto": lib}, err_lines=(3, 4)))

    # ---- value-independent rules
    def vi(name: str, text: str, ok: bool, line: Optional[int] = None, files: Optional[Dict[str, str]] = None, err_file: Optional[str] = None) -> None:
        T.append(Tmpl("vi_" + name, text, None, ok, (line,) if line else None, files or {}, err_file, False, ("value_independent",)))

    vi("dup_msg", "proto p\nmessage A {}\nmessage A {}\n", False, 3)
    vi("dup_field", "proto p\nmessage A {\n    bool x = 1\n    uint3 x = 2\n}\n", False, 4)
    vi("dup_enum_member", "proto p\nenum E : uint3 {\n    A = 0\n    A = 1\n}\n", False, 4)
    vi("dup_alias_msg", "proto p\ntype A = uint3\nmessage A {}\n", False, 3)
    vi("dup_const_enum", "proto p\nconst A = 1\nenum A : uint3 {\n    X = 0\n}\n", False, 3)
    vi("dup_nested_ok", "proto p\nmessage A {\n    message B {}\n}\nmessage B {}\n", True)
    vi("same_field_name_other_msg", "proto p\nmessage A {\n    bool x = 1\n}\nmessage B {\n    bool x = 1\n}\n", True)
    vi("alias_of_enum", "proto p\nenum E : uint3 {\n    X = 0\n}\ntype A = E\n", False, 5)
    vi("alias_of_message", "proto p\nmessage M {}\ntype A = M\n", False, 3)
    vi("alias_of_alias", "proto p\ntype A = uint3\ntype B = A\n", False, 3)
    vi("alias_of_array_of_alias", "proto p\ntype A = uint3[2]\ntype B = A[3]\nmessage M {\n    B[2] x = 1\n}\n", True)
    vi("array_2d", "proto p\nmessage M {\n    uint3[2][3] a = 1\n}\n", False, 3)
    vi("alias_in_message", "proto p\nmessage M {\n    type A = uint3\n}\n", False, 3)
    vi("const_in_message", "proto p\nmessage M {\n    const A = 1\n}\n", False, 3)
    vi("proto_in_message", "proto p\nmessage M {\n    proto q\n}\n", False, 3)
    vi("import_in_message", 'proto p\nmessage M {\n    import "lib.bitproto"\n}\n', False, 3, {"lib.bitproto": lib})
    vi("alias_in_enum", "proto p\nenum E : uint3 {\n    type A = uint3\n}\n", False, 3)
    vi("const_in_enum", "proto p\nenum E : uint3 {\n    const A = 1\n}\n", False, 3)
    vi("option_in_enum", "proto p\nenum E : uint3 {\n    option max_bytes = 1\n}\n", False, 3)
    vi("enum_in_enum", "proto p\nenum E : uint3 {\n    enum F : uint2 {\n    }\n}\n", False, 3)
    vi("message_in_enum", "proto p\nenum E : uint3 {\n    message M {}\n}\n", False, 3)
    vi("field_in_enum", "proto p\nenum E : uint3 {\n    bool x = 1\n}\n", False, 3)
    vi("import_in_enum", 'proto p\nenum E : uint3 {\n    import "lib.bitproto"\n}\n', False, 3, {"lib.bitproto": lib})
    vi("unknown_option", "proto p\noption max_size = 3\n", False, 2)
    vi("unknown_msg_option", "proto p\nmessage M {\n    option c.name_prefix = \"x\"\n}\n", False, 3)
    vi("option_wrong_type_str", "proto p\nmessage M {\n    option max_bytes = \"3\"\n}\n", False, 3)
    vi("option_wrong_type_int", "proto p\noption c.name_prefix = 3\n", False, 2)
    vi("option_wrong_type_bool", "proto p\noption c.struct_packing_alignment = true\n", False, 2)
    vi("option_ok", "proto p\noption c.name_prefix = \"x\"\noption go.package_path = \"a/b\"\noption py.module_name = \"m\"\n", True)
    vi("option_const_ref", "proto p\nconst P = \"pre\"\noption c.name_prefix = P\n", True)
    vi("option_const_ref_wrong", "proto p\nconst P = 3\noption c.name_prefix = P\n", False, 3)
    vi("use_before_def_type", "proto p\nmessage M {\n    Later x = 1\n}\nmessage Later {}\n", False, 3)
    vi("use_before_def_const", "proto p\nmessage M {\n    bool[N] x = 1\n}\nconst N = 3\n", False, 3)
    vi("self_reference", "proto p\nmessage M {\n    M x = 1\n}\n", False, 3)
    vi("const_as_type", "proto p\nconst N = 3\nmessage M {\n    N x = 1\n}\n", False, 4)
    vi("type_as_const", "proto p\ntype A = uint3\nconst B = A\n", False, 3)
    vi("type_as_cap", "proto p\ntype A = uint3\nmessage M {\n    bool[A] x = 1\n}\n", False, 4)
    vi("str_const_as_cap", "proto p\nconst S = \"x\"\nmessage M {\n    bool[S] x = 1\n}\n", False, 4)
    vi("bool_const_as_cap", "proto p\nconst FLAG = true\nmessage M {\n    byte[FLAG] x = 1\n}\n", False, 4)
    vi("bool_const_yes_as_cap_alias", "proto p\nconst FLAG = yes\ntype A = byte[FLAG]\n", False, 3)
    vi("bool_const_false_as_cap", "proto p\nconst FLAG = false\nmessage M {\n    byte[FLAG] x = 1\n}\n", False, 4)
    vi("bool_const_chain_as_cap", "proto p\nconst A = true\nconst B = A\nmessage M {\n    byte[B] x = 1\n}\n", False, 5)
    vi("bool_const_as_max_bytes", "proto p\nconst FLAG = true\nmessage M {\n    option max_bytes = FLAG\n}\n", False, 4)
    vi("bool_literal_as_enum_value", "proto p\nenum E : uint3 {\n    X = true\n}\n", False, 3)
    vi("bool_literal_as_field_number", "proto p\nmessage M {\n    bool x = true\n}\n", False, 3)
    vi("const_as_field_number", "proto p\nconst N = 1\nmessage M {\n    bool x = N\n}\n", False, 4)
    vi("const_as_enum_value", "proto p\nconst N = 1\nenum E : uint3 {\n    X = N\n}\n", False, 4)
    vi("imported_const_as_cap_ok", 'proto p\nimport "k.bitproto"\nmessage M {\n    byte[k.N] x = 1\n    bool[k.N] y = 2\n}\n', True, None, {"k.bitproto": "proto k\nconst N = 4\nconst B = true\n"})
    vi("imported_bool_const_as_cap", 'proto p\nimport "k.bitproto"\nmessage M {\n    byte[k.B] x = 1\n}\n', False, 4, {"k.bitproto": "proto k\nconst N = 4\nconst B = true\n"})
    vi("hex_cap_ok", "proto p\nmessage M {\n    byte[0x10] x = 1\n}\n", False, 3)
    vi("bool_const_in_expr", "proto p\nconst B = true\nconst C = B + 1\n", False, 3)
    vi("enum_member_as_type", "proto p\nenum E : uint3 {\n    X = 0\n}\nmessage M {\n    E.X f = 1\n}\n", False, 6)
    vi("dotted_nested_ok", "proto p\nmessage A {\n    message B {\n        enum K : uint2 {\n            K0 = 0\n        }\n    }\n    B.K k = 1\n}\nmessage C {\n    A.B.K k = 1\n    A.B b = 2\n}\n", True)
    vi("dotted_missing", "proto p\nmessage A {\n    message B {}\n}\nmessage C {\n    A.X k = 1\n}\n", False, 6)
    vi("import_ok", 'proto p\nimport "lib.bitproto"\nmessage M {\n    lib.Pt p = 1\n    lib.Row r = 2\n    lib.Kind k = 3\n}\n', True, None, {"lib.bitproto": lib})
    vi("import_dup", 'proto p\nimport "lib.bitproto"\nimport other "lib.bitproto"\n', False, 3, {"lib.bitproto": lib})
    # a message is not visible inside its own body: self-reference is an undefined type (never an endless recursion)
    vi("self_reference_field", "proto p\nmessage Node {\n    Node next = 1\n}\n", False, 3)
    vi("self_reference_array", "proto p\nmessage Tree {\n    Tree[2] children = 1\n}\n", False, 3)
    vi("self_reference_from_nested", "proto p\nmessage Outer {\n    message Inner {\n        Outer back = 1\n    }\n    Inner i = 1\n}\n", False, 4)
    # a dotted name that walks THROUGH something that is not a scope (constant, alias, enum member, field) names nothing
    vi("dotted_through_const_type", "proto p\nconst N = 4\nmessage M {\n    N.x f = 1\n}\n", False, 4)
    vi("dotted_through_const_cap", "proto p\nconst N = 4\nmessage M {\n    byte[N.size] f = 1\n}\n", False, 4)
    vi("dotted_through_enum_member", "proto p\nenum Color : uint3 {\n    RED = 0\n}\nconst X = Color.RED.value\n", False, 5)
    vi("dotted_through_alias_option", "proto p\ntype Ts = int48\nmessage M {\n    option max_bytes = Ts.size\n    bool b = 1\n}\n", False, 4)
    vi("dotted_through_field", "proto p\nmessage A {\n    message B {\n        bool x = 1\n    }\n    B f = 1\n}\nmessage M {\n    A.f.B g = 1\n}\n", False, 9)
    vi("dotted_enum_member_as_const_ok", "proto p\nenum Color : uint3 {\n    RED = 0\n    BLUE = 2\n}\nmessage M {\n    byte[Color.BLUE] f = 1\n}\n", None, None) if False else None
    # the same file under another spelling of its path is still the same file
    vi("import_dup_dot_slash", 'proto p\nimport "lib.bitproto"\nimport other "./lib.bitproto"\n', False, 3, {"lib.bitproto": lib})
    vi("import_dup_via_subdir", 'proto p\nimport one "sub/../lib.bitproto"\nimport two "lib.bitproto"\n', False, 3, {"lib.bitproto": lib, "sub/keep.bitproto": "proto keep\n"})
    vi("import_two_files_same_content_ok", 'proto p\nimport "lib.bitproto"\nimport "sub/lib2.bitproto"\nmessage M {\n    lib.Pt a = 1\n    lib2.Pt b = 2\n}\n', True, None, {"lib.bitproto": lib, "sub/lib2.bitproto": lib.replace("proto lib", "proto lib2")})
    vi("import_name_clash", 'proto p\nmessage lib {}\nimport "lib.bitproto"\n', False, 3, {"lib.bitproto": lib})
    # `import <name> "file"` binds <name>, not the imported file's proto name: clashes are judged on <name>, and an error is
    # cited in the importing file at the import line
    vi("import_as_name_clash", 'proto p\nmessage other {}\nimport other "lib.bitproto"\n', False, 3, {"lib.bitproto": lib})
    vi("import_as_frees_proto_name", 'proto p\nconst lib = 3\nimport l2 "lib.bitproto"\nmessage M {\n    l2.Pt a = 1\n    byte[lib] b = 2\n}\n', True, None, {"lib.bitproto": lib})
    vi("import_same_proto_name_twice_as", 'proto p\nimport "v1/lib.bitproto"\nimport lib_v2 "v2/lib.bitproto"\nmessage M {\n    lib.Pt a = 1\n    lib_v2.Pt b = 2\n}\n', True, None, {"v1/lib.bitproto": lib, "v2/lib.bitproto": lib})
    vi("import_same_proto_name_twice_plain", 'proto p\nimport "v1/lib.bitproto"\nimport "v2/lib.bitproto"\n', False, 3, {"v1/lib.bitproto": lib, "v2/lib.bitproto": lib})
    vi("alias_of_imported_alias", 'proto p\nimport "lib.bitproto"\ntype Mine = lib.Row\n', False, 3, {"lib.bitproto": lib})
    vi("alias_of_array_of_imported_alias_ok", 'proto p\nimport "lib.bitproto"\ntype Mine = lib.Row[2]\n', True, None, {"lib.bitproto": lib})
    vi("import_cyclic", 'proto p\nimport "a.bitproto"\n', False, 2, {"a.bitproto": 'proto a\nimport "main.bitproto"\n'}, "a.bitproto")
    vi("import_self", 'proto p\nimport "main.bitproto"\n', False, 2)
    vi("import_error_inside", 'proto p\nimport "bad.bitproto"\n', False, 3, {"bad.bitproto": "proto bad\nmessage M {\n    uint65 x = 1\n}\n"}, "bad.bitproto")
    # an imported file is parsed in its own name space: it must not see what the importer (or the importer's
    # importer) declared before the import line
    vi("import_child_sees_parent_type", 'proto p\ntype ParentT = uint3\nimport "child.bitproto"\n', False, 3, {"child.bitproto": "proto child\nmessage C {\n    ParentT x = 1\n}\n"}, "child.bitproto")
    vi("import_child_sees_parent_const", 'proto p\nconst PCAP = 4\nimport "child.bitproto"\n', False, 3, {"child.bitproto": "proto child\nmessage C {\n    byte[PCAP] x = 1\n}\n"}, "child.bitproto")
    vi("import_grandchild_sees_grandparent", 'proto p\nmessage GP {\n    bool b = 1\n}\nimport "mid.bitproto"\n', False, 3,
       {"mid.bitproto": 'proto mid\nimport "leaf.bitproto"\n', "leaf.bitproto": "proto leaf\nmessage L {\n    GP g = 1\n}\n"}, "leaf.bitproto")
    vi("import_child_sees_sibling_import", 'proto p\nimport "lib.bitproto"\nimport "child.bitproto"\n', False, 3, {"lib.bitproto": lib, "child.bitproto": "proto child\nmessage C {\n    lib.Pt x = 1\n}\n"}, "child.bitproto")
    vi("import_child_own_import_ok", 'proto p\nimport "child.bitproto"\nmessage M {\n    child.C c = 1\n}\n', True, None, {"lib.bitproto": lib, "child.bitproto": 'proto child\nimport "lib.bitproto"\nmessage C {\n    lib.Pt x = 1\n}\n'})
    vi("import_unqualified", 'proto p\nimport "lib.bitproto"\nmessage M {\n    Pt p = 1\n}\n', False, 4, {"lib.bitproto": lib})
    vi("no_proto_name", "message M {}\n", False, None)
    vi("proto_twice_ok_or_not", "proto p\nproto q\n", True)
    vi("empty_message_ok", "proto p\nmessage M {}\nmessage N' {}\n", True)
    vi("array_of_array_alias_ok", "proto p\ntype R = int5[3]\nmessage M {\n    R[2]' x = 1\n}\n", True)
    vi("array_of_message_ok", "proto p\nmessage E {}\nmessage M {\n    E[4] x = 1\n}\n", True)
    vi("enum_underlying_int", "proto p\nenum E : int3 {\n    X = 0\n}\n", False, 2)
    vi("enum_underlying_bool", "proto p\nenum E : bool {\n    X = 0\n}\n", False, 2)
    vi("field_type_keyword_name", "proto p\nmessage M {\n    bool type = 1\n}\n", True)
    vi("semicolons_ok", "proto p;\nconst A = 1;\ntype T = uint3;\nenum E : uint3 {\n    X = 0;\n}\nmessage M {\n    T t = 1;\n}\n", True)
    vi("typedef_deprecated_ok", "proto p\ntypedef uint3 T\n", True)
    vi("ext_enum_rejected", "proto p\nenum E' : uint3 {\n    X = 0\n}\n", False, 2)
    vi("ext_base_rejected", "proto p\nmessage M {\n    uint3' x = 1\n}\n", False, 3)
    vi("negative_literal", "proto p\nconst A = -1\n", False, 2)
    vi("bad_escape", 'proto p\nconst S = "a\\qb"\n', False, 2)
    vi("bad_char", "proto p\nconst A = 1 ? 2\n", False, 2)
    return T


MAIN = "main.bitproto"


def work(t: Tmpl) -> Dict[str, Any]:
    from ..zc import Template, parse_text, plain_outcome, zc

    from .pyenc import new_result

    res = {"case": t.name, "messages": 1, "leaves": 0, "paths": 0, "queries": 0, "unsat": 0, "sat": 0, "unknown": 0, "solver_s": 0.0, "merges": 0, "witness": 0, "witness_agree": 0,
           "violations": [], "inconclusive": [], "samples": [], "obligations": 0, "value_independent": int(t.accept is None)}
    z = zc()
    PE = z.errors.ParserError
    tm = Template(t.text)
    text, holes = tm.render()
    names = sorted({n for _, n in tm.names()})
    zv = {n: z3.Int(n) for n in names}
    syms = {n: ZInt(zv[n]) for n in names}
    oracle = t.accept(zv) if t.accept else z3.BoolVal(bool(t.expect))
    eng = Engine(max_paths=400)
    pysym.set_engine(eng)
    hole_lines = sorted({text.count("\n", 0, pos) + 1 for pos in holes})
    with Scratch() as sc:
        for fn, txt in t.files.items():
            os.makedirs(os.path.dirname(sc.path(fn)), exist_ok=True)
            with open(sc.path(fn), "w") as f:
                f.write(txt)
        main = sc.path(MAIN)
        with open(main, "w") as f:
            f.write(text)

        def h() -> Any:
            for n in names:
                pysym.ENGINE.assume(zv[n] >= 0)
            return parse_text(text, holes, syms, filepath=main, traditional_mode=t.traditional)

        try:
            for p in eng.explore(h):
                accepted = p.exc is None
                wm = p.witness()
                vals = {n: wm.eval(zv[n], model_completion=True).as_long() for n in names}
                ctext = tm.concrete(vals)
                # (1) accept <=> oracle, for every value on this path
                r, model = p.holds(oracle if accepted else z3.Not(oracle))
                res["obligations"] += 1
                cex_vals = None
                if r == "unknown":
                    res["inconclusive"].append(f"{t.name}: solver unknown")
                elif r == "sat":
                    cex_vals = {n: model.eval(zv[n], model_completion=True).as_long() for n in names}
                # (2) only ParserError may escape, citing the offending file and line
                if not accepted:
                    e = p.exc
                    if not isinstance(e, PE):
                        # is it the compiler's or the engine's?  The witness through the real compiler under normal builtins
                        with open(main, "w") as f:
                            f.write(ctext)
                        npo, npe = plain_outcome(ctext, filepath=main, traditional_mode=t.traditional)
                        with open(main, "w") as f:
                            f.write(text)
                        if npo.startswith("!") and npo[1:] == type(e).__name__:
                            res["violations"].append(_viol(t, tm, vals, f"{type(e).__name__} escapes instead of a parser error: {e}", "escape", sc))
                        else:
                            res["inconclusive"].append(f"{t.name}: {type(e).__name__} ({e}) in the symbolic run, {npo} natively for {vals}: an operation the engine does not model")
                    else:
                        want_file = sc.path(t.err_file) if t.err_file else main
                        lines = t.err_lines if t.err_lines is not None else tuple(hole_lines)
                        ln = getattr(e, "lineno", 0)
                        ln = ln.conc() if isinstance(ln, ZInt) else ln
                        fp = getattr(e, "filepath", "")
                        same_file = bool(fp) and os.path.exists(fp) and os.path.samefile(fp, want_file)
                        if not same_file or (lines and ln not in lines):
                            if t.name != "vi_no_proto_name" or not same_file:
                                res["violations"].append(_viol(t, tm, vals, f"{type(e).__name__} cites {os.path.basename(str(fp))}:{ln}, expected {os.path.basename(want_file)} line in {lines}", "position", sc))
                # (3) witness through the real lexer/parser under normal builtins
                with open(main, "w") as f:
                    f.write(ctext)
                po, pe = plain_outcome(ctext, filepath=main, traditional_mode=t.traditional)
                res["witness"] += 1
                sym_out = "ok" if accepted else type(p.exc).__name__
                if po == sym_out or (po.startswith("!") and po[1:] == sym_out):
                    res["witness_agree"] += 1
                else:
                    res["inconclusive"].append(f"{t.name}: token-substitution validation mismatch: symbolic {sym_out}, native {po} for {vals}")
                if cex_vals is not None:
                    ct = tm.concrete(cex_vals)
                    with open(main, "w") as f:
                        f.write(ct)
                    po2, _ = plain_outcome(ct, filepath=main, traditional_mode=t.traditional)
                    exp_ok = z3.is_true(z3.simplify(z3.substitute(oracle, *[(zv[n], z3.IntVal(cex_vals[n])) for n in names])))
                    if (po2 == "ok") != exp_ok:
                        res["violations"].append(_viol(t, tm, cex_vals, f"compiler {'accepts' if po2 == 'ok' else 'rejects (' + po2 + ')'} but the documented constraints say {'accept' if exp_ok else 'reject'}", "accept", sc))
                    else:
                        res["inconclusive"].append(f"{t.name}: solver model did not reproduce natively: {cex_vals}")
                with open(main, "w") as f:
                    f.write(text)
                if len(res["samples"]) < 2:
                    res["samples"].append({"template": t.name, "path_outcome": sym_out, "witness": vals, "verdict": r, "value_independent": t.accept is None})
        except Inconclusive as e:
            res["inconclusive"].append(f"{t.name}: {type(e).__name__}: {e}")
    for k in ("paths", "queries", "unsat", "sat", "unknown", "merges"):
        res[k] += eng.stats.get(k, 0)
    res["solver_s"] += eng.stats.get("solver_s", 0.0)
    if res["paths"] == 0 and not res["inconclusive"]:
        res["inconclusive"].append(f"{t.name}: no feasible path (vacuous)")
    return res


def _viol(t: Tmpl, tm: Any, vals: Dict[str, int], what: str, kind: str, sc: Scratch) -> Dict[str, Any]:
    files = dict(t.files)
    files[MAIN] = tm.concrete(vals)
    return {"what": f"{t.name} {vals}: {what}", "payload": {"kind": "schema", "template": t.name, "files": files, "main": MAIN, "values": vals, "what": what, "traditional": t.traditional},
            "confirmed": True, "info": {"kind": kind, "key": f"{kind}:{t.name}", "exc": what.split(" ")[0]}}


def _dispatch(job: Any) -> Dict[str, Any]:
    kind, x = job
    if kind == "t":
        return work(x)
    from . import c20

    r = c20.work_lexcite(x)
    r.setdefault("value_independent", 1)
    r.setdefault("messages", 1)
    return r


def main() -> int:
    ev = Evidence(PROP, "other")
    rep = Report(PROP)
    cat = catalogue()
    from . import c20  # the native lexer-error citation part (file and line of errors raised while tokenising, several imports)

    lex_jobs = [(k, b, w) for k, b in c20.LEX_ERRORS for w in ("root", "first", "second")]
    results = pmap(_dispatch, [("t", t) for t in cat] + [("lex", j) for j in lex_jobs])
    tot = aggregate(PROP, ev, rep, results, counters=("messages", "paths", "queries", "unsat", "sat", "unknown", "witness", "witness_agree", "obligations", "value_independent"))
    ev.cov = {
        "explanation": "bounded symbolic execution (all paths) of the real lexer+parser+AST validators on token templates whose numeric holes are z3 integers >= 0; per path: accepted <=> documented-constraint predicate (unsat for all values), only ParserError escapes and it cites the offending file/line; one witness per path re-parsed by the real compiler under normal builtins",
        "evaluations": tot["paths"],
        "distinct_nontrivial": tot["messages"] - tot["value_independent"],
        "rule": "one evaluation = one explored path of one template; non-trivial = templates with symbolic holes (value-independent templates are counted separately)",
        "samples": tot["samples"],
        "templates": tot["messages"],
        "value_independent_templates": tot["value_independent"],
        "paths": tot["paths"],
        "obligations": tot["obligations"],
        "queries": {"total": tot["queries"], "unsat": tot["unsat"], "sat": tot["sat"], "unknown": tot["unknown"]},
        "solver_s": tot["solver_s"],
        "token_substitution_validation": {"n": tot["witness"], "agree": tot["witness_agree"]},
        "cross_solver": {"solver": "cvc5 1.4 (wheel)", "n": tot.get("xsolver_n", 0), "agree": tot.get("xsolver_agree", 0), "disagree": tot.get("xsolver_disagree", 0), "cvc5_unknown": tot.get("xsolver_cvc5_unknown", 0), "errors": tot.get("xsolver_errors", 0)},
        "functions_encoded": repo_files(FILES),
        "bounds": "templates with <= 3 fields / 3 enum members / nesting depth 2; integers unbounded above (z3 Int), >= 0 (the lexer has no negative literals); <= 400 paths per template",
        "outside_claim": "digits -> number step of substituted tokens (Python int()); CLI exit status / absence of output files (observations; covered by native replay of violations only); schemas larger than the templates",
        "stubs": ["int", "bool", "isinstance", "range", "min", "max", "int-literal set/dict containers", "real Lexer on concrete text + value substitution"],
    }
    ev.assumptions = ["z3 decides linear/non-linear integer queries of this size (unknown = inconclusive)", "the acceptance predicate in vlib/checks/c08.py states the documented constraints"]
    return rep.finish(ev)


def replay(path: str) -> int:
    import json

    from ..compile import compile_cli, write_files

    p = json.load(open(path))
    with Scratch() as sc:
        write_files(p["files"], sc.dir)
        r = compile_cli(sc.dir, p["main"], None, None, ["-c"])
        print(f"exit={r.returncode}\n{r.stderr[-600:]}")
        print("expected:", p["what"])
    return 1
