"""C17 -O and -F restrict what is generated without altering it (E1 over the flag space)."""
from __future__ import annotations

import contextlib
import io
import itertools
import os
import re
from typing import Any, Dict, List, Optional, Tuple

import z3

from .. import pysym
from ..common import Inconclusive, Scratch, tier
from ..pysym import Engine, SymBool

PROP = "C17"
FILES = ["compiler/bitproto/_main.py", "compiler/bitproto/parser.py", "compiler/bitproto/renderer/renderer.py", "compiler/bitproto/renderer/__init__.py", "compiler/bitproto/renderer/impls/c/renderer_c.py",
         "compiler/bitproto/renderer/impls/c/renderer_h.py", "compiler/bitproto/renderer/impls/go/renderer.py"]

# extensible marks at 0..4 positions: message, array, nested message, imported file
MARKS = ("msg", "arr", "nested", "imported", "imported2")


def schema(marks: Tuple[str, ...]) -> Dict[str, str]:
    m = lambda k: "'" if k in marks else ""
    deep = f"proto deep\nmessage Leaf{m('imported2')} {{\n    uint5 v = 1\n}}\n"
    lib = f'proto lib\nimport "deep.bitproto"\ntype Row = uint12[3]{m("imported")}\nmessage Pt {{\n    int10 x = 1\n    deep.Leaf leaf = 2\n}}\n'
    main = ('proto main\nimport "lib.bitproto"\nenum Kind : uint3 {\n    KIND_A = 0\n    KIND_B = 5\n}\n'
            f"message sensor_data{m('msg')} {{\n    uint7 raw = 1\n    int13[2]{m('arr')} vals = 2\n}}\n"
            f"message Outer {{\n    message Inner{m('nested')} {{\n        Kind k = 1\n        bool b = 2\n    }}\n    Inner i = 1\n    lib.Pt p = 2\n    lib.Row r = 3\n    sensor_data s = 4\n}}\n"
            "message Tail {\n    byte[3] raw = 1\n    Outer o = 2\n}\nmessage Nothing {\n}\n")
    return {"main.bitproto": main, "lib.bitproto": lib, "deep.bitproto": deep}


MSGS = ["sensor_data", "Inner", "Outer", "Tail", "Nothing"]


class _Fatal(Exception):
    def __init__(self, msg: str):
        self.msg = msg


def _res(name: str) -> Dict[str, Any]:
    return {"case": name, "messages": 1, "leaves": 0, "paths": 0, "queries": 0, "unsat": 0, "sat": 0, "unknown": 0, "solver_s": 0.0, "merges": 0, "witness": 0, "witness_agree": 0,
            "violations": [], "inconclusive": [], "samples": [], "obligations": 0}


def work_flags(job: Tuple[Tuple[str, ...], str, str, Optional[Tuple[str, ...]]]) -> Dict[str, Any]:
    """main() with symbolic -O / -c switches (forked by the engine), for one (marks, lang,
    endian, filter) cell"""
    from ..compile import compile_cli, write_files
    from ..zc import zc

    marks, lang, endian, flt = job
    res = _res(f"flags:marks={'+'.join(marks) or 'none'}:lang={lang}:endian={endian}:F={','.join(flt) if flt else '-'}")
    z = zc()
    M = z.mod("bitproto._main")
    O, C = z3.Bool("opt_O"), z3.Bool("opt_c")
    eng = Engine(max_paths=50)
    pysym.set_engine(eng)
    with Scratch() as sc:
        write_files(schema(marks), sc.dir)
        out = sc.path("out")
        state: Dict[str, Any] = {}

        def fatal(s: str = "", code: int = 1) -> None:
            raise _Fatal(s)

        def h() -> Any:
            import shutil

            shutil.rmtree(out, ignore_errors=True)
            os.makedirs(out)
            M.__dict__["fatal"] = fatal  # process exit is environment
            with contextlib.redirect_stderr(io.StringIO()):
                try:
                    M.main(sc.path("main.bitproto"), lang=lang, outdir=out, disable_linter=True, check=SymBool(C), enable_optimize=SymBool(O), filter_messages=list(flt) if flt else None, endian=endian)
                except _Fatal as e:
                    return ("fatal", e.msg, sorted(os.listdir(out)))
            return ("ok", "", sorted(os.listdir(out)))

        any_mark = bool(marks)
        try:
            for p in eng.explore(h):
                if p.exc is not None:
                    res["inconclusive"].append(f"{res['case']}: unexpected {type(p.exc).__name__}: {p.exc}")
                    continue
                outcome, msg, files = p.value
                # refusal <=> (not -c) and ((O and some mark) or (O and lang = py) or (F and not O)); -c never renders
                refuse = z3.And(z3.Not(C), z3.Or(z3.And(O, z3.BoolVal(any_mark)), z3.And(O, z3.BoolVal(lang == "py")), z3.And(z3.BoolVal(bool(flt)), z3.Not(O))))
                written = z3.And(z3.Not(C), z3.Not(refuse))
                obl = [("refused with a diagnostic <=> (-O with a marker) or (-O for py) or (-F without -O)", z3.BoolVal(outcome == "fatal") == refuse),
                       ("output files written <=> not check-only and not refused", z3.BoolVal(bool(files)) == written),
                       ("a refusal carries a diagnostic", z3.BoolVal(outcome != "fatal" or bool(msg.strip())))]
                for what, phi in obl:
                    res["obligations"] += 1
                    r, model = p.holds(phi)
                    if r == "unknown":
                        res["inconclusive"].append(f"{res['case']}: unknown")
                    elif r == "sat":
                        o_, c_ = z3.is_true(model.eval(O, model_completion=True)), z3.is_true(model.eval(C, model_completion=True))
                        flags = (["-O"] if o_ else []) + (["-c"] if c_ else []) + (["-F", ",".join(flt)] if flt else []) + ["--endian", endian, "-q"]
                        rr = compile_cli(sc.dir, "main.bitproto", lang, sc.path("out_replay"), flags)
                        os.makedirs(sc.path("out_replay"), exist_ok=True)
                        wrote = bool(os.listdir(sc.path("out_replay"))) if os.path.isdir(sc.path("out_replay")) else False
                        exp_refuse = (not c_) and ((o_ and any_mark) or (o_ and lang == "py") or (bool(flt) and not o_))
                        if (rr.returncode != 0) != exp_refuse or wrote != ((not c_) and not exp_refuse) or (rr.returncode != 0 and not rr.stderr.strip()):
                            res["violations"].append({"what": f"{res['case']} flags {' '.join(flags)}: exit={rr.returncode}, files written={wrote}; expected {'refusal with diagnostic and no file' if exp_refuse else 'success'}: {rr.stderr.strip()[:160]}",
                                                      "payload": {"kind": "cli", "files": schema(marks), "lang": lang, "flags": flags}, "confirmed": True, "info": {"kind": "flags", "key": "flags"}})
                        else:
                            res["inconclusive"].append(f"{res['case']}: model for `{what}` did not reproduce through the CLI ({flags})")
            res["samples"].append({"cell": res["case"], "paths": eng.stats["paths"]})
        except Inconclusive as e:
            res["inconclusive"].append(f"{res['case']}: {type(e).__name__}: {e}")
    for k in ("paths", "queries", "unsat", "sat", "unknown"):
        res[k] += eng.stats.get(k, 0)
    res["solver_s"] += eng.stats.get("solver_s", 0.0)
    return res


# ---- -O -F: exactly the named messages get encoder/decoder functions, textually identical; all declarations stay


def c_functions(src: str) -> Dict[str, str]:
    """top-level function definitions of a generated C file: name -> text"""
    out: Dict[str, str] = {}
    for m in re.finditer(r"(?m)^(?:int|void)\s+(\w+)\s*\([^;{]*\)\s*\{", src):
        depth, i = 0, m.end() - 1
        while True:
            if src[i] == "{":
                depth += 1
            elif src[i] == "}":
                depth -= 1
                if depth == 0:
                    break
            i += 1
        out[m.group(1)] = src[m.start():i + 1]
    return out


def go_functions(src: str) -> Dict[str, str]:
    out: Dict[str, str] = {}
    for m in re.finditer(r"(?m)^func\s+(\([^)]*\)\s*)?(\w+)\s*\([^{]*\{", src):
        depth, i = 0, m.end() - 1
        while True:
            if src[i] == "{":
                depth += 1
            elif src[i] == "}":
                depth -= 1
                if depth == 0:
                    break
            i += 1
        recv = re.sub(r"\s+", " ", m.group(1) or "").strip()
        out[f"{recv}{m.group(2)}"] = src[m.start():i + 1]
    return out


def decl_lines(src: str) -> List[str]:
    """type / constant / size declaration lines (everything that is not inside a function body
    and not a function prototype of an encoder/decoder)"""
    keep = []
    for l in src.split("\n"):
        s = l.strip()
        if not s or s.startswith("//"):
            continue
        if re.match(r"^(int|void)\s+(Encode|Decode)\w+\s*\(", s):
            continue
        keep.append(s)
    return keep


CNAME = {"sensor_data": "SensorData", "Inner": "OuterInner", "Outer": "Outer", "Tail": "Tail", "Nothing": "Nothing"}


def work_filter(job: Tuple[str, str, Tuple[str, ...]]) -> Dict[str, Any]:
    from ..compile import compile_cli, write_files

    lang, endian, subset = job
    res = _res(f"filter:{lang}:{endian}:{','.join(subset)}")
    res["value_independent"] = 1
    with Scratch() as sc:
        write_files(schema(()), sc.dir)
        full, filt = sc.path("full"), sc.path("filt")
        r1 = compile_cli(sc.dir, "main.bitproto", lang, full, ["-O", "-q", "--endian", endian])
        r2 = compile_cli(sc.dir, "main.bitproto", lang, filt, ["-O", "-q", "--endian", endian, "-F", ",".join(subset)])
        if r1.returncode or r2.returncode:
            res["violations"].append({"what": f"{res['case']}: compile failed: {r1.stderr[-150:]} {r2.stderr[-150:]}", "payload": {"kind": "cli", "files": schema(()), "lang": lang, "subset": list(subset)}, "confirmed": True, "info": {"kind": "filter"}})
            return res
        if lang == "go":
            # the filtered file is still a well-formed Go file (imports needed by the structs that stay are still there)
            from .. import gostatic

            res["obligations"] += 1
            try:
                probs = gostatic.check(open(os.path.join(filt, "main_bp.go")).read())
            except Inconclusive as e:
                probs = []
                res["inconclusive"].append(f"{res['case']}: {e}")
            if probs:
                res["violations"].append(_fv(res, f"the Go file generated with -F is not well formed: {'; '.join(probs[:2])}", lang, subset))
        # the list may be written with blanks around the commas (and a trailing comma): the same names, the same output
        if len(subset) >= 1:
            for si, spelled in enumerate((", ".join(subset), " " + " , ".join(subset) + " ", ",".join(subset) + ",")):
                alt = sc.path(f"filt_sp{si}")
                r3 = compile_cli(sc.dir, "main.bitproto", lang, alt, ["-O", "-q", "--endian", endian, "-F", spelled])
                res["obligations"] += 1
                same = r3.returncode == 0 and all(open(os.path.join(alt, f)).read() == open(os.path.join(filt, f)).read() for f in os.listdir(filt) if f.startswith("main_bp"))
                if not same:
                    res["violations"].append(_fv(res, f"-F {spelled!r} does not give the output of -F {','.join(subset)!r} (exit {r3.returncode})", lang, subset))
                    break
        if lang == "c":
            fa, fb = c_functions(open(os.path.join(full, "main_bp.c")).read()), c_functions(open(os.path.join(filt, "main_bp.c")).read())
            enc = lambda n: [f"Encode{CNAME[n]}", f"Decode{CNAME[n]}"]
            ha, hb = open(os.path.join(full, "main_bp.h")).read(), open(os.path.join(filt, "main_bp.h")).read()
            missing = [l for l in decl_lines(ha) if l not in decl_lines(hb)]
            res["obligations"] += 1
            if missing:
                res["violations"].append(_fv(res, f"declarations of the unfiltered header missing with -F: {missing[:3]}", lang, subset))
            for n in MSGS:
                for fn in enc(n):
                    proto_in_h = re.search(rf"\b{fn}\s*\(", hb) is not None
                    res["obligations"] += 1
                    if (n in subset) != proto_in_h:
                        res["violations"].append(_fv(res, f"header prototype of {fn} {'missing' if n in subset else 'present'}", lang, subset))
        else:
            fa, fb = go_functions(open(os.path.join(full, "main_bp.go")).read()), go_functions(open(os.path.join(filt, "main_bp.go")).read())
            enc = lambda n: [f"(m *{CNAME[n]})Encode", f"(m *{CNAME[n]})Decode"]
            strip = lambda s: "\n".join(l for l in s.split("\n") if l.strip() and not l.strip().startswith("//"))
            ga, gb = open(os.path.join(full, "main_bp.go")).read(), open(os.path.join(filt, "main_bp.go")).read()
            da = [l.strip() for l in ga.split("\n") if re.match(r"^(type|const|var)\b", l)]
            db = [l.strip() for l in gb.split("\n") if re.match(r"^(type|const|var)\b", l)]
            res["obligations"] += 1
            if [l for l in da if l not in db]:
                res["violations"].append(_fv(res, f"type/const declarations missing with -F: {[l for l in da if l not in db][:3]}", lang, subset))
        for n in MSGS:
            for fn in enc(n):
                res["obligations"] += 1
                if fn not in fa:
                    if lang == "c" and re.search(rf"\b{fn}\s*\(", ha):
                        # the header of the unfiltered output declares it: a program that calls it does not link
                        res["violations"].append(_fv(res, f"{fn} is declared in the header but never defined in the generated source (no -F involved)", lang, subset))
                    else:
                        res["inconclusive"].append(f"{res['case']}: unfiltered output has no {fn} (name scheme changed?)")
                    continue
                if n in subset:
                    if fn not in fb:
                        res["violations"].append(_fv(res, f"{fn} is missing although {n} is named in -F", lang, subset))
                    elif fb[fn] != fa[fn]:
                        res["violations"].append(_fv(res, f"{fn} differs textually from the unfiltered output", lang, subset))
                elif fn in fb:
                    res["violations"].append(_fv(res, f"{fn} is generated although {n} is not named in -F", lang, subset))
        extra = [f for f in fb if f not in fa]
        if extra:
            res["violations"].append(_fv(res, f"functions only in the filtered output: {extra[:3]}", lang, subset))
    res["paths"] = 1
    res["samples"].append({"filter": res["case"], "value_independent": True})
    return res


def _fv(res: Dict[str, Any], what: str, lang: str, subset: Tuple[str, ...]) -> Dict[str, Any]:
    return {"what": f"{res['case']}: {what}", "payload": {"kind": "cli", "files": schema(()), "lang": lang, "flags": ["-O", "-F", ",".join(subset)]}, "confirmed": True, "info": {"kind": "filter", "key": "filter"}}


def main() -> int:
    from .agg import run_parts

    q = tier() == "quick"
    mark_sets: List[Tuple[str, ...]] = [()] + [(m,) for m in MARKS] + ([("msg", "imported")] if q else [c for r in (2, 3) for c in itertools.combinations(MARKS, r)] + [MARKS])
    cells = []
    for marks in mark_sets:
        for lang in ("c", "go", "py"):
            for endian in (("both",) if q and marks else ("both", "little", "big")):
                for flt in (None, ("Tail",), ("sensor_data", "Inner")):
                    if q and flt and len(flt) == 2 and marks:
                        continue
                    cells.append((marks, lang, endian, flt))
    subsets = [s for r in range(1, 5) for s in itertools.combinations(MSGS, r)]
    filt = [(lang, endian, s) for lang in ("c", "go") for endian in (("both",) if q else ("both", "little", "big")) for s in subsets]
    parts = [("flag-space", work_flags, cells), ("filter-subsets", work_filter, filt)]
    meta = {
        "functions_encoded": FILES,
        "exhaustive": True,
        "bounds": f"one schema family (3 files, 4 messages incl. a nested and a non-PascalCase one) with extensible marks at {len(mark_sets)} subsets of 5 positions (message, array, nested message, imported file, transitively imported file); -O and -c symbolic (forked by the engine), lang in c/go/py, --endian in both/little/big, -F absent / one / two names; -O -F: all 15 non-empty subsets of message names x c/go",
        "outside_claim": "argparse; wording of diagnostics; schemas outside the family",
        "explanation": "symbolic execution over boolean switches degenerates to an exhaustive case split of the finite flag space (said so: exhaustive = true for the flag space, bounded for schemas); per path: refused with diagnostic and no output <=> (-O with a marker anywhere) or (-O for py) or (-F without -O); filtered functions are textually identical to the unfiltered ones and every declaration is still emitted",
        "evaluations": len(cells) + len(filt),
        "distinct_nontrivial": len(cells) + len(filt),
        "rule": "one evaluation = one (marks, lang, endian, filter) cell explored over the symbolic -O/-c switches, or one -F subset comparison",
    }
    return run_parts(PROP, "other", parts, meta, ["fatal() is process exit (stubbed by a raising function)", "function extraction from generated C/Go text by brace matching"])


def replay(path: str) -> int:
    import json

    from ..compile import compile_cli, write_files

    p = json.load(open(path))
    with Scratch() as sc:
        write_files(p["files"], sc.dir)
        r = compile_cli(sc.dir, "main.bitproto", p["lang"], sc.path("out"), p.get("flags", []))
        print(f"exit={r.returncode} files={os.listdir(sc.path('out')) if os.path.isdir(sc.path('out')) else []}\n{r.stderr[-400:]}")
    return 1
