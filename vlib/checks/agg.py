"""Aggregation of per-case worker results into evidence + report."""
from __future__ import annotations

import re
from typing import Any, Callable, Dict, List, Optional, Tuple

from ..common import Evidence, Report, known_for, repo_files


def match_known(prop: str, v: Dict[str, Any]) -> Optional[str]:
    """A violation is attributed to a listed known finding only through its cause key: every
    regex of the finding's `match` must match the corresponding text of the concrete failure."""
    what = v.get("what", "")
    info = v.get("info", {})
    nat = info.get("native", {}) if isinstance(info, dict) else {}
    hay = {
        "what": what,
        "exc": str(nat.get("exc", info.get("exc", ""))),
        "frame": " | ".join(map(str, nat.get("frame") or info.get("frame") or [])),
        "kind": str(info.get("kind", "")),
        "key": str(info.get("key", "")),
    }
    for k in known_for(prop):
        m = k.get("match", {})
        if m and all(re.search(rx, hay.get(field, "")) for field, rx in m.items()):
            return k["id"]
    return None


def aggregate(prop: str, ev: Evidence, rep: Report, results: List[Tuple[str, Any]], counters: Tuple[str, ...] = ("messages", "leaves", "paths", "queries", "unsat", "sat", "unknown", "merges", "witness", "witness_agree", "obligations")) -> Dict[str, Any]:
    tot: Dict[str, Any] = {k: 0 for k in counters}
    tot["solver_s"] = 0.0
    tot["cases"] = 0
    samples: List[Any] = []
    cex = 0
    for st, r in results:
        if st == "inconclusive":
            rep.inconc(r)
            continue
        if st == "error":
            rep.inconc("harness error: " + r)
            continue
        tot["cases"] += 1
        for k in counters:
            tot[k] += r.get(k, 0)
        tot["solver_s"] += r.get("solver_s", 0.0)
        for s in r.get("samples", []):
            if len(samples) < 6:
                samples.append(s)
        for w in r.get("inconclusive", []):
            rep.inconc(w)
        xs = r.get("xsolver") or {}
        for k, v in xs.items():
            tot["xsolver_" + k] = tot.get("xsolver_" + k, 0) + v
        if xs.get("disagree") or xs.get("errors"):
            rep.inconc(f"cross-solver: {r.get('xsolver_notes')}")
        for v in r.get("violations", []):
            cex += 1
            fid = match_known(prop, v)
            if fid:
                rep.known_finding(fid, v["what"])
            else:
                rep.violation(v["what"], v["payload"])
    tot["solver_s"] = round(tot["solver_s"], 2)
    tot["counterexamples_replayed"] = cex
    tot["samples"] = samples
    return tot


def run_parts(prop: str, level: str, parts: List[Tuple[str, Callable[[Any], Any], List[Any]]], meta: Dict[str, Any], assumptions: List[str], fresh_workers: bool = False) -> int:
    """Run several (label, worker, items) parts through one pool; aggregate into one evidence
    file.  Workers return the result dicts of vlib.checks.pyenc.new_result()."""
    from ..common import pmap

    ev = Evidence(prop, level)
    rep = Report(prop)
    jobs: List[Tuple[str, Callable[[Any], Any], Any]] = []
    for label, fn, items in parts:
        for it in items:
            jobs.append((label, fn, it))
    results = pmap(_run_job, jobs, fresh=fresh_workers)
    per: Dict[str, Any] = {}
    alltot: Dict[str, Any] = {}
    samples: List[Any] = []
    for label, _, _ in parts:
        sub = [r for (l, _, _), r in zip(jobs, results) if l == label]
        tot = aggregate(prop, ev, rep, sub)
        per[label] = {k: v for k, v in tot.items() if k != "samples"}
        for s in tot["samples"][:3]:
            samples.append({"part": label, **s} if isinstance(s, dict) else s)
        for k, v in tot.items():
            if isinstance(v, (int, float)) and not isinstance(v, bool):
                alltot[k] = alltot.get(k, 0) + v
    ev.cov = {
        "programs": int(alltot.get("messages", 0)),
        "disagreements_checked": int(alltot.get("counterexamples_replayed", 0)),
        "samples": samples or [{"note": "no sample collected"}],
        "parts": per,
        "paths": int(alltot.get("paths", 0)),
        "obligations": int(alltot.get("obligations", 0)),
        "queries": {"total": int(alltot.get("queries", 0)), "unsat": int(alltot.get("unsat", 0)), "sat": int(alltot.get("sat", 0)), "unknown": int(alltot.get("unknown", 0))},
        "solver_s": round(alltot.get("solver_s", 0.0), 2),
        "interpreter_validation": {"n": int(alltot.get("witness", 0)), "agree": int(alltot.get("witness_agree", 0))},
        "cross_solver": {"solver": "cvc5 1.4 (wheel, SMT-LIB parser)", "n": int(alltot.get("xsolver_n", 0)), "agree": int(alltot.get("xsolver_agree", 0)), "cvc5_unknown": int(alltot.get("xsolver_cvc5_unknown", 0)),
                         "disagree": int(alltot.get("xsolver_disagree", 0)), "errors": int(alltot.get("xsolver_errors", 0))},
    }
    ev.cov.update(meta)
    if "functions_encoded" in meta:
        ev.cov["functions_encoded"] = repo_files(meta["functions_encoded"])
    ev.assumptions = assumptions
    return rep.finish(ev)


def _run_job(job: Tuple[str, Callable[[Any], Any], Any]) -> Any:
    _, fn, it = job
    return fn(it)
