"""C04 Optimization mode (-O) changes how, never what, is encoded (C via E2; Go via E3)."""
from __future__ import annotations

from ..common import seed, tier
from ..families import f_grid, f_shape
from . import cenc
from .agg import run_parts
from .cenc import Cfg

PROP = "C04"


def c_configs(q: bool):
    cf = []
    levels = ("O0", "O2") if not q else ("O2",)
    for ol in levels:
        cf += [
            Cfg(ol, "x86_64", False, (), True, "little"),
            Cfg(ol, "x86_64", False, (), True, "big"),
            Cfg(ol, "x86_64", False, (), True, "both"),  # little-endian branch of the default output
            Cfg(ol, "x86_64", False, ("BP_BIG_ENDIAN",), True, "both", False),  # big-endian branch forced; storage stays native
            Cfg(ol, "s390x", False, (), True, "big"),
            Cfg(ol, "s390x", False, (), True, "both"),  # big-endian branch by auto-detection
        ]
    if q:
        cf.append(Cfg("O0", "x86_64", False, (), True, "both"))
    return cf


def main() -> int:
    q = tier() == "quick"
    shape = [c for c in f_shape(q, seed(), traditional=True)]
    grid = f_grid(True)
    cases = shape + (grid[::8] if q else grid[::2])
    cfgs = c_configs(q)
    jobs = [(c, [cfg], ("encode", "decode")) for c in cases for cfg in (cfgs if "large" not in c.tags else cfgs[:2])]
    parts = [("c-optimization-mode", cenc.work, jobs)]
    try:
        from . import goenc

        parts.append(("go-optimization-mode", goenc.work, [(c, True, ("encode", "decode")) for c in cases if "large" not in c.tags]))
    except ImportError:
        pass
    meta = {
        "functions_encoded": cenc.C_FILES + ["compiler/bitproto/renderer/impls/go/formatter.py", "compiler/bitproto/renderer/impls/go/renderer.py"],
        "configurations": [c.name() for c in cfgs],
        "bounds": "traditional members of F_shape (+seeded random tail) and a slice of F_grid; `bitproto c -O` with --endian little / big / both (with and without -DBP_BIG_ENDIAN) lowered by clang 14 for x86-64, --endian big / both additionally for s390x (true big-endian data layout; auto-detection fires); all values; <= 4096 generated statements per function",
        "outside_claim": "C++ compilation of the -O output; the back end; Go results are interpreter-only (no Go toolchain)",
        "explanation": "-O Encode<Msg> bytes == specified bytes (which standard mode produces, C03), -O Decode<Msg> of those bytes into a zeroed struct == the values, for all values; the big-endian branch runs on native storage (value shifts) on either host",
    }
    return run_parts(PROP, "translation_validation", parts, meta, ["z3 decides QF_BV", "IR interpreter validated against gcc-built native code (x86-64) each run; the s390x configuration shares the interpreter core"])


def replay(path: str) -> int:
    return cenc.replay_main(path)
