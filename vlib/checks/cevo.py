"""C part of C05: the OLD schema's generated C decoder (IR through llsym) on the specified wire
of the NEW schema's symbolic values."""
from __future__ import annotations

import random
import time
from typing import Any, Dict, List

import z3

from .. import llsym, pysym
from ..common import Inconclusive, Scratch
from ..compile import CompileError
from ..crt import CBuild, CMsg, native_decode, native_encode, pack_struct, unpack_struct
from ..families import EvoCase
from ..llsym import OOB, UB, Ptr
from ..pyrt import sym_leaves
from ..pysym import Engine
from ..schema import layout, spec_bytes_z3, spec_encode
from .cenc import Cfg, read_struct
from .pycommon import extreme_values, vals_case
from .pyenc import new_result


def select(evo: List[EvoCase], q: bool) -> List[Any]:
    sel = evo[::3] if q else evo
    cfgs = [Cfg("O0", "x86_64"), Cfg("O2", "x86_64")]
    return [(e, cfgs[i % 2] if q else c) for i, e in enumerate(sel) for c in (cfgs[:1] if q else cfgs)]


def work(job: Any) -> Dict[str, Any]:
    ec, cfg = job
    res = new_result(ec.old)
    res["case"] = ec.name
    with Scratch() as sc:
        try:
            cb_old = CBuild(ec.old, sc.dir, tag="_old")
            cb_new = CBuild(ec.new, sc.dir, tag="_new")
            mods, consts = cb_old.modules(cfg.olevel, cfg.target, cfg.defines, cfg.single_tu, msgs=ec.old.messages)
            mods_n, consts_n = cb_new.modules("O0", "x86_64", (), False, msgs=ec.new.messages)
        except (CompileError, Inconclusive) as e:
            res["inconclusive"].append(f"{ec.name}: {e}")
            return res
        new_by_name = {m.name: (i, m, ch) for i, (m, ch) in enumerate(ec.new.messages)}
        for mi, (msg, chain) in enumerate(ec.old.messages):
            cm = CMsg(mods, consts, mi, msg, chain)
            ni, nm, nchain = new_by_name[msg.name]
            cmn = CMsg(mods_n, consts_n, ni, nm, nchain)
            lay_o, lay_n = cm.lay, layout(nm)
            terms, _p, assumes = sym_leaves(lay_n)
            spec = spec_bytes_z3(lay_n, terms)
            res["messages"] += 1
            res["leaves"] += len(lay_o.leaves())
            eng = Engine(max_paths=64)
            pysym.set_engine(eng)

            def h() -> Any:
                for a in assumes:
                    pysym.ENGINE.assume(a)
                M = cm.machine()
                st = M.new_region(cm.sizeof, "msg", fill=0)
                buf = M.new_region(lay_n.nbytes, "buf", fill=0)  # exactly the sender's BYTES_LENGTH
                M.mem[buf] = [llsym.simp(b) for b in spec]
                M.readonly.add(buf)
                M.call("@Decode" + cm.name, [Ptr(st, 0), Ptr(buf, 0)])
                return M, read_struct(cm, M, st, False)

            cexs = []
            aborted = ""
            try:
                for p in eng.explore(h):
                    if p.exc is not None:
                        if isinstance(p.exc, (OOB, UB)):
                            cexs.append((_vals(lay_n, terms, p.witness()), f"{type(p.exc).__name__}: {p.exc}"))
                            continue
                        raise Inconclusive(f"unexpected {type(p.exc).__name__}: {p.exc}")
                    M, vals = p.value
                    conj = [llsym.bv(v, 8 * cm.sz[li]) == cm.storage_term(l, li, terms[l.path]) for li, (l, v) in enumerate(zip(lay_o.leaves(), vals))]
                    res["obligations"] += len(conj)
                    r, model = p.holds(z3.And(*conj) if conj else z3.BoolVal(True))
                    if r == "unknown":
                        res["inconclusive"].append(f"{ec.name}: solver unknown")
                    elif r == "sat":
                        cexs.append((_vals(lay_n, terms, model), "value"))
                    elif len(res["samples"]) < 1:
                        res["samples"].append({"evolution": ec.name, "steps": list(ec.steps), "message": cm.name, "config": cfg.name(), "ir_steps": M.steps, "verdict": "unsat"})
            except Inconclusive as e:
                aborted = f"{ec.name}.{cm.name} [{cfg.name()}]: {type(e).__name__}: {e}"
            for k in ("paths", "queries", "unsat", "sat", "unknown"):
                res[k] += eng.stats.get(k, 0)
            res["solver_s"] += eng.stats.get("solver_s", 0.0)
            # native: new real encoder -> old real decoder
            rng = random.Random(hash(ec.name) & 0xFFFF)
            tests = [("cex", v, w) for v, w in cexs[:3]] + ([] if cexs else [("wit", v, "") for v in extreme_values(lay_n, rng, 1)[:2]])
            if aborted:
                # the symbolic run could not finish (typically: a wrong skip makes the cursor symbolic). The extreme
                # values still run natively: a failure there is a confirmed violation, otherwise stay inconclusive.
                tests = [("cex", v, "symbolic run aborted: " + aborted.split(": ", 1)[-1][:80]) for _, v, _ in tests]
            try:
                so_old, so_new = cb_old.shared_object("O2"), cb_new.shared_object("O2")
            except Inconclusive as e:
                res["inconclusive"].append(f"{ec.name}: {e}")
                continue
            native_bad = 0
            for kind, v, why in tests:
                wire, _ = native_encode(so_new, "Encode" + cmn.name, pack_struct(cmn, v), lay_n.nbytes)
                raw, guard_ok = native_decode(so_old, "Decode" + cm.name, wire, cm.sizeof)
                got = unpack_struct(cm, raw)
                wrong = [(l.pname(), got[l.path], v[l.path]) for l in lay_o.leaves() if got[l.path] != v[l.path]]
                bad = None
                if wrong:
                    bad = f"old C decoder reads {wrong[:3]} (field, got, encoded)"
                    if wire != spec_encode(lay_n, v):
                        bad += f"; the new version's real encoder emits {wire.hex()[:48]}.. instead of the specified {spec_encode(lay_n, v).hex()[:48]}.."
                        kind = "cex"
                elif not guard_ok:
                    bad = "old C decoder wrote outside its struct"
                if kind == "wit":
                    res["witness"] += 1
                    if bad is None:
                        res["witness_agree"] += 1
                    else:
                        res["inconclusive"].append(f"{ec.name}: native run disagrees with an unsat verdict: {bad}")
                    continue
                payload = {"kind": "c-evo", "evolution": ec.name, "steps": list(ec.steps), "old_files": ec.old.proto.files(), "new_files": ec.new.proto.files(), "message": cm.name, "values": vals_case(lay_n, v), "why": why, "cfg": cfg.name()}
                if bad is None and ("OOB" in why or "UB" in why):
                    res["violations"].append({"what": f"{ec.name} [{', '.join(ec.steps)}] {cm.name} [{cfg.name()}]: {why} (interpreter memory model; no observable difference natively)", "payload": payload, "confirmed": True, "info": {"kind": "memory", "key": evo_key(ec)}})
                elif bad is None:
                    if not aborted:
                        res["inconclusive"].append(f"{ec.name}: solver model did not reproduce natively")
                else:
                    native_bad += 1
                    res["violations"].append({"what": f"{ec.name} [{', '.join(ec.steps)}] {cm.name} [{cfg.name()}]: {bad}", "payload": payload, "confirmed": True, "info": {"kind": "c-evo", "key": evo_key(ec)}})
            if aborted and not native_bad:
                res["inconclusive"].append(aborted)
    return res


def _vals(lay: Any, terms: Dict[Any, Any], model: Any) -> Dict[Any, int]:
    d = {}
    for l in lay.leaves():
        v = model.eval(terms[l.path], model_completion=True).as_long()
        if l.signed and v >> (l.n - 1):
            v -= 1 << l.n
        d[l.path] = v
    return d


def evo_key(ec: EvoCase) -> str:
    """cause key for the residual of the extensible-array fix in C: an extensible array whose
    capacity grew while its element type (transitively) contains an extensible message that
    grew too (the C runtime skips the extra elements by the receiver's element size)"""
    from ..families import _ext_nodes
    from ..schema import Alias, Message, TArray, TRef

    nodes = _ext_nodes(ec.old.proto)
    grown_arr, grown_msg = [], []
    for st in ec.steps:
        i, what = st.split(":")
        if int(i) >= len(nodes):
            continue
        kind, node = nodes[int(i)]
        if what.startswith("cap") and kind == "arr":
            grown_arr.append(node)
        if what.startswith("app") and kind == "msg":
            grown_msg.append(node)

    def contains(t: Any, target: Any, depth: int = 0) -> bool:
        if depth > 8:
            return False
        if isinstance(t, TArray):
            return contains(t.el, target, depth + 1)
        if isinstance(t, TRef):
            tg = t.target
            if tg is target:
                return True
            if isinstance(tg, Alias):
                return contains(tg.to, target, depth + 1)
            if isinstance(tg, Message):
                return any(contains(f.type, target, depth + 1) for f in tg.fields)
        return False

    def contains_arr(t: Any, target: Any, depth: int = 0) -> bool:
        if depth > 8:
            return False
        if isinstance(t, TArray):
            return t is target or contains_arr(t.el, target, depth + 1)
        if isinstance(t, TRef):
            tg = t.target
            if isinstance(tg, Alias):
                return contains_arr(tg.to, target, depth + 1)
            if isinstance(tg, Message):
                return any(contains_arr(f.type, target, depth + 1) for f in tg.fields)
        return False

    for a in grown_arr:
        if any(contains(a.el, m) for m in grown_msg) or any(b is not a and contains_arr(a.el, b) for b in grown_arr):
            return "c-ext-array-of-grown-ext-elements"
    return ""
