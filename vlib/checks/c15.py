"""C15 kernel: the clauses of the naming property that have a value quantifier.
(a) `c.name_prefix` changes nothing but names: with the option set, the struct layout
    constants are identical and Encode/Decode (found under their documented prefixed names)
    produce / consume exactly the same bytes for ALL values (E2), and the Python / Go outputs are
    textually unchanged;
(b) the API-name templates read from the current sources (E4): `Encode{Name}`, `Decode{Name}`,
    `Json{Name}` and the output file name `<schema file base name>_bp<ext>` for every name."""
from __future__ import annotations

import copy
import os
import random
from typing import Any, Dict, List, Tuple

import z3

from ..common import Inconclusive, Scratch, seed, tier
from ..compile import CompileError, compile_inproc, write_files
from ..crt import CBuild, CMsg
from ..families import Case, case_of, f_shape_core, is_extensible_case
from ..tmplsym import PASCAL, RD, Abs, Ctx, Translator
from . import cenc
from .cenc import Cfg
from .pyenc import new_result

PROP = "C15"
PREFIXES = [("pre", "Pre"), ("my_lib", "MyLib")]


def prefixed(case: Case, prefix: str) -> Case:
    p2 = copy.deepcopy(case.proto)
    p2.options = list(p2.options) + [("c.name_prefix", f'"{prefix}"')]
    only = [m.name for m in case.top()]
    return case_of(case.name, p2, case.tags, only)


def work_prefix(job: Tuple[Case, Tuple[str, str], Cfg]) -> Dict[str, Any]:
    case, (prefix, pascal), cfg = job
    res = new_result(case)
    res["case"] = f"{case.name}+prefix:{prefix}"
    rng = random.Random(seed() * 3 + hash(case.name) % 997)
    pc = prefixed(case, prefix)
    with Scratch() as sc:
        try:
            a = CBuild(case, sc.dir, tag="_plain")
            ma, ka = a.modules(cfg.olevel, cfg.target, msgs=case.messages)
        except (CompileError, Inconclusive) as e:
            res["inconclusive"].append(f"{res['case']}: {e}")
            return res
        try:
            b = CBuild(pc, sc.dir, tag="_prefixed")
            b.name_prefix = pascal  # type: ignore  # documented scheme: PascalCase prefix on type and function names
            mb, kb = b.modules(cfg.olevel, cfg.target, msgs=pc.messages)
        except (CompileError, Inconclusive) as e:
            # the same schema builds without the option: does gcc reject the prefixed output too?
            from ..common import REPO, run

            g = None
            try:
                b2 = CBuild(pc, sc.dir, tag="_prefixed_gcc")
                g = run(["gcc", "-fsyntax-only", "-w", "-I", b2.gen, "-I", os.path.join(REPO, "lib", "c")] + b2.cfiles(), timeout=120)
            except (CompileError, Inconclusive):
                pass
            if g is not None and g.returncode != 0:
                err = next((l for l in g.stderr.split("\n") if "error" in l), g.stderr[-200:])
                res["violations"].append({"what": f"{res['case']}: with c.name_prefix the generated C no longer compiles (it does without the option): {err.strip()[:200]}", "payload": {"kind": "c", "files": pc.proto.files()},
                                          "confirmed": True, "info": {"kind": "prefix-breaks-build", "key": "prefix-breaks-build"}})
            else:
                res["inconclusive"].append(f"{res['case']}: {e}")
            return res
        # layout constants (sizeof, offsets, sizes) are identical; BYTES_LENGTH macro exists under the upper-case prefix
        diff = {k: (ka.get(k), kb.get(k)) for k in ka if k.startswith(("bpv_sizeof", "bpv_off", "bpv_sz")) and ka.get(k) != kb.get(k)}
        res["obligations"] += len(ka)
        if diff:
            res["violations"].append({"what": f"{res['case']}: struct layout changes with c.name_prefix: {list(diff.items())[:3]}", "payload": {"kind": "c", "files": pc.proto.files()}, "confirmed": True, "info": {"kind": "prefix-layout"}})
        for mi, (msg, chain) in enumerate(pc.messages):
            sn = pascal + "".join(chain)
            if sn not in b.bytes_macro:
                res["inconclusive"].append(f"{res['case']}: struct {sn} not found under its documented prefixed name in the header")
                continue
            macro, val = b.bytes_macro[sn]
            want_macro = "BYTES_LENGTH_" + prefix.upper() + "_"
            if not macro.startswith(want_macro):
                res["violations"].append({"what": f"{res['case']}: size macro is {macro}, the documented scheme puts the upper-case prefix first ({want_macro}...)", "payload": {"kind": "c", "files": pc.proto.files()}, "confirmed": True, "info": {"kind": "prefix-macro"}})
            kb2 = dict(kb)
            kb2[f"bpv_bytes_{mi}"] = val
            try:
                cm = CMsg(mb, kb2, mi, msg, chain, prefix=pascal)
            except Inconclusive as e:
                res["inconclusive"].append(f"{res['case']}: {e}")
                continue
            res["messages"] += 1
            # same bytes for all values: the prefixed build against the SAME reference the plain build meets (C03)
            cenc.run_msg(pc, b, cm, cfg, res, ("encode", "decode"), rng)
        # Python and Go outputs do not change at all
        for lang in ("py", "go"):
            outs = []
            for cs, tag in ((case, "plain"), (pc, "prefixed")):
                src, gen = sc.path(f"{lang}_{tag}_src"), sc.path(f"{lang}_{tag}")
                os.makedirs(src, exist_ok=True)
                write_files(cs.proto.files(), src)
                try:
                    compile_inproc(src, cs.proto.fname(), lang, gen)
                    outs.append(open(os.path.join(gen, cs.proto.stem() + f"_bp.{lang}")).read())
                except CompileError as e:
                    res["inconclusive"].append(f"{res['case']}: {e}")
            res["obligations"] += 1
            if len(outs) == 2 and outs[0] != outs[1]:
                la, lb = outs[0].split("\n"), outs[1].split("\n")
                i = next((i for i in range(min(len(la), len(lb))) if la[i] != lb[i]), -1)
                res["violations"].append({"what": f"{res['case']}: the {lang} output changes with c.name_prefix (line {i + 1}: {la[i][:60] if i >= 0 else ''!r} vs {lb[i][:60] if i >= 0 else ''!r})", "payload": {"kind": "schema", "files": pc.proto.files()}, "confirmed": True, "info": {"kind": "prefix-other-lang"}})
    return res


def work_templates(_: Any) -> Dict[str, Any]:
    res = new_result(Case("templates", None, []))  # type: ignore
    res["case"] = "api-name-templates"
    try:
        TH = Translator([os.path.join(RD, "impls/c/renderer_h.py"), os.path.join(RD, "impls/c/formatter.py"), os.path.join(RD, "formatter.py")])
        for cls, pre in (("BlockMessageEncoderBase", "Encode"), ("BlockMessageDecoderBase", "Decode"), ("BlockMessageJsonFormatterBase", "Json")):
            ctx = Ctx()
            name = z3.String("message_name")
            ctx.cons += [z3.InRe(name, PASCAL), z3.Length(name) <= 12]
            o = Abs(cls, message_name=name, formatter=Abs("CFormatter"))
            import ast

            t = TH.ev(ctx, ast.parse("self.function_name", mode="eval").body, {"self": o})
            _q(res, ctx, t != z3.Concat(z3.StringVal(pre), name), f"C function name of {cls} is `{pre}` + message name")
        for lang, files, fm, exts in (("c", ["impls/c/formatter.py", "formatter.py"], "CFormatter", (".h", ".c")), ("go", ["impls/go/formatter.py", "formatter.py"], "GoFormatter", (".go",)), ("py", ["impls/py/formatter.py", "formatter.py"], "PyFormatter", (".py",))):
            TF = Translator([os.path.join(RD, f) for f in files])
            for ext in exts:
                ctx = Ctx()
                proto = Abs("Proto", name=z3.String("proto_name"), filepath=("truthy", z3.StringVal("<path>"), object()))
                t = TF.call(ctx, "format_out_filename", [proto, z3.StringVal(ext)], Abs(fm), fm)
                stem = next(v for k, v in ctx.opaque.items() if isinstance(k, tuple) and k[0] == "stem")
                _q(res, ctx, t != z3.Concat(stem, z3.StringVal("_bp" + ext)), f"{lang} output file is <schema file base name>_bp{ext}")
    except Inconclusive as e:
        res["inconclusive"].append(f"templates: {type(e).__name__}: {e}")
    return res


def _q(res: Dict[str, Any], ctx: Ctx, neg: Any, what: str) -> None:
    s = z3.Solver()
    s.set("timeout", 30000)
    s.add(*ctx.cons)
    s.add(neg)
    r = str(s.check())
    res["queries"] += 1
    res["obligations"] += 1
    res["paths"] += 1
    res[r] = res.get(r, 0) + 1
    if r == "sat":
        res["violations"].append({"what": f"{what}: fails, e.g. {s.model()}", "payload": {"kind": "template", "what": what}, "confirmed": False, "info": {"kind": "api-name"}})
    elif r == "unknown":
        res["inconclusive"].append(f"{what}: unknown")
    else:
        res["samples"].append({"template": what, "verdict": "unsat for every name"})


# ---- (c) supporting concrete observation: the documented names exist in the three outputs
import re as _re

# words of a camel-case identifier as the repository's own converter tests document them (tests/test_compiler/test_util.py:
# HTTPServer -> http_server, Snake42Case -> snake_42_case, Ipv6Address -> ipv_6_address, GPU3DModel -> gpu_3_d_model)
_WORD = _re.compile(r"[A-Z]+(?=[A-Z][a-z])|[A-Z][a-z]+|[A-Z]+|[a-z]+|[0-9]+")


def _camel(name: str) -> bool:
    """identifiers for which that word rule is unambiguous: letters and digits only, starts with a capital, has a lower-case
    letter (all-upper tokens with digits such as TI82 are kept whole by the converter and stay outside)"""
    return bool(_re.fullmatch(r"[A-Z][A-Za-z0-9]*", name)) and any(ch.islower() for ch in name)


def _letters_only(name: str) -> bool:
    return bool(_re.fullmatch(r"[A-Za-z]+", name)) or _camel(name)


def _upper_snake(names: List[str]) -> str:
    return "_".join(w.upper() for n in names for w in _WORD.findall(n))


def _pascal(prefix: str) -> str:
    return "".join(w.capitalize() for w in prefix.strip("_").split("_") if w)


def work_names(job: Tuple[Case, str]) -> Dict[str, Any]:
    """Independent reference for the documented scheme, restricted to names made of letters only (PascalCase words),
    where the scheme is unambiguous: every message appears as C `struct <Enclosing...Own>` with `Encode/Decode/Json<..>`
    and `BYTES_LENGTH_<UPPER_SNAKE>`, Python `class <Enclosing_..._Own>`, Go `type <Enclosing...Own> struct` with
    `BYTES_LENGTH_<UPPER_SNAKE>`; members of an enum declared inside messages carry the UPPER_SNAKE names of the enclosing
    messages in front; Go struct fields carry the schema field name as JSON tag.  With `c.name_prefix` the PascalCase /
    upper-case prefix leads every C name and nothing changes in Go and Python.  No symbolic variable: text observation."""
    from ..schema import Enum as SEnum
    from ..schema import Message as SMessage

    case, prefix = job
    res = new_result(case)
    res["case"] = f"names:{case.name}{'+' + prefix if prefix else ''}"
    cs = prefixed(case, prefix) if prefix else case
    P, PU = (_pascal(prefix), prefix.upper() if prefix.endswith("_") else prefix.upper() + "_") if prefix else ("", "")
    outs: Dict[str, str] = {}
    with Scratch() as sc:
        src = sc.path("src")
        os.makedirs(src)
        write_files(cs.proto.files(), src)
        try:
            for lang, opt in (("c", False), ("c", True), ("go", False), ("py", False)):
                if opt and is_extensible_case(case):
                    continue
                gen = sc.path(f"gen_{lang}_{int(opt)}")
                compile_inproc(src, cs.proto.fname(), lang, gen, optimize=opt)
                for f in os.listdir(gen):
                    if f.startswith(cs.proto.stem() + "_bp"):
                        outs[f"{lang}{'-O' if opt else ''}:{f.rsplit('.', 1)[1]}"] = open(os.path.join(gen, f)).read()
        except CompileError as e:
            res["inconclusive"].append(f"{res['case']}: {e}")
            return res
    missing: List[str] = []
    # output files are <schema file base name>_bp.<ext> (nothing below may pass vacuously because a file was not found)
    for key, ext in [("c:h", "h"), ("c:c", "c"), ("go:go", "go"), ("py:py", "py")] + ([] if is_extensible_case(case) else [("c-O:h", "h"), ("c-O:c", "c")]):
        res["obligations"] += 1
        if key not in outs:
            missing.append(f"{key.split(':')[0]}: output file {cs.proto.stem()}_bp.{ext} is not written")

    def need(where: str, pattern: str, what: str) -> None:
        res["obligations"] += 1
        for k, text in outs.items():
            if k.startswith(where) and not _re.search(pattern, text):
                missing.append(f"{k}: {what}")

    def walk(defs: List[Any], chain: List[str]) -> None:
        for d in defs:
            if isinstance(d, SMessage):
                ch = chain + [d.name]
                if all(_letters_only(n) for n in ch):
                    flat, us = "".join(ch), _upper_snake(ch)
                    simple = all(_camel(n) for n in ch)
                    need("c:h", rf"\bstruct\s+{P}{flat}\s*\{{", f"struct {P}{flat}")
                    need("c-O:h", rf"\bstruct\s+{P}{flat}\s*\{{", f"struct {P}{flat}")
                    for fn in ("Encode", "Decode"):
                        need("c:h", rf"\b{fn}{P}{flat}\s*\(", f"{fn}{P}{flat}()")
                        need("c-O:h", rf"\b{fn}{P}{flat}\s*\(", f"{fn}{P}{flat}()")
                    need("c:h", rf"\bJson{P}{flat}\s*\(", f"Json{P}{flat}()")
                    if simple:
                        need("c:h", rf"#\s*define\s+BYTES_LENGTH_{PU}{us}\s+\(?\d+", f"BYTES_LENGTH_{PU}{us}")
                    need("py", rf"(?m)^class\s+{'_'.join(ch)}\s*[\(:]", f"class {'_'.join(ch)}")
                    need("go", rf"(?m)^type\s+{flat}\s+struct", f"type {flat} struct")
                    if simple:
                        need("go", rf"\bBYTES_LENGTH_{us}\b", f"BYTES_LENGTH_{us}")
                    for f in d.fields:
                        if _re.fullmatch(r"[a-z][a-z_]*[a-z]|[a-z]", f.name):
                            need("go", rf'json:"{f.name}[",]', f'JSON tag "{f.name}" in {flat}')
                walk(d.nested, ch)
            elif isinstance(d, SEnum):
                if all(_camel(n) for n in chain) and _letters_only(d.name):
                    for mname, _v in d.members:
                        if not _re.fullmatch(r"[A-Z]+(_[A-Z]+)*", mname):
                            continue
                        full = (_upper_snake(chain) + "_" if chain else "") + mname
                        need("c:h", rf"#\s*define\s+{PU}{full}\s+\(?\d+", f"enum member macro {PU}{full}")
                        need("go", rf"\b{full}\b", f"enum member {full}")
                        need("py", rf"\b{full}\b", f"enum member {full}")

    from ..schema import Const as SConst

    for d in cs.proto.defs:
        if isinstance(d, SConst) and _re.fullmatch(r"[A-Z][A-Z0-9]*(_[A-Z0-9]+)*", d.name) and isinstance(d.value, int) and not isinstance(d.value, bool):
            # constants appear under exactly their schema names; in C the upper-cased prefix is put directly in front
            need("c:h", rf"#\s*define\s+{prefix.upper()}{d.name}\s+\(?{d.value}\b", f"constant macro {prefix.upper()}{d.name} = {d.value}")
            need("go", rf"(?m)^\s*(?:const\s+)?{d.name}(?:\s+\w+)?\s*=\s*\(?{d.value}\b", f"Go constant {d.name} = {d.value}")
            need("py", rf"(?m)^{d.name}(?:\s*:\s*\w+)?\s*=\s*\(?{d.value}\b", f"Python constant {d.name} = {d.value}")
    walk(cs.proto.defs, [])
    res["messages"] = len(case.messages)
    if missing:
        res["violations"].append({"what": f"{res['case']}: documented API names are missing from the generated code: {'; '.join(missing[:4])}" + (f" (+{len(missing) - 4} more)" if len(missing) > 4 else ""),
                                  "payload": {"kind": "names", "files": cs.proto.files(), "main": cs.proto.fname(), "missing": missing[:20]}, "confirmed": True, "info": {"kind": "names", "key": "documented-names"}})
    elif len(res["samples"]) < 1:
        res["samples"].append({"case": res["case"], "names_checked": res["obligations"]})
    return res


def main() -> int:
    from .agg import run_parts

    q = tier() == "quick"
    keep = ("imp_shared", "imp_lib", "imp_nested_dp", "nest5", "nested_decl", "nested_decl3", "arr_msg", "arr_nd", "arr_bytes", "ext7", "extalias", "perm9", "empty", "wide3", "sarr24", "drone", "enum9", "batch16_5", "packed2")
    bases = [c for c in f_shape_core() if c.name in keep]
    cfgs = [Cfg("O0", "x86_64"), Cfg("O2", "x86_64")]
    jobs = [(c, PREFIXES[i % 2] if q else p, cfgs[i % 2] if q else cfg) for i, c in enumerate(bases) for p in (PREFIXES[:1] if q else PREFIXES) for cfg in (cfgs[:1] if q else cfgs)]
    from ..families import f_naming

    name_jobs = [(c, p) for c in f_shape_core() + [x for x in f_naming() if "prefix" not in x.tags] if "noc" not in c.tags for p in ("", "my_lib", "Sh")]
    from . import c10

    # names must also AGREE across files: the module / qualifier a generated file uses for an imported schema is the one
    # that schema's own output defines (observed by importing and instantiating the generated Python)
    imp_cases = [c for c in f_shape_core() + f_naming() if "import" in c.tags]
    parts = [("c-name-prefix-invariance", work_prefix, jobs), ("api-name-templates", work_templates, [0]), ("documented-names", work_names, name_jobs), ("names-agree-across-files", c10.work_pyimport, imp_cases)]
    meta = {
        "functions_encoded": cenc.C_FILES + ["compiler/bitproto/renderer/impls/go/formatter.py", "compiler/bitproto/renderer/impls/py/formatter.py"],
        "bounds": f"{len(bases)} structural schemas x prefixes `pre`, `my_lib` x clang IR -O0/-O2 (x86-64); all values; name templates: message names <= 12, file stems <= 8 characters",
        "outside_claim": "everything else in the property: that every definition appears under exactly its schema name in the three outputs, Go field/JSON-tag naming, BYTES_LENGTH_<UPPER_SNAKE_NAME> spelling, nested-name joining -- produced by character-inspecting code (case converters, regexes) that no available engine can exhaust, and observed as existence of identifiers (the harnesses of C03/C19 find their entry points under the documented nested names, so a renamed entry point makes those checks inconclusive)",
        "explanation": "kernel only: with c.name_prefix set the C encoder/decoder, found under the documented prefixed names, meet the same reference bytes for all values, the offsetof/sizeof constants are identical, Python and Go outputs are textually identical; the f-string templates of the API names are translated to z3 strings and proved equal to the documented scheme for every name",
    }
    return run_parts(PROP, "other", parts, meta, ["z3 decides QF_BV / string queries", "IR interpreter validated natively"])


def replay(path: str) -> int:
    import json

    p = json.load(open(path))
    print(json.dumps({k: p[k] for k in p if k != "files"}, indent=1)[:1000])
    return 1
