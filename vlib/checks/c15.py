"""C15 kernel: the clauses of the naming property that have a value quantifier.
(a) `c.name_prefix` changes nothing but names: with the option set, the struct layout
    constants are identical and Encode/Decode (found under their documented prefixed names)
    produce / consume exactly the same bytes for ALL values (E2), and the Python / Go outputs are
    textually unchanged;
(b) the API-name templates read from the current sources (E4): `Encode{Name}`, `Decode{Name}`,
    `Json{Name}` and the output file name `<schema file base name>_bp<ext>` for every name."""
from __future__ import annotations

import copy
import os
import random
from typing import Any, Dict, List, Tuple

import z3

from ..common import Inconclusive, Scratch, seed, tier
from ..compile import CompileError, compile_inproc, write_files
from ..crt import CBuild, CMsg
from ..families import Case, case_of, f_shape_core
from ..tmplsym import PASCAL, RD, Abs, Ctx, Translator
from . import cenc
from .cenc import Cfg
from .pyenc import new_result

PROP = "C15"
PREFIXES = [("pre", "Pre"), ("my_lib", "MyLib")]


def prefixed(case: Case, prefix: str) -> Case:
    p2 = copy.deepcopy(case.proto)
    p2.options = list(p2.options) + [("c.name_prefix", f'"{prefix}"')]
    only = [m.name for m in case.top()]
    return case_of(case.name, p2, case.tags, only)


def work_prefix(job: Tuple[Case, Tuple[str, str], Cfg]) -> Dict[str, Any]:
    case, (prefix, pascal), cfg = job
    res = new_result(case)
    res["case"] = f"{case.name}+prefix:{prefix}"
    rng = random.Random(seed() * 3 + hash(case.name) % 997)
    pc = prefixed(case, prefix)
    with Scratch() as sc:
        try:
            a = CBuild(case, sc.dir, tag="_plain")
            b = CBuild(pc, sc.dir, tag="_prefixed")
            b.name_prefix = pascal  # type: ignore  # documented scheme: PascalCase prefix on type and function names
            ma, ka = a.modules(cfg.olevel, cfg.target, msgs=case.messages)
            mb, kb = b.modules(cfg.olevel, cfg.target, msgs=pc.messages)
        except (CompileError, Inconclusive) as e:
            res["inconclusive"].append(f"{res['case']}: {e}")
            return res
        # layout constants (sizeof, offsets, sizes) are identical; BYTES_LENGTH macro exists under the upper-case prefix
        diff = {k: (ka.get(k), kb.get(k)) for k in ka if k.startswith(("bpv_sizeof", "bpv_off", "bpv_sz")) and ka.get(k) != kb.get(k)}
        res["obligations"] += len(ka)
        if diff:
            res["violations"].append({"what": f"{res['case']}: struct layout changes with c.name_prefix: {list(diff.items())[:3]}", "payload": {"kind": "c", "files": pc.proto.files()}, "confirmed": True, "info": {"kind": "prefix-layout"}})
        for mi, (msg, chain) in enumerate(pc.messages):
            sn = pascal + "".join(chain)
            if sn not in b.bytes_macro:
                res["inconclusive"].append(f"{res['case']}: struct {sn} not found under its documented prefixed name in the header")
                continue
            macro, val = b.bytes_macro[sn]
            want_macro = "BYTES_LENGTH_" + prefix.upper() + "_"
            if not macro.startswith(want_macro):
                res["violations"].append({"what": f"{res['case']}: size macro is {macro}, the documented scheme puts the upper-case prefix first ({want_macro}...)", "payload": {"kind": "c", "files": pc.proto.files()}, "confirmed": True, "info": {"kind": "prefix-macro"}})
            kb2 = dict(kb)
            kb2[f"bpv_bytes_{mi}"] = val
            try:
                cm = CMsg(mb, kb2, mi, msg, chain, prefix=pascal)
            except Inconclusive as e:
                res["inconclusive"].append(f"{res['case']}: {e}")
                continue
            res["messages"] += 1
            # same bytes for all values: the prefixed build against the SAME reference the plain build meets (C03)
            cenc.run_msg(pc, b, cm, cfg, res, ("encode", "decode"), rng)
        # Python and Go outputs do not change at all
        for lang in ("py", "go"):
            outs = []
            for cs, tag in ((case, "plain"), (pc, "prefixed")):
                src, gen = sc.path(f"{lang}_{tag}_src"), sc.path(f"{lang}_{tag}")
                os.makedirs(src, exist_ok=True)
                write_files(cs.proto.files(), src)
                try:
                    compile_inproc(src, cs.proto.fname(), lang, gen)
                    outs.append(open(os.path.join(gen, cs.proto.stem() + f"_bp.{lang}")).read())
                except CompileError as e:
                    res["inconclusive"].append(f"{res['case']}: {e}")
            res["obligations"] += 1
            if len(outs) == 2 and outs[0] != outs[1]:
                la, lb = outs[0].split("\n"), outs[1].split("\n")
                i = next((i for i in range(min(len(la), len(lb))) if la[i] != lb[i]), -1)
                res["violations"].append({"what": f"{res['case']}: the {lang} output changes with c.name_prefix (line {i + 1}: {la[i][:60] if i >= 0 else ''!r} vs {lb[i][:60] if i >= 0 else ''!r})", "payload": {"kind": "schema", "files": pc.proto.files()}, "confirmed": True, "info": {"kind": "prefix-other-lang"}})
    return res


def work_templates(_: Any) -> Dict[str, Any]:
    res = new_result(Case("templates", None, []))  # type: ignore
    res["case"] = "api-name-templates"
    try:
        TH = Translator([os.path.join(RD, "impls/c/renderer_h.py"), os.path.join(RD, "impls/c/formatter.py"), os.path.join(RD, "formatter.py")])
        for cls, pre in (("BlockMessageEncoderBase", "Encode"), ("BlockMessageDecoderBase", "Decode"), ("BlockMessageJsonFormatterBase", "Json")):
            ctx = Ctx()
            name = z3.String("message_name")
            ctx.cons += [z3.InRe(name, PASCAL), z3.Length(name) <= 12]
            o = Abs(cls, message_name=name, formatter=Abs("CFormatter"))
            import ast

            t = TH.ev(ctx, ast.parse("self.function_name", mode="eval").body, {"self": o})
            _q(res, ctx, t != z3.Concat(z3.StringVal(pre), name), f"C function name of {cls} is `{pre}` + message name")
        for lang, files, fm, exts in (("c", ["impls/c/formatter.py", "formatter.py"], "CFormatter", (".h", ".c")), ("go", ["impls/go/formatter.py", "formatter.py"], "GoFormatter", (".go",)), ("py", ["impls/py/formatter.py", "formatter.py"], "PyFormatter", (".py",))):
            TF = Translator([os.path.join(RD, f) for f in files])
            for ext in exts:
                ctx = Ctx()
                proto = Abs("Proto", name=z3.String("proto_name"), filepath=("truthy", z3.StringVal("<path>"), object()))
                t = TF.call(ctx, "format_out_filename", [proto, z3.StringVal(ext)], Abs(fm), fm)
                stem = next(v for k, v in ctx.opaque.items() if isinstance(k, tuple) and k[0] == "stem")
                _q(res, ctx, t != z3.Concat(stem, z3.StringVal("_bp" + ext)), f"{lang} output file is <schema file base name>_bp{ext}")
    except Inconclusive as e:
        res["inconclusive"].append(f"templates: {type(e).__name__}: {e}")
    return res


def _q(res: Dict[str, Any], ctx: Ctx, neg: Any, what: str) -> None:
    s = z3.Solver()
    s.set("timeout", 30000)
    s.add(*ctx.cons)
    s.add(neg)
    r = str(s.check())
    res["queries"] += 1
    res["obligations"] += 1
    res["paths"] += 1
    res[r] = res.get(r, 0) + 1
    if r == "sat":
        res["violations"].append({"what": f"{what}: fails, e.g. {s.model()}", "payload": {"kind": "template", "what": what}, "confirmed": False, "info": {"kind": "api-name"}})
    elif r == "unknown":
        res["inconclusive"].append(f"{what}: unknown")
    else:
        res["samples"].append({"template": what, "verdict": "unsat for every name"})


def main() -> int:
    from .agg import run_parts

    q = tier() == "quick"
    keep = ("nest5", "nested_decl", "arr_msg", "arr_nd", "arr_bytes", "ext7", "extalias", "perm9", "empty", "wide3", "sarr24", "drone", "enum9", "batch16_5", "packed2")
    bases = [c for c in f_shape_core() if c.name in keep]
    cfgs = [Cfg("O0", "x86_64"), Cfg("O2", "x86_64")]
    jobs = [(c, PREFIXES[i % 2] if q else p, cfgs[i % 2] if q else cfg) for i, c in enumerate(bases) for p in (PREFIXES[:1] if q else PREFIXES) for cfg in (cfgs[:1] if q else cfgs)]
    parts = [("c-name-prefix-invariance", work_prefix, jobs), ("api-name-templates", work_templates, [0])]
    meta = {
        "functions_encoded": cenc.C_FILES + ["compiler/bitproto/renderer/impls/go/formatter.py", "compiler/bitproto/renderer/impls/py/formatter.py"],
        "bounds": f"{len(bases)} structural schemas x prefixes `pre`, `my_lib` x clang IR -O0/-O2 (x86-64); all values; name templates: message names <= 12, file stems <= 8 characters",
        "outside_claim": "everything else in the property: that every definition appears under exactly its schema name in the three outputs, Go field/JSON-tag naming, BYTES_LENGTH_<UPPER_SNAKE_NAME> spelling, nested-name joining -- produced by character-inspecting code (case converters, regexes) that no available engine can exhaust, and observed as existence of identifiers (the harnesses of C03/C19 find their entry points under the documented nested names, so a renamed entry point makes those checks inconclusive)",
        "explanation": "kernel only: with c.name_prefix set the C encoder/decoder, found under the documented prefixed names, meet the same reference bytes for all values, the offsetof/sizeof constants are identical, Python and Go outputs are textually identical; the f-string templates of the API names are translated to z3 strings and proved equal to the documented scheme for every name",
    }
    return run_parts(PROP, "other", parts, meta, ["z3 decides QF_BV / string queries", "IR interpreter validated natively"])


def replay(path: str) -> int:
    import json

    p = json.load(open(path))
    print(json.dumps({k: p[k] for k in p if k != "files"}, indent=1)[:1000])
    return 1
