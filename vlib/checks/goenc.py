"""E3 harnesses: generated Go (standard or -O) + the real lib/go/bitproto.go through gosym."""
from __future__ import annotations

import random
import time
from typing import Any, Dict, List, Tuple

import z3

from .. import gosym, pysym
from ..common import Inconclusive, Scratch, seed
from ..compile import CompileError
from ..families import Case
from ..gort import GoBuild, GoTypeTooSmall, get_leaf, go_bytes, go_type_name, leaf_slots, set_leaf, wire_slice
from ..gosym import GoPanic, Ptr
from ..llsym import bv, simp
from ..pyrt import sym_leaves
from ..pysym import Engine
from ..schema import layout, spec_bytes_z3, spec_decode, spec_encode
from .pycommon import extreme_values, vals_case
from .pyenc import new_result

GO_FILES = ["lib/go/bitproto.go", "compiler/bitproto/renderer/impls/go/renderer.py", "compiler/bitproto/renderer/impls/go/formatter.py", "compiler/bitproto/renderer/formatter.py"]


def _vals(lay: Any, terms: Dict[Any, Any], model: Any) -> Dict[Any, int]:
    d = {}
    for l in lay.leaves():
        v = model.eval(terms[l.path], model_completion=True).as_long()
        if l.signed and v >> (l.n - 1):
            v -= 1 << l.n
        d[l.path] = v
    return d


def go_concrete(I: Any, main: Any, tname: str, msg: Any, vals: Dict[Any, int], op: str, wire: bytes = b"") -> Any:
    """concrete run through the interpreter (the only way to run Go here)"""
    lay = layout(msg)
    MT = main.types[tname]
    m = I.zero(MT)
    slots = leaf_slots(I, m, msg)
    if op == "encode":
        for sl, l in zip(slots, lay.leaves()):
            set_leaf(sl, l, vals[l.path] & ((1 << 64) - 1))
        out = go_bytes(I.call(MT.methods["Encode"], [], Ptr(m)))
        return bytes(int(b) for b in out)
    I.call(MT.methods["Decode"], [wire_slice(list(wire))], Ptr(m))
    got = {}
    for sl, l in zip(slots, lay.leaves()):
        v, bits, isb = get_leaf(sl, l)
        v = int(v)
        if not isb and l.kind == "int" and v >> (bits - 1):
            v -= 1 << bits
        got[l.path] = v
    return got


def work(job: Tuple[Case, bool, Tuple[str, ...]]) -> Dict[str, Any]:
    case, optimize, ops = job
    res = new_result(case)
    res["case"] = case.name + ("[-O]" if optimize else "")
    rng = random.Random(seed() * 7 + hash(case.name) % 9973)
    with Scratch() as sc:
        try:
            gb = GoBuild(case, sc.dir, optimize=optimize)
            I, main = gb.interp()
        except CompileError as e:
            res["inconclusive"].append(f"{case.name}: real compiler rejected the family schema: {e}")
            return res
        except Inconclusive as e:
            res["inconclusive"].append(f"{case.name}: {type(e).__name__}: {e}")
            return res
        for msg, chain in case.messages:
            tname = go_type_name(chain)
            lay = layout(msg)
            terms, _p, assumes = sym_leaves(lay)
            spec = spec_bytes_z3(lay, terms)
            res["messages"] += 1
            res["leaves"] += len(lay.leaves())
            if tname not in main.types:
                res["inconclusive"].append(f"{case.name}: no Go type {tname}")
                continue
            MT = main.types[tname]
            # size constant and Size()
            try:
                sz = I.call(MT.methods["Size"], [], Ptr(I.zero(MT)))
                if int(sz.v) != lay.nbytes:
                    res["violations"].append(_viol(case, tname, optimize, "size", {l.path: 0 for l in lay.leaves()}, lay, f"Size() = {sz.v}, expected ceil({lay.nbits}/8) = {lay.nbytes}"))
                cname = [k for k in main.scope if k.startswith("BYTES_LENGTH_")]
            except Inconclusive as e:
                res["inconclusive"].append(f"{case.name}.{tname}: {e}")
            # struct fields hold their leaves in the smallest covering Go integer type (value-independent)
            try:
                for sl, l in zip(leaf_slots(I, I.zero(MT), msg), lay.leaves()):
                    _v, bits, isb = get_leaf(sl, l)
                    u = gosym.under(sl[0][sl[1]].t)
                    if l.kind == "bool":
                        if not isb:
                            res["violations"].append(_viol(case, tname, optimize, "type", {x.path: 0 for x in lay.leaves()}, lay, f"{l.pname()} is bool in the schema but {sl[0][sl[1]].t} in Go"))
                        continue
                    want = next(b for b in (8, 16, 32, 64) if b >= l.n)
                    if isb or bits != want or bool(getattr(u, "signed", False)) != (l.kind == "int"):
                        res["violations"].append(_viol(case, tname, optimize, "type", {x.path: 0 for x in lay.leaves()}, lay, f"{l.pname()} ({l.kind}{l.n}) is declared {sl[0][sl[1]].t} ({'signed' if getattr(u, 'signed', False) else 'unsigned'} {bits} bits) in Go, the smallest covering type has {want} bits"))
                res["obligations"] += len(lay.leaves())
            except Inconclusive as e:
                res["inconclusive"].append(f"{case.name}.{tname}: {e}")
            for op in ops:
                eng = Engine(max_paths=64)
                pysym.set_engine(eng)

                def h_enc() -> Any:
                    for a in assumes:
                        pysym.ENGINE.assume(a)
                    m = I.zero(MT)
                    for sl, l in zip(leaf_slots(I, m, msg), lay.leaves()):
                        set_leaf(sl, l, terms[l.path])
                    I.steps = 0
                    return go_bytes(I.call(MT.methods["Encode"], [], Ptr(m)))

                def h_dec() -> Any:
                    for a in assumes:
                        pysym.ENGINE.assume(a)
                    m = I.zero(MT)
                    I.steps = 0
                    I.call(MT.methods["Decode"], [wire_slice([simp(b) for b in spec])], Ptr(m))
                    return [get_leaf(sl, l) for sl, l in zip(leaf_slots(I, m, msg), lay.leaves())]

                cexs: List[Tuple[Dict[Any, int], str]] = []
                try:
                    for p in eng.explore(h_dec if op == "decode" else h_enc):
                        if p.exc is not None:
                            if isinstance(p.exc, GoPanic):
                                cexs.append((_vals(lay, terms, p.witness()), f"panic: {p.exc}"))
                                continue
                            if isinstance(p.exc, GoTypeTooSmall):
                                res["violations"].append(_viol(case, tname, optimize, op, {l.path: 0 for l in lay.leaves()}, lay, str(p.exc)))
                                break
                            raise Inconclusive(f"unexpected {type(p.exc).__name__}: {p.exc}")
                        if op == "encode":
                            out = p.value
                            conj = [z3.BoolVal(len(out) == lay.nbytes)] + [bv(c, 8) == s for c, s in zip(out, spec)]
                        else:
                            conj = []
                            for (v, bits, isb), l in zip(p.value, lay.leaves()):
                                t = terms[l.path]
                                if isb:
                                    conj.append((v if gosym.is_sym(v) else z3.BoolVal(bool(v))) == (t == 1))
                                else:
                                    e = z3.SignExt(bits - l.n, t) if l.kind == "int" else z3.ZeroExt(bits - l.n, t)
                                    conj.append(bv(v, bits) == (e if bits > l.n else t))
                        res["obligations"] += len(conj)
                        r, model = p.holds(z3.And(*conj) if conj else z3.BoolVal(True))
                        if r == "unknown":
                            res["inconclusive"].append(f"{case.name}.{tname}: solver unknown")
                        elif r == "sat":
                            cexs.append((_vals(lay, terms, model), "value"))
                        elif len(res["samples"]) < 2:
                            res["samples"].append({"case": case.name, "go_type": tname, "mode": "-O" if optimize else "standard", "op": op, "bits": lay.nbits, "go_steps": I.steps, "verdict": "unsat"})
                except Inconclusive as e:
                    res["inconclusive"].append(f"{case.name}.{tname} go {op}: {type(e).__name__}: {e}")
                for k in ("paths", "queries", "unsat", "sat", "unknown"):
                    res[k] += eng.stats.get(k, 0)
                res["solver_s"] += eng.stats.get("solver_s", 0.0)
                # no Go toolchain: a counterexample is re-run concretely through the interpreter and compared
                # with the reference (== native Python, C01/C02); extremes validate the interpreter the same way
                tests = [("cex", v, w) for v, w in cexs[:3]] + ([] if cexs else [("wit", v, "") for v in extreme_values(lay, rng, 1)[:2]])
                for kind, v, why in tests:
                    bad = None
                    try:
                        if op == "encode":
                            got = go_concrete(I, main, tname, msg, v, "encode")
                            if got != spec_encode(lay, v):
                                bad = f"Go Encode() gives {got.hex()}, specified (= Python) {spec_encode(lay, v).hex()}"
                        else:
                            got = go_concrete(I, main, tname, msg, v, "decode", spec_encode(lay, v))
                            wrong = [(l.pname(), got[l.path], v[l.path]) for l in lay.leaves() if got[l.path] != (v[l.path] if l.kind != "bool" else int(bool(v[l.path])))]
                            if wrong:
                                bad = f"Go Decode() reads {wrong[:3]} (field, got, encoded)"
                    except GoPanic as e:
                        bad = f"panic: {e}"
                    except Inconclusive as e:
                        res["inconclusive"].append(f"{case.name}.{tname}: {e}")
                        continue
                    if kind == "wit":
                        res["witness"] += 1
                        if bad is None:
                            res["witness_agree"] += 1
                        else:
                            res["inconclusive"].append(f"{case.name}.{tname}: concrete interpreter run disagrees with an unsat verdict: {bad}")
                        continue
                    if bad is None:
                        res["inconclusive"].append(f"{case.name}.{tname}: solver model did not reproduce in a concrete interpreter run")
                    else:
                        res["violations"].append(_viol(case, tname, optimize, op, v, lay, bad))
    return res


def _viol(case: Case, tname: str, optimize: bool, op: str, v: Dict[Any, int], lay: Any, bad: str) -> Dict[str, Any]:
    return {"what": f"{case.name}.{tname} [go {'-O' if optimize else 'standard'}] {op}: {bad} (interpreter-only: no Go toolchain)",
            "payload": {"kind": "go", "case": case.name, "files": case.proto.files(), "go_type": tname, "optimize": optimize, "op": op, "values": vals_case(lay, v), "replayed": "interpreter-only"},
            "confirmed": False, "info": {"kind": "go-" + op, "key": ""}}
