"""C07 Encoding touches exactly its bytes, and each field exactly its bits."""
from __future__ import annotations

from ..common import seed, tier
from ..families import f_grid, f_shape
from . import pyenc
from .agg import run_parts
from .pycommon import RUNTIME_FILES

PROP = "C07"


def main() -> int:
    q = tier() == "quick"
    shape = f_shape(q, seed())
    grid = f_grid(True)
    cs = shape + (grid[::6] if q else grid)
    parts = [("python-out-of-range", pyenc.work, [(c, "oob") for c in cs])]
    try:
        from . import zsize  # (a) size constants, E1/Z

        parts += zsize.parts(q)
    except ImportError:
        pass
    try:
        from . import cmem  # (b)+(c) C memory containment / arbitrary storage, E2

        parts += cmem.parts(shape, grid, q)
    except ImportError:
        pass
    meta = {
        "functions_encoded": RUNTIME_FILES + ["lib/c/bitproto.c"],
        "bounds": "Python: every integer leaf is a free 128-bit two's-complement int (negative included), bool/enum/bytearray cells in range; obligation: out bytes == specified layout of the low n bits, length == ceil(N/8) and BYTES_LENGTH == ceil(N/8); families F_shape + F_grid slice",
        "outside_claim": "sanitizer / guard-zone *builds* named in the quantifier (a dynamic technique; replaced by the IR interpreter's bounds-checked memory model in the C part); |v| >= 2^127",
        "explanation": "bits a field contributes are a function of its low n bits only: proved by running the real encoder on unconstrained integers",
    }
    return run_parts(PROP, "translation_validation", parts, meta, ["z3 decides QF_BV", "reference encoder states the specified layout"])


def replay(path: str) -> int:
    import json

    p = json.load(open(path))
    if p.get("kind") == "c":
        from . import cenc

        return cenc.replay_main(path)
    bad, why = pyenc.replay_payload(p)
    print(("FAILS: " if bad else "passes: ") + why)
    return 1 if bad else 0
