"""C07(a): the byte-length constant emitted for each message in C, Go and Python equals
ceil(N/8) for that message's N bits -- for ALL capacities (symbolic) and every combination of
extensible marks, through the real parser, the real `nbits()/nbytes()` and the real renderers
(sentinel-formatted literals); plus lemma L_fp (the only floating point in the code base)."""
from __future__ import annotations

import itertools
import re
import time
from typing import Any, Dict, List, Tuple

import z3

from .. import pysym
from ..common import Inconclusive, Scratch
from ..pysym import Engine, ZInt


def _res(name: str) -> Dict[str, Any]:
    return {"case": name, "messages": 1, "leaves": 0, "paths": 0, "queries": 0, "unsat": 0, "sat": 0, "unknown": 0, "solver_s": 0.0, "merges": 0, "witness": 0, "witness_agree": 0,
            "violations": [], "inconclusive": [], "samples": [], "obligations": 0}


def parts(q: bool) -> List[Tuple[str, Any, List[Any]]]:
    marks = list(itertools.product((False, True), repeat=4))
    if q:
        marks = marks[::3] + [marks[-1]]
    # the product of two symbolic capacities is non-linear (z3: unknown): one of the two nested capacities is
    # concrete in each variant, so every query is linear
    return [("size-constants-all-capacities", work_size, [(m, v) for m in marks for v in ("inner", "outer")]), ("lemma-L_fp", work_lfp, [0])]


def work_size(job: Tuple[Tuple[bool, bool, bool, bool], str]) -> Dict[str, Any]:
    from ..zc import Template, parse_text, plain_outcome, zc

    marks, variant = job
    x1, x2, x3, x4 = [("'" if m else "") for m in marks]
    res = _res("size:" + "".join("1" if m else "0" for m in marks) + ":" + variant)
    h1, h2 = ("{n:c1}", "3") if variant == "inner" else ("5", "{n:c2}")
    ttext = (f"proto p\nmessage I{x1} {{\n    uint13[{h1}]{x2} a = 1\n    bool b = 2\n}}\n"
             f"message M{x3} {{\n    int7 h = 1\n    I[{h2}]{x4} is_ = 2\n    byte[{{n:c3}}] raw = 3\n}}\n")
    z = zc()
    PE = z.errors.ParserError
    tm = Template(ttext)
    text, holes = tm.render()
    c1, c2, c3 = z3.Ints("c1 c2 c3")
    zv = {"c1": c1, "c3": c3} if variant == "inner" else {"c2": c2, "c3": c3}
    if variant == "inner":
        c2 = z3.IntVal(3)
    else:
        c1 = z3.IntVal(5)
    syms = {n: ZInt(v) for n, v in zv.items()}
    b = lambda m: 16 if m else 0
    nI = 13 * c1 + b(marks[1]) + 1 + b(marks[0])
    nM = 7 + c2 * nI + b(marks[3]) + 8 * c3 + b(marks[2])
    R = [("c", z.mod("bitproto.renderer.impls.c.renderer_h").RendererCHeader, [r"#define BYTES_LENGTH_M (\S+)"]),
         ("go", z.mod("bitproto.renderer.impls.go.renderer").RendererGo, [r"const BYTES_LENGTH_M uint32 = (\S+)", r"func \(m \*M\) Size\(\) uint32 \{ return (\S+) \}"]),
         ("py", z.mod("bitproto.renderer.impls.py.renderer").RendererPy, [r"class M\(bp\.MessageBase\):\n(?:.*\n)*?\s+BYTES_LENGTH: ClassVar\[int\] = (\S+)"])]
    eng = Engine(max_paths=200)
    pysym.set_engine(eng)
    with Scratch() as sc:
        main = sc.path("main.bitproto")
        with open(main, "w") as f:
            f.write(text)

        def h() -> Any:
            for v in zv.values():
                pysym.ENGINE.assume(v >= 0)
            proto = parse_text(text, holes, syms, filepath=main)
            M = proto.members["M"]
            outs = {lang: r(proto, outdir=sc.dir).render_string() for lang, r, _ in R}
            return M.nbits(), M.nbytes(), outs

        try:
            for p in eng.explore(h):
                if p.exc is not None:
                    if not isinstance(p.exc, PE):
                        res["inconclusive"].append(f"{res['case']}: {type(p.exc).__name__}: {p.exc}")
                    continue
                nbits, nbytes, outs = p.value
                obl = [("nbits() == sum of widths + 16 per mark", ZInt.lift(nbits) == nM), ("nbytes() == ceil(nbits/8)", ZInt.lift(nbytes) == (nM + 7) / 8)]
                for lang, _, pats in R:
                    for pat in pats:
                        m = re.search(pat, outs[lang])
                        if not m:
                            res["inconclusive"].append(f"{res['case']}: no size constant found in the {lang} output ({pat})")
                            continue
                        lit = m.group(1)
                        term = p.sentinels.get(lit)
                        if term is None:
                            try:
                                term = z3.IntVal(int(lit))
                            except ValueError:
                                res["inconclusive"].append(f"{res['case']}: {lang} size literal {lit!r}")
                                continue
                        obl.append((f"{lang} size constant == ceil(N/8)", term == (nM + 7) / 8))
                for what, phi in obl:
                    res["obligations"] += 1
                    r, model = p.holds(phi)
                    if r == "unknown":
                        res["inconclusive"].append(f"{res['case']}: unknown on {what}")
                    elif r == "sat":
                        cv = {n: model.eval(v, model_completion=True).as_long() for n, v in zv.items()}
                        cv2 = dict(cv)
                        cv2.setdefault("c1", 5)
                        cv2.setdefault("c2", 3)
                        conf = _confirm(tm.concrete(cv), cv2, marks)
                        if conf:
                            res["violations"].append({"what": f"{res['case']} {cv}: {what} fails: {conf}", "payload": {"kind": "schema", "files": {"main.bitproto": tm.concrete(cv)}, "main": "main.bitproto"}, "confirmed": True, "info": {"kind": "size", "key": "size"}})
                        else:
                            res["inconclusive"].append(f"{res['case']}: model for `{what}` did not reproduce natively: {cv}")
                if "L_fp" in eng.notes:
                    res["lfp_uses"] = res.get("lfp_uses", 0) + 1
                if len(res["samples"]) < 1:
                    res["samples"].append({"marks": res["case"], "nbits_term": str(z3.simplify(ZInt.lift(nbits)))[:120], "obligations": [w for w, _ in obl]})
        except Inconclusive as e:
            res["inconclusive"].append(f"{res['case']}: {type(e).__name__}: {e}")
    for k in ("paths", "queries", "unsat", "sat", "unknown"):
        res[k] += eng.stats.get(k, 0)
    res["solver_s"] += eng.stats.get("solver_s", 0.0)
    return res


def _confirm(text: str, cv: Dict[str, int], marks: Tuple[bool, ...]) -> str:
    """native: compile with the real CLI for the three languages and read the constants"""
    import os

    from ..compile import compile_cli

    b = lambda m: 16 if m else 0
    nI = 13 * cv["c1"] + b(marks[1]) + 1 + b(marks[0])
    want = (7 + cv["c2"] * nI + b(marks[3]) + 8 * cv["c3"] + b(marks[2]) + 7) // 8
    got = {}
    with Scratch() as sc:
        with open(sc.path("main.bitproto"), "w") as f:
            f.write(text)
        for lang, fn, pat in (("c", "main_bp.h", r"#define BYTES_LENGTH_M (\d+)"), ("go", "main_bp.go", r"const BYTES_LENGTH_M uint32 = (\d+)"), ("py", "main_bp.py", r"class M\(bp\.MessageBase\):\n(?:.*\n)*?\s+BYTES_LENGTH: ClassVar\[int\] = (\d+)")):
            out = sc.path("o" + lang)
            r = compile_cli(sc.dir, "main.bitproto", lang, out, ["-q"])
            if r.returncode:
                return ""
            m = re.search(pat, open(os.path.join(out, fn)).read())
            got[lang] = int(m.group(1)) if m else None
    return f"emitted {got}, ceil(N/8) = {want}" if any(v != want for v in got.values()) else ""


def work_lfp(_: Any) -> Dict[str, Any]:
    """L_fp: for every 0 <= n < 2^53 and k in 1..3, int(n / 2^k) (IEEE double division, truncation)
    equals n >> k.  QF_BVFP, z3 then cvc5."""
    res = _res("L_fp")
    n = z3.BitVec("n", 64)
    for k in (3,):
        fp = z3.fpToFP(z3.RNE(), n, z3.Float64()) if False else z3.fpSignedToFP(z3.RNE(), n, z3.Float64())
        q = z3.fpDiv(z3.RNE(), fp, z3.FPVal(float(1 << k), z3.Float64()))
        back = z3.fpToSBV(z3.RTZ(), q, z3.BitVecSort(64))
        s = z3.Solver()
        s.set("timeout", 120000)
        s.add(z3.ULT(n, z3.BitVecVal(1 << 53, 64)), back != z3.LShR(n, k))
        t0 = time.time()
        r = str(s.check())
        res["queries"] += 1
        res["obligations"] += 1
        res["paths"] += 1
        res["solver_s"] += time.time() - t0
        res[r] = res.get(r, 0) + 1
        if r == "unsat":
            from .. import xsolver

            a2 = xsolver.cvc5_check(s.to_smt2(), 120000)
            res["samples"].append({"lemma": f"int(n / {1 << k}) == n >> {k} for n < 2^53", "z3": r, "cvc5": a2, "z3_s": round(time.time() - t0, 2)})
            if a2 not in ("unsat", "unknown"):
                res["inconclusive"].append(f"L_fp: cvc5 says {a2}")
        elif r == "sat":
            res["violations"].append({"what": f"L_fp fails at n = {s.model()[n]}", "payload": {"kind": "lemma"}, "confirmed": False, "info": {"kind": "lemma"}})
        else:
            res["inconclusive"].append("L_fp: z3 unknown")
    return res
