"""Go part of C05: the OLD schema's generated Go decoder on the specified wire of the NEW one."""
from __future__ import annotations

import random
from typing import Any, Dict, List

import z3

from .. import gosym, pysym
from ..common import Inconclusive, Scratch
from ..compile import CompileError
from ..families import EvoCase
from ..gort import GoBuild, get_leaf, go_type_name, leaf_slots, wire_slice
from ..gosym import GoPanic, Ptr
from ..llsym import bv, simp
from ..pyrt import sym_leaves
from ..pysym import Engine
from ..schema import layout, spec_bytes_z3, spec_encode
from .goenc import _vals, go_concrete
from .pycommon import extreme_values, vals_case
from .pyenc import new_result


def select(evo: List[EvoCase], q: bool) -> List[EvoCase]:
    return evo[::2] if q else evo


def work(ec: EvoCase) -> Dict[str, Any]:
    res = new_result(ec.old)
    res["case"] = ec.name
    with Scratch() as sc:
        try:
            gb = GoBuild(ec.old, sc.dir, tag="_old")
            I, main = gb.interp()
        except (CompileError, Inconclusive) as e:
            res["inconclusive"].append(f"{ec.name}: {e}")
            return res
        new_by_name = {m.name: (m, ch) for m, ch in ec.new.messages}
        for msg, chain in ec.old.messages:
            nm, _ = new_by_name[msg.name]
            lay_o, lay_n = layout(msg), layout(nm)
            terms, _p, assumes = sym_leaves(lay_n)
            spec = spec_bytes_z3(lay_n, terms)
            tname = go_type_name(chain)
            MT = main.types[tname]
            res["messages"] += 1
            eng = Engine(max_paths=64)
            pysym.set_engine(eng)

            def h() -> Any:
                for a in assumes:
                    pysym.ENGINE.assume(a)
                m = I.zero(MT)
                I.steps = 0
                I.call(MT.methods["Decode"], [wire_slice([simp(b) for b in spec])], Ptr(m))
                return [get_leaf(sl, l) for sl, l in zip(leaf_slots(I, m, msg), lay_o.leaves())]

            cexs = []
            try:
                for p in eng.explore(h):
                    if p.exc is not None:
                        if isinstance(p.exc, GoPanic):
                            cexs.append((_vals(lay_n, terms, p.witness()), f"panic: {p.exc}"))
                            continue
                        raise Inconclusive(f"unexpected {type(p.exc).__name__}: {p.exc}")
                    conj = []
                    for (v, bits, isb), l in zip(p.value, lay_o.leaves()):
                        t = terms[l.path]
                        if isb:
                            conj.append((v if gosym.is_sym(v) else z3.BoolVal(bool(v))) == (t == 1))
                        else:
                            e = z3.SignExt(bits - l.n, t) if l.kind == "int" else z3.ZeroExt(bits - l.n, t)
                            conj.append(bv(v, bits) == (e if bits > l.n else t))
                    res["obligations"] += len(conj)
                    r, model = p.holds(z3.And(*conj) if conj else z3.BoolVal(True))
                    if r == "sat":
                        cexs.append((_vals(lay_n, terms, model), "value"))
                    elif r == "unknown":
                        res["inconclusive"].append(f"{ec.name}: unknown")
                    elif len(res["samples"]) < 1:
                        res["samples"].append({"evolution": ec.name, "steps": list(ec.steps), "go_type": tname, "go_steps": I.steps, "verdict": "unsat"})
            except Inconclusive as e:
                res["inconclusive"].append(f"{ec.name}.{tname} go: {type(e).__name__}: {e}")
            for k in ("paths", "queries", "unsat", "sat", "unknown"):
                res[k] += eng.stats.get(k, 0)
            rng = random.Random(hash(ec.name) & 0xFFFF)
            tests = [("cex", v, w) for v, w in cexs[:3]] + ([] if cexs else [("wit", v, "") for v in extreme_values(lay_n, rng, 1)[:2]])
            for kind, v, why in tests:
                bad = None
                try:
                    got = go_concrete(I, main, tname, msg, v, "decode", spec_encode(lay_n, v))
                    wrong = [(l.pname(), got[l.path], v[l.path]) for l in lay_o.leaves() if got[l.path] != (v[l.path] if l.kind != "bool" else int(bool(v[l.path])))]
                    if wrong:
                        bad = f"old Go decoder reads {wrong[:3]} (field, got, encoded)"
                except GoPanic as e:
                    bad = f"panic: {e}"
                except Inconclusive as e:
                    res["inconclusive"].append(f"{ec.name}: {e}")
                    continue
                if kind == "wit":
                    res["witness"] += 1
                    res["witness_agree"] += int(bad is None)
                    if bad:
                        res["inconclusive"].append(f"{ec.name}: concrete interpreter run disagrees with an unsat verdict: {bad}")
                elif bad is None:
                    res["inconclusive"].append(f"{ec.name}: solver model did not reproduce in a concrete interpreter run")
                else:
                    res["violations"].append({"what": f"{ec.name} [{', '.join(ec.steps)}] {tname} [go]: {bad} (interpreter-only: no Go toolchain)", "payload": {"kind": "go-evo", "evolution": ec.name, "steps": list(ec.steps), "old_files": ec.old.proto.files(), "new_files": ec.new.proto.files(),
                                              "values": vals_case(lay_n, v), "replayed": "interpreter-only"}, "confirmed": False, "info": {"kind": "go-evo", "key": ""}})
    return res
