"""E2 harnesses over generated C + the real bitproto.c (LLVM IR through llsym): symbolic
encode / decode per message and IR configuration, bounds-checked memory, native replay and
interpreter validation through a gcc-built shared object."""
from __future__ import annotations

import os
import random
import time
from dataclasses import dataclass, field
from typing import Any, Dict, List, Optional, Sequence, Tuple

import z3

from .. import llsym, pysym
from ..common import Inconclusive, Scratch, run, seed
from ..compile import CompileError
from ..crt import CBuild, CMsg, native_decode, native_encode, pack_struct, unpack_struct
from ..families import Case
from ..llsym import OOB, UB, IntT, Machine, Ptr
from ..pyrt import sym_leaves
from ..pysym import Engine
from ..schema import layout, leaf_range, spec_bytes_z3, spec_decode, spec_encode
from .pycommon import extreme_values, vals_case
from .pyenc import new_result

C_FILES = ["lib/c/bitproto.c", "lib/c/bitproto.h", "compiler/bitproto/renderer/impls/c/renderer_c.py", "compiler/bitproto/renderer/impls/c/renderer_h.py", "compiler/bitproto/renderer/impls/c/formatter.py", "compiler/bitproto/renderer/formatter.py"]


@dataclass(frozen=True)
class Cfg:
    olevel: str = "O0"
    target: str = "x86_64"  # x86_64 | s390x
    single_tu: bool = False
    defines: Tuple[str, ...] = ()
    optimize: bool = False  # bitproto -O
    endian: str = "both"  # --endian for -O output
    storage_big: Optional[bool] = None  # byte order of struct storage; None = the target's

    def name(self) -> str:
        return f"{self.target}-{self.olevel}-{'1tu' if self.single_tu else 'sep'}" + ("".join("-D" + d for d in self.defines)) + (f"-bpO-{self.endian}" if self.optimize else "")

    def big_storage(self) -> bool:
        if self.storage_big is not None:
            return self.storage_big
        return self.target in ("s390x", "ppc64", "mips64") or "BP_BIG_ENDIAN" in self.defines

    def native_ok(self) -> bool:
        return self.target == "x86_64"


def store_leaf(M: Machine, region: str, off: int, size: int, v: Any, big: bool) -> None:
    """store a size-byte integer with explicit byte order (independent of the datalayout)"""
    if llsym.is_sym(v):
        cells = [llsym.simp(z3.Extract(8 * i + 7, 8 * i, v)) for i in range(size)]
    else:
        cells = [(v >> (8 * i)) & 255 for i in range(size)]
    if big:
        cells = cells[::-1]
    M.chk(Ptr(region, off), size)
    M.mem[region][off:off + size] = cells


def load_leaf(M: Machine, region: str, off: int, size: int, big: bool) -> Any:
    M.chk(Ptr(region, off), size)
    cells = [M._cell(region, off + i) for i in range(size)]
    if big:
        cells = cells[::-1]
    if not any(llsym.is_sym(c) for c in cells):
        return sum(c << (8 * i) for i, c in enumerate(cells))
    return llsym.simp(z3.Concat(*[llsym.bv(c, 8) for c in cells[::-1]])) if size > 1 else llsym.bv(cells[0], 8)


def fill_struct(cm: CMsg, M: Machine, region: str, values: Dict[Any, Any], big: bool, raw_storage: bool = False) -> None:
    for li, l in enumerate(cm.lay.leaves()):
        v = values[l.path]
        w = 8 * cm.sz[li]
        if isinstance(v, int):
            v &= (1 << w) - 1
        elif not (raw_storage and v.size() == w):
            v = cm.storage_term(l, li, v)
        store_leaf(M, region, cm.off[li], cm.sz[li], llsym.simp(v) if llsym.is_sym(v) else v, big)


def read_struct(cm: CMsg, M: Machine, region: str, big: bool) -> List[Any]:
    return [load_leaf(M, region, cm.off[li], cm.sz[li], big) for li in range(len(cm.lay.leaves()))]


def expected_storage(cm: CMsg, terms: Dict[Any, Any]) -> List[Any]:
    return [cm.storage_term(l, li, terms[l.path]) for li, l in enumerate(cm.lay.leaves())]


def sym_storage(cm: CMsg) -> Tuple[Dict[Any, Any], Dict[Any, Any]]:
    """arbitrary storage contents of integer fields (C07): full-width free variables; the
    n-bit term handed to the spec is the low n bits"""
    st: Dict[Any, Any] = {}
    low: Dict[Any, Any] = {}
    for li, l in enumerate(cm.lay.leaves()):
        w = 8 * cm.sz[li]
        if l.kind in ("uint", "int", "byte") and w > l.n:
            x = z3.BitVec(f"st{li}_{l.pname()}", w)
            st[l.path] = x
            low[l.path] = z3.Extract(l.n - 1, 0, x)
        elif l.kind == "bool":
            b = z3.Bool(f"st{li}_{l.pname()}")
            t = z3.If(b, z3.BitVecVal(1, 1), z3.BitVecVal(0, 1))
            st[l.path] = t
            low[l.path] = t
        else:
            x = z3.BitVec(f"st{li}_{l.pname()}", l.n)
            st[l.path] = x
            low[l.path] = x
    return st, low


def run_msg(case: Case, cb: CBuild, cm: CMsg, cfg: Cfg, res: Dict[str, Any], ops: Sequence[str], rng: random.Random, std_bytes: Optional[Dict[str, List[Any]]] = None) -> None:
    """ops: 'encode', 'decode', 'storage' (encode with arbitrary storage of integer fields)"""
    lay = cm.lay
    big = cfg.big_storage()
    enc_fn, dec_fn = "@Encode" + cm.name, "@Decode" + cm.name
    terms, _prox, assumes = sym_leaves(lay)
    spec = spec_bytes_z3(lay, terms)
    if cm.nbytes != lay.nbytes:
        res["violations"].append({"what": f"{case.name}.{cm.name} [{cfg.name()}]: BYTES_LENGTH macro = {cm.nbytes}, expected ceil({lay.nbits}/8) = {lay.nbytes}",
                                  "payload": {"kind": "c", "case": case.name, "files": case.proto.files(), "message": cm.name, "cfg": cfg.name()}, "confirmed": True, "info": {"kind": "size"}})
        return
    for op in ops:
        eng = Engine(max_paths=64)
        pysym.set_engine(eng)
        if op == "storage":
            st, low = sym_storage(cm)
            spec_o = spec_bytes_z3(lay, low)
            vars_for_model = st
        else:
            spec_o = spec
            vars_for_model = terms

        def h_enc() -> Any:
            for a in assumes:
                pysym.ENGINE.assume(a)
            M = cm.machine()
            stv = M.new_region(cm.sizeof, "msg", fill=None)  # padding bytes: arbitrary
            buf = M.new_region(lay.nbytes, "buf", fill=0)  # exactly BYTES_LENGTH bytes: the region end is the guard
            fill_struct(cm, M, stv, st if op == "storage" else terms, big, raw_storage=(op == "storage"))
            M.call(enc_fn, [Ptr(stv, 0), Ptr(buf, 0)])
            return M, list(M.mem[buf]), None

        def h_dec() -> Any:
            for a in assumes:
                pysym.ENGINE.assume(a)
            M = cm.machine()
            stv = M.new_region(cm.sizeof, "msg", fill=0)  # zero-initialised struct of exactly sizeof bytes
            buf = M.new_region(lay.nbytes, "buf", fill=0)
            M.mem[buf] = [llsym.simp(b) for b in spec]
            M.readonly.add(buf)
            M.call(dec_fn, [Ptr(stv, 0), Ptr(buf, 0)])
            return M, read_struct(cm, M, stv, big), list(M.mem[stv])

        cexs: List[Tuple[str, Dict[Any, int], str]] = []
        t0 = time.time()
        try:
            for p in eng.explore(h_dec if op == "decode" else h_enc):
                if p.exc is not None:
                    if isinstance(p.exc, (OOB, UB)):
                        wm = p.witness()
                        cexs.append((op, _model_vals(lay, vars_for_model, wm), f"{type(p.exc).__name__}: {p.exc}"))
                        continue
                    raise Inconclusive(f"unexpected {type(p.exc).__name__}: {p.exc}")
                M, out, raw = p.value
                res["ir_steps"] = res.get("ir_steps", 0) + M.steps
                res["merges"] += M.merges
                if op == "decode":
                    exp = expected_storage(cm, terms)
                    conj = [llsym.bv(v, 8 * cm.sz[li]) == e for li, (v, e) in enumerate(zip(out, exp))]
                else:
                    conj = [llsym.bv(c, 8) == s for c, s in zip(out, spec_o)]
                    if std_bytes is not None and op == "encode":
                        if cm.name in std_bytes:
                            conj += [llsym.bv(c, 8) == llsym.bv(s, 8) for c, s in zip(out, std_bytes[cm.name])]
                res["obligations"] += len(conj)
                r, model = p.holds(z3.And(*conj) if conj else z3.BoolVal(True))
                if r == "unknown":
                    res["inconclusive"].append(f"{case.name}.{cm.name} [{cfg.name()}] {op}: solver unknown")
                elif r == "sat":
                    cexs.append((op, _model_vals(lay, vars_for_model, model), "value"))
                else:
                    if M.undef_reads and any("undef!" in str(z3.simplify(llsym.bv(c, 8))) for c in (out if op != "decode" else [])):
                        res["inconclusive"].append(f"{case.name}.{cm.name} [{cfg.name()}] {op}: output depends on uninitialised memory {M.undef_reads[:3]}")
                    if len(res["samples"]) < 2:
                        res["samples"].append({"case": case.name, "message": cm.name, "config": cfg.name(), "op": op, "bits": lay.nbits, "ir_steps": M.steps, "merged_branches": M.merges, "forks": M.forks, "verdict": "unsat"})
        except Inconclusive as e:
            res["inconclusive"].append(f"{case.name}.{cm.name} [{cfg.name()}] {op}: {type(e).__name__}: {e}")
        for k in ("paths", "queries", "unsat", "sat", "unknown"):
            res[k] += eng.stats.get(k, 0)
        res["solver_s"] += eng.stats.get("solver_s", 0.0)
        # ---- native replay of counterexamples / interpreter validation
        _native(case, cb, cm, cfg, res, op, cexs, rng)


def _model_vals(lay: Any, vars_: Dict[Any, Any], model: Any) -> Dict[Any, int]:
    d = {}
    for l in lay.leaves():
        t = vars_[l.path]
        v = model.eval(t, model_completion=True)
        v = v.as_long()
        if l.signed and t.size() == l.n and v >> (l.n - 1):
            v -= 1 << l.n
        d[l.path] = v
    return d


def _native(case: Case, cb: CBuild, cm: CMsg, cfg: Cfg, res: Dict[str, Any], op: str, cexs: List[Tuple[str, Dict[Any, int], str]], rng: random.Random) -> None:
    lay = cm.lay
    big = cfg.big_storage()
    tests: List[Tuple[str, Dict[Any, int], str]] = [("cex", v, why) for _, v, why in cexs[:3]]
    if not cexs and op != "storage":
        tests += [("wit", v, "") for v in extreme_values(lay, rng, 1)[:2]]
    if not tests:
        return
    if not cfg.native_ok():
        # true big-endian target: no native run possible here. The same code path is replayed on x86-64
        # with -DBP_BIG_ENDIAN: for -O output the big-endian branch is value shifts on native storage
        # (endian-neutral); for the runtime library it needs hand-laid big-endian storage and is only
        # meaningful when the library creates no native integers of its own (no 16-bit prefixes) and
        # does no native sign handling (no signed leaves).
        if not cfg.optimize and (lay.prefixes() or any(l.kind == "int" for l in lay.leaves())):
            if cexs:
                for _, vals, why in cexs[:3]:
                    res["violations"].append({"what": f"{case.name}.{cm.name} [{cfg.name()}] {op}: counterexample {vals_case(lay, vals)[:4]} ({why}) -- interpreter-only: a big-endian host cannot be run natively here",
                                              "payload": {"kind": "c", "case": case.name, "files": case.proto.files(), "message": cm.name, "cfg": cfg.name(), "op": op, "values": vals_case(lay, vals), "why": why, "replayed": "interpreter-only"},
                                              "confirmed": False, "info": {"kind": "be", "key": "be-interpreter-only"}})
            return
        ncfg = Cfg("O2", "x86_64", False, ("BP_BIG_ENDIAN",), cfg.optimize, cfg.endian, not cfg.optimize)
    else:
        ncfg = cfg
    try:
        so = cb.shared_object(ncfg.olevel if ncfg.olevel != "O0" else "O0", ncfg.defines)
    except Inconclusive as e:
        res["inconclusive"].append(f"{case.name}.{cm.name}: {e}")
        return
    for kind, vals, why in tests:
        bad = None
        try:
            if op in ("encode", "storage"):
                sb = pack_struct(cm, vals, little=not ncfg.big_storage(), fill=0x5A)
                got, guard_ok = native_encode(so, "Encode" + cm.name, sb, lay.nbytes)
                want = spec_encode(lay, vals)
                if got != want:
                    bad = f"native Encode{cm.name} gives {got.hex()}, specified {want.hex()}"
                elif not guard_ok:
                    bad = f"native Encode{cm.name} wrote beyond BYTES_LENGTH = {lay.nbytes}"
            else:
                wire = spec_encode(lay, vals)
                raw, guard_ok = native_decode(so, "Decode" + cm.name, wire, cm.sizeof)
                got = unpack_struct(cm, raw, little=not ncfg.big_storage())
                wrong = [(l.pname(), got[l.path], vals[l.path]) for l in lay.leaves() if got[l.path] != (vals[l.path] if l.kind != "bool" else int(bool(vals[l.path])))]
                if wrong:
                    bad = f"native Decode{cm.name} reads {wrong[:3]} (field, got, encoded)"
                elif not guard_ok:
                    bad = f"native Decode{cm.name} wrote outside the struct ({cm.sizeof} bytes)"
        except Exception as e:  # ctypes failure
            res["inconclusive"].append(f"{case.name}.{cm.name}: native call failed: {e}")
            continue
        if kind == "wit":
            res["witness"] += 1
            if bad is None:
                res["witness_agree"] += 1
            else:
                res["inconclusive"].append(f"{case.name}.{cm.name} [{cfg.name()}] {op}: native run disagrees with an unsat verdict: {bad}")
            continue
        payload = {"kind": "c", "case": case.name, "files": case.proto.files(), "message": cm.name, "cfg": cfg.name(), "native_cfg": ncfg.name(), "op": op, "values": vals_case(lay, vals), "why": why,
                   "optimize": cfg.optimize, "endian": cfg.endian}
        if bad is None:
            if why != "value" and ("OOB" in why or "UB" in why):
                # memory-model findings (out-of-bounds access, UB) need not change any observable byte natively
                res["violations"].append({"what": f"{case.name}.{cm.name} [{cfg.name()}] {op}: {why} (interpreter memory model; native run shows no difference)", "payload": payload, "confirmed": True,
                                          "info": {"kind": "memory", "key": "memory-model", "exc": why.split(":")[0]}})
            elif not cfg.native_ok() and cfg.optimize:
                res["violations"].append({"what": f"{case.name}.{cm.name} [{cfg.name()}] {op}: counterexample {vals_case(lay, vals)[:4]} (interpreter-only: big-endian target cannot be run natively)", "payload": dict(payload, replayed="interpreter-only"), "confirmed": False,
                                          "info": {"kind": "be", "key": "be-interpreter-only"}})
            else:
                res["inconclusive"].append(f"{case.name}.{cm.name} [{cfg.name()}] {op}: solver model did not reproduce natively ({why}); values {vals_case(lay, vals)[:5]}")
            continue
        res["violations"].append({"what": f"{case.name}.{cm.name} [{cfg.name()}] {op}: {bad}" + (f" ({why})" if why != "value" else ""), "payload": payload, "confirmed": True, "info": {"kind": "c-" + op, "key": _ckey(case, cm, why), "exc": why.split(":")[0]}})


def _ckey(case: Case, cm: CMsg, why: str) -> str:
    return ""


def work(job: Tuple[Case, List[Cfg], Tuple[str, ...]]) -> Dict[str, Any]:
    case, cfgs, ops = job
    res = new_result(case)
    res["configs"] = [c.name() for c in cfgs]
    if "noc" in case.tags:
        return res
    rng = random.Random(seed() * 104729 + hash(case.name) % 99991)
    t00 = time.time()
    with Scratch() as sc:
        builds: Dict[Tuple[bool, str], CBuild] = {}
        for cfg in cfgs:
            key = (cfg.optimize, cfg.endian)
            try:
                if key not in builds:
                    builds[key] = CBuild(case, sc.dir, optimize=cfg.optimize, endian=cfg.endian, tag=f"_{int(cfg.optimize)}{cfg.endian}")
                cb = builds[key]
                mods, consts = cb.modules(cfg.olevel, cfg.target, cfg.defines, cfg.single_tu, msgs=case.messages)
            except CompileError as e:
                res["inconclusive"].append(f"{case.name} [{cfg.name()}]: real compiler rejected the family schema: {e}")
                continue
            except Inconclusive as e:
                res["inconclusive"].append(f"{case.name} [{cfg.name()}]: {e}")
                continue
            for mi, (msg, chain) in enumerate(case.messages):
                try:
                    cm = CMsg(mods, consts, mi, msg, chain)
                except Inconclusive as e:
                    res["inconclusive"].append(f"{case.name} [{cfg.name()}]: {e}")
                    continue
                res["messages"] += 1
                res["leaves"] += len(cm.lay.leaves())
                run_msg(case, cb, cm, cfg, res, ops, rng)
    res["exec_s"] = round(time.time() - t00, 3)
    return res


def replay_c(payload: Dict[str, Any]) -> Tuple[bool, str]:
    """Re-run a recorded C counterexample natively against the current /repo: the schema text is
    re-parsed by the real compiler (names and types only -> my layout), generated C is built with
    gcc and Encode/Decode run on the recorded values.  Returns (still_fails, description)."""
    import os

    from ..compile import compile_cli, load_plain_compiler, write_files
    from ..crt import LIBC, clang_ir, native_decode, native_encode
    from ..golden import ast_to_model
    from ..llsym import Module

    if any("import " in t for t in payload["files"].values()):
        return True, "replay of schemas with imports is not automated: compile payload['files'] and run the recorded values by hand"
    load_plain_compiler()
    from bitproto.parser import parse

    with Scratch() as sc:
        write_files(payload["files"], sc.dir)
        main = next(iter(payload["files"]))
        model = ast_to_model(parse(sc.path(main)))
        msgs = {"".join(ch): (m, ch) for m, ch in __import__("vlib.families", fromlist=["_msgs"])._msgs(model)}
        if payload["message"] not in msgs:
            return True, f"message {payload['message']} not found in the schema"
        msg, chain = msgs[payload["message"]]
        gen = sc.path("gen")
        flags = ["-q"] + (["-O", "--endian", payload.get("endian", "both")] if payload.get("optimize") else [])
        r = compile_cli(sc.dir, main, "c", gen, flags)
        if r.returncode:
            return True, f"compiler failed: {r.stderr[-200:]}"
        stem = main.rsplit(".", 1)[0]
        # layout constants through clang (x86-64), native run through gcc
        fake = type("B", (), {})()
        fake.main, fake.gen = stem, gen
        fake.bytes_macro = {}
        from ..crt import CBuild

        ltu = CBuild.write_layout_tu(fake, [(msg, chain)])  # type: ignore
        lout = sc.path("layout.ll")
        clang_ir(ltu, lout, "O0", "x86_64", [gen, LIBC])
        consts = {}
        for g, (ty, init) in Module(lout).globals.items():
            if g.startswith("@bpv_") and init:
                consts[g[1:]] = init[1] if init[0] == "int" else 0
        lay = layout(msg)
        consts["bpv_bytes_0"] = lay.nbytes
        cm = CMsg([], consts, 0, msg, chain)
        big = "BP_BIG_ENDIAN" in payload.get("native_cfg", "") and not payload.get("optimize")
        defs = ["-DBP_BIG_ENDIAN"] if "BP_BIG_ENDIAN" in payload.get("native_cfg", "") else []
        so = sc.path("r.so")
        g = run(["gcc", "-shared", "-fPIC", "-O2", "-w", "-I", gen, "-I", LIBC] + defs + [os.path.join(gen, stem + "_bp.c"), os.path.join(LIBC, "bitproto.c"), "-o", so])
        if g.returncode:
            return True, f"gcc failed: {g.stderr[-200:]}"
        vals = {tuple(map(tuple, p)): v for p, v, _ in payload["values"]}
        if payload["op"] in ("encode", "storage"):
            got, guard_ok = native_encode(so, "Encode" + cm.name, pack_struct(cm, vals, little=not big, fill=0x5A), lay.nbytes)
            want = spec_encode(lay, vals)
            if got != want:
                return True, f"Encode{cm.name} gives {got.hex()}, specified {want.hex()}"
            return (not guard_ok), ("writes beyond BYTES_LENGTH" if not guard_ok else "holds on this input now")
        raw, guard_ok = native_decode(so, "Decode" + cm.name, spec_encode(lay, vals), cm.sizeof)
        gotv = unpack_struct(cm, raw, little=not big)
        wrong = [(l.pname(), gotv[l.path], vals[l.path]) for l in lay.leaves() if gotv[l.path] != (vals[l.path] if l.kind != "bool" else int(bool(vals[l.path])))]
        if wrong:
            return True, f"Decode{cm.name} reads {wrong[:3]} (field, got, encoded)"
        return (not guard_ok), ("writes outside the struct" if not guard_ok else "holds on this input now")


def replay_main(path: str) -> int:
    import json

    p = json.load(open(path))
    if p.get("kind") == "c" and "values" in p:
        bad, why = replay_c(p)
        print(("FAILS: " if bad else "passes: ") + why)
        return 1 if bad else 0
    print(json.dumps({k: p[k] for k in p if k != "files"}, indent=1)[:1200])
    return 1
