"""Python `re` (subset, VERBOSE like ply's master regex) -> z3 regular expressions, so that
`every token text the lexer's rule can match satisfies the precondition of the rule's action`
becomes a regex-inclusion query decided by z3's sequence theory."""
from __future__ import annotations

from typing import Any, List, Optional, Tuple

import z3

from .common import Inconclusive

RS = z3.ReSort(z3.StringSort())
ANY = z3.AllChar(RS)


def ch(c: str) -> Any:
    return z3.Re(z3.StringVal(c))


def union(xs: List[Any]) -> Any:
    if not xs:
        return z3.Empty(RS)
    return xs[0] if len(xs) == 1 else z3.Union(*xs)


def negclass(xs: List[Any]) -> Any:
    return z3.Intersect(ANY, z3.Complement(union(xs)))


DOT = negclass([ch("\n")])
ESC = {"n": "\n", "t": "\t", "r": "\r", "f": "\f", "v": "\v", "0": "\0"}
CLASSES = {"d": [z3.Range("0", "9")], "w": [z3.Range("a", "z"), z3.Range("A", "Z"), z3.Range("0", "9"), ch("_")], "s": [ch(" "), ch("\t"), ch("\n"), ch("\r"), ch("\f"), ch("\v")]}


class RxParser:
    def __init__(self, src: str, verbose: bool = True):
        self.s = src
        self.i = 0
        self.verbose = verbose
        self.stars: List[Any] = []  # body of every `*` / `+` repetition (for the ambiguity query)

    def peek(self) -> Optional[str]:
        if self.verbose:
            while self.i < len(self.s) and self.s[self.i] in " \t\n\r\f\v":
                self.i += 1
        return self.s[self.i] if self.i < len(self.s) else None

    def alt(self) -> Any:
        parts = [self.seq()]
        while self.peek() == "|":
            self.i += 1
            parts.append(self.seq())
        return union(parts)

    def seq(self) -> Any:
        items: List[Any] = []
        while self.peek() is not None and self.peek() not in "|)":
            items.append(self.repeat())
        if not items:
            return z3.Re(z3.StringVal(""))
        return items[0] if len(items) == 1 else z3.Concat(*items)

    def repeat(self) -> Any:
        a = self.atom()
        while self.peek() in ("*", "+", "?"):
            q = self.s[self.i]
            self.i += 1
            if a is None:
                raise Inconclusive("regex: quantifier on a zero-width assertion")
            if q in "*+":
                self.stars.append(a)
            a = {"*": z3.Star, "+": z3.Plus, "?": z3.Option}[q](a)
            if self.i < len(self.s) and self.s[self.i] == "?":  # lazy: same language
                self.i += 1
        return a if a is not None else z3.Re(z3.StringVal(""))

    def escape(self, in_class: bool) -> Any:
        c = self.s[self.i]
        self.i += 1
        if c in ESC:
            return ch(ESC[c])
        if c in CLASSES:
            return union(CLASSES[c])
        if c == "b" and not in_class:
            return None  # word boundary: zero width; dropping it only enlarges the language
        if c.isalnum():
            raise Inconclusive(f"regex: unsupported escape \\{c}")
        return ch(c)

    def atom(self) -> Any:
        c = self.peek()
        self.i += 1
        if c == "(":
            if self.s[self.i:self.i + 2] == "?:":
                self.i += 2
            elif self.s[self.i] == "?":
                raise Inconclusive("regex: unsupported group extension")
            r = self.alt()
            if self.peek() != ")":
                raise Inconclusive("regex: unbalanced group")
            self.i += 1
            return r
        if c == "[":
            neg = False
            if self.s[self.i] == "^":
                neg = True
                self.i += 1
            items: List[Any] = []
            first = True
            while self.s[self.i] != "]" or first:
                first = False
                x = self.s[self.i]
                self.i += 1
                if x == "\\":
                    lo: Any = self.escape(True)
                    loc = None
                else:
                    lo = ch(x)
                    loc = x
                if self.s[self.i] == "-" and self.s[self.i + 1] != "]" and loc is not None:
                    hi = self.s[self.i + 1]
                    self.i += 2
                    items.append(z3.Range(loc, hi))
                else:
                    items.append(lo)
            self.i += 1
            return negclass(items) if neg else union(items)
        if c == ".":
            return DOT
        if c == "\\":
            return self.escape(False)
        if c in "^$":
            raise Inconclusive("regex: anchors unsupported")
        if c == "{":
            raise Inconclusive("regex: counted repetition unsupported")
        return ch(c)


def translate(src: str, verbose: bool = True) -> Any:
    p = RxParser(src, verbose)
    r = p.alt()
    if p.peek() is not None:
        raise Inconclusive(f"regex: trailing input at {p.i} in {src!r}")
    return r


def included(r: Any, safe: Any, maxlen: int = 10, timeout_ms: int = 30000) -> Tuple[str, Optional[str]]:
    """Is L(r) restricted to |s| <= maxlen included in L(safe)?  ('unsat', None) = yes;
    ('sat', counterexample string); ('unknown', None)."""
    s = z3.String("tok")
    sv = z3.Solver()
    sv.set("timeout", timeout_ms)
    sv.add(z3.InRe(s, r), z3.Not(z3.InRe(s, safe)), z3.Length(s) <= maxlen)
    res = str(sv.check())
    if res == "sat":
        return res, sv.model()[s].as_string()
    return res, None


def star_bodies(src: str, verbose: bool = True) -> List[Any]:
    p = RxParser(src, verbose)
    p.alt()
    return p.stars


def ambiguous_star(body: Any, maxlen: int = 8, timeout_ms: int = 30000) -> Tuple[str, Optional[str]]:
    """Can the body A of a repetition A* match the empty word, or one word both in a single round and split over
    several rounds (w in A and w in A.A+)?  Either makes a backtracking matcher try exponentially many splits on
    an input that finally fails.  ('unsat', None) = no such word up to maxlen."""
    w = z3.String("w")
    sv = z3.Solver()
    sv.set("timeout", timeout_ms)
    sv.add(z3.Length(w) <= maxlen, z3.InRe(w, body), z3.Or(z3.Length(w) == 0, z3.InRe(w, z3.Concat(body, z3.Plus(body)))))
    sv.push()
    sv.add(z3.InRe(w, z3.Star(z3.Range("a", "z"))))  # a readable witness if there is one
    if str(sv.check()) == "sat":
        return "sat", sv.model()[w].as_string()
    sv.pop()
    res = str(sv.check())
    if res == "sat":
        return res, sv.model()[w].as_string()
    return res, None
