"""Shared plumbing: paths, exit codes, evidence, known findings, replays, process pool."""
from __future__ import annotations

import hashlib
import importlib.util
import contextlib
import json
import multiprocessing as mp
import os
import shutil
import signal
import subprocess
import sys
import tempfile
import time
import traceback
from typing import Any, Callable, Dict, Iterable, Iterator, List, Optional, Tuple

VERIF = os.path.dirname(os.path.dirname(os.path.abspath(__file__)))
REPO = os.environ.get("VERIF_REPO", "/repo")
VENV_PY = "/venv/bin/python"
PLY_DIR = "/venv/lib/python3.12/site-packages/ply"

EXIT_OK = 0
EXIT_VIOLATION = 1
EXIT_INCONCLUSIVE = 2

GUARD = "HIT9_BITPROTO_VERIF"


class Inconclusive(Exception):
    """The machinery could not decide (unknown, budget, unsupported construct, model did not replay)."""


def tier() -> str:
    t = os.environ.get("VERIF_TIER", "quick")
    return t if t in ("quick", "thorough") else "quick"


def seed() -> int:
    try:
        return int(os.environ.get("VERIF_SEED", "0"))
    except ValueError:
        return 0


def ncpu() -> int:
    try:
        return max(1, min(16, len(os.sched_getaffinity(0))))
    except Exception:
        return 8


def ensure_ply() -> None:
    """Make `ply` (pure Python, installed only in /venv) importable without putting /venv's
    site-packages (which also holds an *installed copy of bitproto*) on sys.path."""
    if "ply" in sys.modules:
        return
    spec = importlib.util.spec_from_file_location(
        "ply", os.path.join(PLY_DIR, "__init__.py"), submodule_search_locations=[PLY_DIR]
    )
    mod = importlib.util.module_from_spec(spec)
    sys.modules["ply"] = mod
    spec.loader.exec_module(mod)


def sha256_file(path: str) -> str:
    h = hashlib.sha256()
    with open(path, "rb") as f:
        h.update(f.read())
    return h.hexdigest()


def repo_files(rel: Iterable[str]) -> List[Dict[str, str]]:
    out = []
    for r in rel:
        p = os.path.join(REPO, r)
        out.append({"file": r, "sha256": sha256_file(p)[:16] if os.path.exists(p) else "missing"})
    return out


class Scratch:
    """mktemp -d outside /repo and /verif, removed on exit."""

    def __init__(self, prefix: str = "bpv-"):
        self.dir = tempfile.mkdtemp(prefix=prefix, dir=os.environ.get("VERIF_TMP", None))

    def path(self, *a: str) -> str:
        return os.path.join(self.dir, *a)

    def cleanup(self) -> None:
        shutil.rmtree(self.dir, ignore_errors=True)

    def __enter__(self) -> "Scratch":
        return self

    def __exit__(self, *a: Any) -> None:
        self.cleanup()


# --------------------------------------------------------------------------- evidence


class Evidence:
    def __init__(self, prop: str, level: str):
        self.prop = prop
        self.level = level
        self.t0 = time.time()
        self.cov: Dict[str, Any] = {}
        self.assumptions: List[str] = []
        self.violations = 0
        self.extra: Dict[str, Any] = {}

    def write(self) -> str:
        d = {
            "property_id": self.prop,
            "tier": tier(),
            "seed": seed(),
            "level": self.level,
            "coverage": self.cov,
            "assumptions": self.assumptions,
            "wall_s": round(time.time() - self.t0, 2),
            "violations": self.violations,
        }
        d.update(self.extra)
        os.makedirs(os.path.join(VERIF, "evidence"), exist_ok=True)
        p = os.path.join(VERIF, "evidence", f"{self.prop}.json")
        tmp = p + ".tmp"
        with open(tmp, "w") as f:
            json.dump(d, f, indent=1, sort_keys=False, default=str)
            f.write("\n")
        os.replace(tmp, p)
        return p


# --------------------------------------------------------------------------- known findings


def load_known() -> Dict[str, Any]:
    p = os.path.join(VERIF, "known_findings.json")
    if not os.path.exists(p):
        return {"findings": [], "fixed": []}
    with open(p) as f:
        return json.load(f)


def known_for(prop: str) -> List[Dict[str, Any]]:
    return [k for k in load_known().get("findings", []) if prop in k.get("properties", [])]


def write_replay(prop: str, payload: Dict[str, Any]) -> str:
    d = os.path.join(VERIF, "replays", prop)
    os.makedirs(d, exist_ok=True)
    blob = json.dumps(payload, sort_keys=True, default=str)
    name = hashlib.sha256(blob.encode()).hexdigest()[:16] + ".json"
    p = os.path.join(d, name)
    with open(p, "w") as f:
        json.dump(payload, f, indent=1, default=str)
    return p


class Report:
    """Collects verdicts of one check run and turns them into stdout lines + exit code."""

    def __init__(self, prop: str):
        self.prop = prop
        self.violations: List[Tuple[str, str]] = []  # (what, replay path)
        self.known: Dict[str, List[str]] = {}  # finding id -> examples
        self.inconclusive: List[str] = []
        self.notes: List[str] = []

    def violation(self, what: str, payload: Dict[str, Any]) -> None:
        p = write_replay(self.prop, payload)
        self.violations.append((what, p))

    def known_finding(self, fid: str, what: str) -> None:
        self.known.setdefault(fid, []).append(what)

    def inconc(self, why: str) -> None:
        self.inconclusive.append(why)

    def finish(self, ev: Evidence) -> int:
        ev.violations = len(self.violations)
        ev.extra["known_findings_hit"] = {k: len(v) for k, v in self.known.items()}
        ev.extra["inconclusive"] = self.inconclusive[:20]
        ev.write()
        for fid, ex in sorted(self.known.items()):
            print(f"KNOWN-FINDING: property={self.prop} {fid}: {ex[0]} ({len(ex)} instance(s) this run)")
        for what, p in self.violations[:50]:
            print(f"VIOLATION property={self.prop} replay={p}")
            print(f"  {what}")
        if self.violations:
            return EXIT_VIOLATION
        if self.inconclusive:
            for w in self.inconclusive[:20]:
                print(f"INCONCLUSIVE property={self.prop}: {w}")
            return EXIT_INCONCLUSIVE
        print(f"OK property={self.prop} tier={tier()} wall={time.time()-ev.t0:.1f}s")
        return EXIT_OK


# --------------------------------------------------------------------------- pool


_POOL_FN: Any = None
_POOL_ITEMS: List[Any] = []


class TimeLimit(BaseException):
    """raised by the watchdog; a BaseException so that it is never mistaken for an outcome of the code under test"""


@contextlib.contextmanager
def time_limit(seconds: float) -> Iterator[None]:
    """SIGALRM watchdog around code under test (main thread of a worker process); nests: the outer limit is re-armed"""
    def on_alarm(sig: int, frame: Any) -> None:
        raise TimeLimit(f"no result within {seconds:.0f} s")

    old = signal.signal(signal.SIGALRM, on_alarm)
    prev = signal.setitimer(signal.ITIMER_REAL, seconds)
    t0 = time.time()
    try:
        yield
    finally:
        signal.setitimer(signal.ITIMER_REAL, 0)
        signal.signal(signal.SIGALRM, old)
        if prev[0] > 0:
            signal.setitimer(signal.ITIMER_REAL, max(0.05, prev[0] - (time.time() - t0)))


def job_limit() -> float:
    v = os.environ.get("VERIF_JOB_TIMEOUT")
    return float(v) if v else (1500.0 if tier() == "quick" else 10800.0)


def _pool_call(i: int) -> Any:
    fn, item = _POOL_FN, _POOL_ITEMS[i]
    try:
        with time_limit(job_limit()):
            r = fn(item)
        if isinstance(r, dict):
            from . import xsolver

            r["xsolver"] = dict(xsolver.STATS)
            r["xsolver_notes"] = list(xsolver.NOTES[:3])
            for k in xsolver.STATS:
                xsolver.STATS[k] = 0
            del xsolver.NOTES[:]
        return ("ok", r)
    except Inconclusive as e:
        return ("inconclusive", f"{item!r:.80}: {e}")
    except TimeLimit as e:
        return ("inconclusive", f"{item!r:.80}: job exceeded its time limit ({e}); a hang of the code under test or of the engine")
    except BaseException as e:  # engine bug: must not be swallowed as a pass
        return ("error", f"{item!r:.80}: {type(e).__name__}: {e}\n{traceback.format_exc(limit=8)}")


def pmap(fn: Callable[[Any], Any], items: List[Any], procs: Optional[int] = None, chunksize: int = 1, fresh: bool = False) -> List[Tuple[str, Any]]:
    """Run fn over items in a fork pool (items and fn are inherited by fork, so they need not
    be picklable). Results are ('ok', r) | ('inconclusive', why) | ('error', tb)."""
    global _POOL_FN, _POOL_ITEMS
    procs = procs or ncpu()
    _POOL_FN, _POOL_ITEMS = fn, list(items)
    if (procs <= 1 or len(items) <= 1) and not fresh:
        return [_pool_call(i) for i in range(len(items))]
    ctx = mp.get_context("fork")
    # fresh: every item runs in a process of its own, forked from this one (module state as it is here)
    with ctx.Pool(max(1, min(procs, len(items))), maxtasksperchild=1 if fresh else None) as pool:
        return pool.map(_pool_call, range(len(items)), chunksize=chunksize)


def run(cmd: List[str], timeout: int = 600, env: Optional[Dict[str, str]] = None, cwd: Optional[str] = None, input: Optional[str] = None) -> subprocess.CompletedProcess:
    e = dict(os.environ)
    if env:
        e.update(env)
    return subprocess.run(cmd, capture_output=True, text=True, timeout=timeout, env=e, cwd=cwd, input=input)
