"""Running the *real* compiler from /repo's working tree (never the installed copy in /venv)."""
from __future__ import annotations

import io
import os
import sys
from contextlib import redirect_stderr
from typing import Dict, List, Optional, Sequence

from .common import REPO, VENV_PY, Inconclusive, ensure_ply, run

_loaded = False


def load_plain_compiler() -> None:
    """Import /repo/compiler/bitproto under its normal name with normal builtins."""
    global _loaded
    if _loaded:
        return
    ensure_ply()
    cp = os.path.join(REPO, "compiler")
    if cp not in sys.path:
        sys.path.insert(0, cp)
    import bitproto  # noqa

    if not os.path.abspath(bitproto.__file__).startswith(os.path.abspath(cp)):
        raise Inconclusive(f"bitproto imported from {bitproto.__file__}, not from {cp}")
    _loaded = True


class CompileError(Exception):
    def __init__(self, cls: str, msg: str):
        super().__init__(f"{cls}: {msg}")
        self.cls = cls
        self.msg = msg


def write_files(files: Dict[str, str], d: str) -> None:
    for fn, txt in files.items():
        p = os.path.join(d, fn)
        os.makedirs(os.path.dirname(p), exist_ok=True)
        with open(p, "w") as f:
            f.write(txt)


def compile_inproc(
    srcdir: str,
    filename: str,
    lang: str,
    outdir: str,
    optimize: bool = False,
    filter_messages: Optional[List[str]] = None,
    endian: str = "both",
) -> List[str]:
    """parse + render exactly as `_main.main` does (minus lint / process exit). Returns the
    generated file paths.  Compiler errors are raised as CompileError(class name, message)."""
    load_plain_compiler()
    from bitproto.errors import ParserError, RendererError
    from bitproto.parser import parse
    from bitproto.renderer import render

    os.makedirs(outdir, exist_ok=True)
    err = io.StringIO()
    try:
        with redirect_stderr(err):
            proto = parse(os.path.join(srcdir, filename), traditional_mode=optimize)
            return render(
                proto,
                lang,
                outdir=outdir,
                optimization_mode=optimize,
                optimization_mode_filter_messages=filter_messages,
                optimization_mode_endian=endian,
            )
    except (ParserError, RendererError) as e:
        raise CompileError(type(e).__name__, str(e))


def compile_cli(
    srcdir: str,
    filename: str,
    lang: Optional[str],
    outdir: Optional[str],
    flags: Sequence[str] = (),
    python: str = VENV_PY,
    timeout: int = 120,
):
    """The real CLI in a subprocess of the repository's own interpreter."""
    cmd = [python, "-m", "bitproto._main"]
    if lang:
        cmd.append(lang)
    cmd.append(os.path.join(srcdir, filename))
    if outdir:
        os.makedirs(outdir, exist_ok=True)  # the CLI does not create it
        cmd.append(outdir)
    cmd += list(flags)
    env = {"PYTHONPATH": os.path.join(REPO, "compiler"), "PYTHONHASHSEED": "0"}
    return run(cmd, timeout=timeout, env=env, cwd=srcdir)
