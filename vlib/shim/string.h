#include <stddef.h>
void *memset(void *s, int c, size_t n);
void *memcpy(void *d, const void *s, size_t n);
