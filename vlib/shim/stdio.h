#include <stdarg.h>
#include <stddef.h>
int vsprintf(char *s, const char *fmt, va_list ap);
int sprintf(char *s, const char *fmt, ...);
int printf(const char *fmt, ...);
