#include <stdint.h>
