"""./check <property-id> [quick|thorough] [--replay path]"""
from __future__ import annotations

import importlib
import os
import sys
import traceback

from .common import EXIT_INCONCLUSIVE, Inconclusive


def main() -> int:
    args = sys.argv[1:]
    if not args:
        print(__doc__)
        return EXIT_INCONCLUSIVE
    prop = args[0].upper()
    if len(args) > 1 and args[1] in ("quick", "thorough"):
        os.environ["VERIF_TIER"] = args[1]
        args = [args[0]] + args[2:]
    try:
        mod = importlib.import_module(f"vlib.checks.{prop.lower()}")
    except ModuleNotFoundError as e:
        print(f"no check for {prop}: {e}")
        return EXIT_INCONCLUSIVE
    try:
        if "--replay" in args:
            return int(mod.replay(args[args.index("--replay") + 1]))
        return int(mod.main())
    except Inconclusive as e:
        print(f"INCONCLUSIVE property={prop}: {e}")
        return EXIT_INCONCLUSIVE
    except Exception:
        traceback.print_exc()
        print(f"INCONCLUSIVE property={prop}: harness error")
        return EXIT_INCONCLUSIVE


if __name__ == "__main__":
    sys.exit(main())
