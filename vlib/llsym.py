"""E2 `llsym`: symbolic interpreter for clang-14 textual LLVM IR (C runtime + generated C).

Data are z3 bit-vectors, pointers are (region, concrete offset), every load and store is
bounds-checked against its region, multi-byte accesses follow the module's datalayout
endianness.  Symbolic branches are if-converted when both arms reach the immediate
post-dominator without calls (registers merge through the join's phis, memory per byte with
ite); otherwise the engine forks DART-style through pysym.ENGINE.  Anything unsupported raises
Unsupported (-> inconclusive)."""
from __future__ import annotations

import re
from typing import Any, Dict, List, Optional, Tuple

import z3

from . import pysym
from .common import Inconclusive


class Unsupported(Inconclusive):
    pass


class OOB(Exception):
    """out-of-bounds / invalid memory access in the interpreted program (a finding)"""


class UB(Exception):
    """undefined behaviour detected on concrete operands"""


class NoMerge(Exception):
    pass


TOK = re.compile(r'''\s*(?:(c"(?:[^"\\]|\\[0-9A-Fa-f]{2}|\\\\)*")|("(?:[^"\\]|\\.)*")|([%@][-a-zA-Z$._0-9]+|[%@]"[^"]*")|(-?\d+)|(\.\.\.)|([a-zA-Z_][a-zA-Z0-9_.]*)|(.))''')


def lex(line: str) -> List[str]:
    if 'c"' not in line:
        k = line.find(" ;")
        if k >= 0:
            line = line[:k]
    out: List[str] = []
    pos = 0
    while pos < len(line):
        m = TOK.match(line, pos)
        if not m:
            break
        pos = m.end()
        t = m.group(0).strip()
        if t:
            out.append(t)
    return out


# ---------- types
class T:
    pass


class IntT(T):
    def __init__(s, n: int):
        s.n = n

    def __repr__(s) -> str:
        return f"i{s.n}"


class PtrT(T):
    def __init__(s, to: Any):
        s.to = to

    def __repr__(s) -> str:
        return f"{s.to}*"


class ArrT(T):
    def __init__(s, n: int, el: Any):
        s.n = n
        s.el = el

    def __repr__(s) -> str:
        return f"[{s.n} x {s.el}]"


class StructT(T):
    def __init__(s, fields: List[Any], packed: bool = False, name: Optional[str] = None):
        s.fields = fields
        s.packed = packed
        s.name = name

    def __repr__(s) -> str:
        return s.name or "{...}"


class NamedT(T):
    def __init__(s, name: str, mod: Any):
        s.name = name
        s.mod = mod

    def res(s) -> Any:
        return s.mod.types[s.name]

    def __repr__(s) -> str:
        return s.name


class VoidT(T):
    def __repr__(s) -> str:
        return "void"


class FnT(T):
    def __init__(s, ret: Any, args: List[Any], va: bool):
        s.ret = ret
        s.args = args
        s.va = va

    def __repr__(s) -> str:
        return f"{s.ret}(...)"


class OpaqueT(T):
    pass


ATTR = {"noundef", "nonnull", "signext", "zeroext", "nocapture", "readonly", "writeonly", "noalias", "immarg", "inreg", "returned", "readnone", "nofree", "nest", "swiftself"}


class P:
    """token stream parser"""

    def __init__(s, toks: List[str], mod: Any):
        s.t = toks
        s.i = 0
        s.mod = mod

    def peek(s, k: int = 0) -> Optional[str]:
        return s.t[s.i + k] if s.i + k < len(s.t) else None

    def next(s) -> str:
        v = s.t[s.i]
        s.i += 1
        return v

    def accept(s, x: str) -> bool:
        if s.peek() == x:
            s.i += 1
            return True
        return False

    def expect(s, x: str) -> None:
        v = s.next()
        if v != x:
            raise Unsupported(f"IR parse: expected {x!r} got {v!r} in {' '.join(s.t)[:120]}")

    def type(s) -> Any:
        t = s.next()
        if re.fullmatch(r"i\d+", t):
            ty: Any = IntT(int(t[1:]))
        elif t == "void":
            ty = VoidT()
        elif t == "ptr":
            raise Unsupported("opaque pointers (LLVM >= 15 IR)")
        elif t in ("float", "double", "x86_fp80"):
            ty = IntT({"float": 32, "double": 64, "x86_fp80": 80}[t])
        elif t == "opaque":
            ty = OpaqueT()
        elif t.startswith("%"):
            ty = NamedT(t, s.mod)
        elif t == "[":
            n = int(s.next())
            s.expect("x")
            el = s.type()
            s.expect("]")
            ty = ArrT(n, el)
        elif t == "{" or (t == "<" and s.peek() == "{"):
            packed = t == "<"
            if packed:
                s.expect("{")
            fs = []
            if not s.accept("}"):
                while True:
                    fs.append(s.type())
                    if s.accept("}"):
                        break
                    s.expect(",")
            if packed:
                s.expect(">")
            ty = StructT(fs, packed)
        elif t == "<":
            raise Unsupported("vector type (IR must be built with -fno-vectorize -fno-slp-vectorize)")
        else:
            raise Unsupported("IR type? " + t + " in " + " ".join(s.t)[:100])
        while True:
            if s.accept("*"):
                ty = PtrT(ty)
            elif s.peek() == "(":
                s.next()
                args = []
                va = False
                if not s.accept(")"):
                    while True:
                        if s.accept("..."):
                            va = True
                        else:
                            args.append(s.type())
                            s.attrs()
                        if s.accept(")"):
                            break
                        s.expect(",")
                ty = FnT(ty, args, va)
            else:
                break
        return ty

    def attrs(s) -> None:
        while True:
            p = s.peek()
            if p in ATTR:
                s.next()
            elif p in ("align", "dereferenceable", "dereferenceable_or_null"):
                s.next()
                if s.accept("("):
                    s.next()
                    s.expect(")")
                else:
                    s.next()
            elif p in ("byval", "sret", "elementtype"):
                s.next()
                s.expect("(")
                s.type()
                s.expect(")")
            else:
                break

    def value(s, ty: Any) -> Any:
        t = s.next()
        if t.startswith("%"):
            return ("reg", t)
        if t.startswith("@"):
            return ("glob", t)
        if re.fullmatch(r"-?\d+", t):
            return ("int", int(t))
        if t in ("true", "false"):
            return ("int", 1 if t == "true" else 0)
        if t == "null":
            return ("null",)
        if t in ("undef", "poison"):
            return ("undef",)
        if t == "zeroinitializer":
            return ("zero",)
        if t.startswith('c"'):
            raw = t[2:-1]
            b = bytearray()
            k = 0
            while k < len(raw):
                if raw[k] == "\\":
                    if raw[k + 1] == "\\":
                        b.append(92)
                        k += 2
                    else:
                        b.append(int(raw[k + 1:k + 3], 16))
                        k += 3
                else:
                    b.append(ord(raw[k]))
                    k += 1
            return ("bytes", bytes(b))
        if t == "getelementptr":
            s.accept("inbounds")
            s.expect("(")
            bt = s.type()
            s.expect(",")
            pt = s.type()
            pv = s.value(pt)
            idx = []
            while s.accept(","):
                s.accept("inrange")
                it = s.type()
                idx.append((it, s.value(it)))
            s.expect(")")
            return ("cgep", bt, pv, idx)
        if t in ("bitcast", "inttoptr", "ptrtoint"):
            s.expect("(")
            ft = s.type()
            v = s.value(ft)
            s.expect("to")
            tt = s.type()
            s.expect(")")
            return ("ccast", t, ft, v, tt)
        if t in ("[", "{") or (t == "<" and s.peek() == "{"):
            close = {"[": "]", "{": "}", "<": "}"}[t]
            if t == "<":
                s.next()
            els = []
            if not s.accept(close):
                while True:
                    et = s.type()
                    els.append((et, s.value(et)))
                    if s.accept(close):
                        break
                    s.expect(",")
            if t == "<":
                s.expect(">")
            return ("agg", els)
        raise Unsupported("IR value? " + t + " in " + " ".join(s.t)[:120])

    def tv(s) -> Tuple[Any, Any]:
        ty = s.type()
        s.attrs()
        return ty, s.value(ty)


class Func:
    def __init__(s, name: str, ret: Any, params: List[Tuple[Any, str]], va: bool, mod: Any):
        s.name = name
        s.ret = ret
        s.params = params
        s.va = va
        s.blocks: Dict[str, List[List[str]]] = {}
        s.order: List[str] = []
        s.mod = mod
        s._ipdom: Optional[Dict[str, Optional[str]]] = None

    def succs(s, lbl: str) -> List[str]:
        t = s.blocks[lbl][-1]
        if t[0] == "br":
            return [x for i, x in enumerate(t) if i > 0 and t[i - 1] == "label"]
        if t[0] == "switch":
            return [x for i, x in enumerate(t) if i > 0 and t[i - 1] == "label"]
        return []

    def ipdom(s) -> Dict[str, Optional[str]]:
        """immediate post-dominators (iterative data-flow on the reverse CFG; a virtual exit
        joins all returning blocks)"""
        if s._ipdom is not None:
            return s._ipdom
        EXIT = "<exit>"
        nodes = list(s.order) + [EXIT]
        succ = {b: (s.succs(b) or [EXIT]) for b in s.order}
        succ[EXIT] = []
        pdom = {b: set(nodes) for b in nodes}
        pdom[EXIT] = {EXIT}
        changed = True
        while changed:
            changed = False
            for b in reversed(s.order):
                new = set.intersection(*[pdom[x] for x in succ[b]]) | {b}
                if new != pdom[b]:
                    pdom[b] = new
                    changed = True
        ip: Dict[str, Optional[str]] = {}
        for b in s.order:
            cands = pdom[b] - {b}
            # the immediate one is the candidate that is post-dominated by all other candidates
            best = None
            for c in cands:
                if all(o in pdom[c] for o in cands):
                    best = c
                    break
            ip[b] = None if best in (None, EXIT) else best
        s._ipdom = ip
        return ip


class Module:
    def __init__(s, path: str):
        s.path = path
        s.types: Dict[str, Any] = {}
        s.globals: Dict[str, Tuple[Any, Any]] = {}
        s.funcs: Dict[str, Func] = {}
        s.decls: Dict[str, str] = {}
        s.dl = ""
        s.triple = ""
        s.parse(open(path).read().split("\n"))

    def parse(s, lines: List[str]) -> None:
        i = 0
        while i < len(lines):
            ln = lines[i]
            i += 1
            if not ln.strip() or ln.startswith(";") or ln.startswith("source_filename") or ln.startswith("attributes") or ln.startswith("!"):
                continue
            if ln.startswith("target triple"):
                s.triple = ln.split('"')[1]
                continue
            if ln.startswith("target datalayout"):
                s.dl = ln.split('"')[1]
                continue
            toks = lex(ln)
            if toks[0].startswith("%") and toks[1] == "=" and toks[2] == "type":
                p = P(toks[3:], s)
                ty = p.type()
                if isinstance(ty, StructT):
                    ty.name = toks[0]
                s.types[toks[0]] = ty
                continue
            if toks[0].startswith("@"):
                p = P(toks[2:], s)
                while p.peek() in ("private", "internal", "unnamed_addr", "local_unnamed_addr", "dso_local", "external", "common", "linkonce_odr", "weak", "hidden"):
                    p.next()
                kind = p.next()
                if kind not in ("global", "constant"):
                    raise Unsupported("IR global? " + ln[:100])
                ty = p.type()
                init = None
                if p.peek() not in (",", None):
                    init = p.value(ty)
                s.globals[toks[0]] = (ty, init)
                continue
            if toks[0] == "declare":
                m = re.search(r"(@[-a-zA-Z$._0-9]+)\(", ln)
                s.decls[m.group(1)] = ln
                continue
            if toks[0] == "define":
                p = P(toks[1:], s)
                while p.peek() in ("dso_local", "internal", "private", "hidden", "linkonce_odr", "weak", "zeroext", "signext", "noundef", "nonnull"):
                    p.next()
                ret = p.type()
                name = p.next()
                p.expect("(")
                params = []
                va = False
                if not p.accept(")"):
                    while True:
                        if p.accept("..."):
                            va = True
                        else:
                            pt = p.type()
                            p.attrs()
                            params.append((pt, p.next()))
                        if p.accept(")"):
                            break
                        p.expect(",")
                f = Func(name, ret, params, va, s)
                cur = str(len(params))
                f.blocks["%" + cur] = []
                f.order.append("%" + cur)
                while True:
                    ln = lines[i]
                    i += 1
                    if ln.startswith("}"):
                        break
                    if not ln.strip():
                        continue
                    m = re.match(r"^([-a-zA-Z$._0-9]+):", ln)
                    if m:
                        cur = m.group(1)
                        f.blocks["%" + cur] = []
                        f.order.append("%" + cur)
                        continue
                    tk = lex(ln)
                    if tk and tk[0] == "switch" and tk[-1] == "[":
                        while True:
                            l2 = lines[i]
                            i += 1
                            tk += lex(l2)
                            if l2.strip() == "]":
                                break
                    if tk:
                        f.blocks["%" + cur].append(tk)
                s.funcs[name] = f
                continue
            raise Unsupported("IR toplevel? " + ln[:100])


# ---------- layout
class Layout:
    def __init__(s, dl: str):
        s.big = dl.startswith("E")

    def size(s, t: Any) -> int:
        if isinstance(t, NamedT):
            return s.size(t.res())
        if isinstance(t, IntT):
            return (t.n + 7) // 8
        if isinstance(t, PtrT):
            return 8
        if isinstance(t, ArrT):
            return t.n * s.size(t.el)
        if isinstance(t, StructT):
            return s.struct(t)[1]
        raise Unsupported("sizeof " + repr(t))

    def align(s, t: Any) -> int:
        if isinstance(t, NamedT):
            return s.align(t.res())
        if isinstance(t, IntT):
            return min(8, 1 << ((t.n + 7) // 8 - 1).bit_length())
        if isinstance(t, PtrT):
            return 8
        if isinstance(t, ArrT):
            return s.align(t.el)
        if isinstance(t, StructT):
            return 1 if t.packed else max([s.align(f) for f in t.fields] or [1])
        raise Unsupported("alignof " + repr(t))

    def struct(s, t: StructT) -> Tuple[List[int], int]:
        off = 0
        offs = []
        for f in t.fields:
            a = 1 if t.packed else s.align(f)
            off = (off + a - 1) // a * a
            offs.append(off)
            off += s.size(f)
        a = s.align(t)
        off = (off + a - 1) // a * a
        return offs, off


# ---------- machine
class Ptr:
    __slots__ = ("r", "o")

    def __init__(s, r: Any, o: Any):
        s.r = r
        s.o = o

    def __repr__(s) -> str:
        return f"<{s.r}+{s.o}>"

    def __eq__(s, o: Any) -> bool:
        return isinstance(o, Ptr) and s.r == o.r and (s.o is o.o or (not isinstance(s.o, tuple) and not isinstance(o.o, tuple) and s.o == o.o))

    def __hash__(s) -> int:
        return hash((s.r, s.o if not isinstance(s.o, tuple) else 0))


NULL = Ptr(None, 0)


def mask(n: int) -> int:
    return (1 << n) - 1


def is_sym(v: Any) -> bool:
    return isinstance(v, z3.ExprRef)


def bv(v: Any, n: int) -> Any:
    return v if is_sym(v) else z3.BitVecVal(v, n)


def simp(v: Any) -> Any:
    if is_sym(v):
        v = z3.simplify(v)
        if z3.is_bv_value(v):
            return v.as_long()
    return v


class Poison:
    """LLVM poison (shift amount >= width, nsw/nuw overflow): not UB by itself. It propagates
    through arithmetic, casts and the chosen arm of a select; UB is raised only when it reaches a
    branch / switch condition, an address computation, a call argument, a return value or memory."""

    def __init__(s, why: str):
        s.why = why

    def __repr__(s) -> str:
        return f"poison({s.why})"


class PtrIte:
    def __init__(s, c: Any, a: Any, b: Any):
        s.c, s.a, s.b = c, a, b


class Machine:
    MAX_STEPS = 4_000_000
    ARM_LIMIT = 400

    def __init__(s, mods: List[Module]):
        s.mods = mods
        s.lay = Layout(mods[0].dl)
        for m in mods:
            if m.dl != mods[0].dl:
                raise Unsupported("modules with different datalayouts")
        s.mem: Dict[str, List[Any]] = {}
        s.readonly: set = set()
        s.nreg = 0
        s.steps = 0
        s.funcs: Dict[str, Func] = {}
        s.frames: List[Any] = []
        s.valists: Dict[str, Any] = {}
        s.json: Dict[str, List[Any]] = {}
        s.merges = 0
        s.forks = 0
        s.undef_n = 0
        s.undef_reads: List[str] = []
        s.ub_notes: List[str] = []
        s.in_arm = 0
        for m in mods:
            for n, f in m.funcs.items():
                if n in s.funcs and not n.startswith("@."):
                    # static inline helpers may be emitted per module: keep the first
                    continue
                s.funcs[n] = f
        s.gaddr: Dict[Tuple[int, str], str] = {}
        for mi, m in enumerate(mods):
            for g, (ty, init) in m.globals.items():
                if init is None:
                    continue
                r = s.new_region(s.lay.size(ty), f"g{mi}{g}", fill=0)
                s.gaddr[(mi, g)] = r
        for mi, m in enumerate(mods):
            for g, (ty, init) in m.globals.items():
                if init is not None:
                    s.store_const(Ptr(s.gaddr[(mi, g)], 0), ty, init, m)

    def new_region(s, size: int, name: str, fill: Any = 0) -> str:
        s.nreg += 1
        r = f"{name}#{s.nreg}"
        s.mem[r] = [fill] * size
        return r

    def modidx(s, m: Module) -> int:
        return s.mods.index(m)

    def glob(s, name: str, m: Module) -> Ptr:
        k = (s.modidx(m), name)
        if k in s.gaddr:
            return Ptr(s.gaddr[k], 0)
        if not name.startswith("@."):
            for (mi, g), r in s.gaddr.items():
                if g == name:
                    return Ptr(r, 0)
        if name in s.funcs or any(name in mm.decls for mm in s.mods):
            return Ptr("fn:" + name, 0)
        raise Unsupported("unresolved global " + name)

    def store_const(s, p: Ptr, ty: Any, v: Any, m: Module) -> None:
        if isinstance(ty, NamedT):
            ty = ty.res()
        k = v[0]
        if k in ("zero", "undef"):
            return
        if k == "bytes":
            for i, b in enumerate(v[1]):
                s.mem[p.r][p.o + i] = b
            return
        if k == "agg":
            if isinstance(ty, ArrT):
                es = s.lay.size(ty.el)
                for i, (et, ev) in enumerate(v[1]):
                    s.store_const(Ptr(p.r, p.o + i * es), et, ev, m)
            else:
                offs, _ = s.lay.struct(ty)
                for (et, ev), o in zip(v[1], offs):
                    s.store_const(Ptr(p.r, p.o + o), et, ev, m)
            return
        s.store(p, ty, s.const(ty, v, m))

    def const(s, ty: Any, v: Any, m: Module) -> Any:
        k = v[0]
        if k == "int":
            return v[1] & mask(ty.n) if isinstance(ty, IntT) else v[1]
        if k == "null":
            return NULL
        if k == "glob":
            return s.glob(v[1], m)
        if k in ("undef", "zero"):
            return 0 if isinstance(ty, IntT) else NULL
        if k == "cgep":
            base = s.const(None, v[2], m)
            return s.gep(v[1], base, [(it, s.const(it, iv, m)) for it, iv in v[3]])
        if k == "ccast":
            if v[1] != "bitcast":
                raise Unsupported("constant " + v[1])
            return s.const(v[2], v[3], m)
        raise Unsupported("IR constant " + repr(v)[:80])

    # ---- memory
    def chk(s, p: Any, n: int) -> None:
        if isinstance(p, Poison):
            raise UB(f"access through a poison address ({p.why})")
        if not isinstance(p, Ptr):
            raise Unsupported(f"dereference of {type(p).__name__}")
        if p.r is None:
            raise OOB("null pointer dereference")
        if str(p.r).startswith("fn:"):
            raise OOB(f"data access through function pointer {p}")
        if isinstance(p.o, tuple):
            raise Unsupported("dereference of a pointer with symbolic offset")
        if p.r not in s.mem:
            raise OOB(f"access to dead region {p.r}")
        if p.o < 0 or p.o + n > len(s.mem[p.r]):
            raise OOB(f"access at {p.r}+{p.o} size {n} outside region of {len(s.mem[p.r])} bytes")

    def _cell(s, r: str, o: int) -> Any:
        c = s.mem[r][o]
        if c is None:  # uninitialised stack / undef: a fresh unconstrained byte
            s.undef_n += 1
            c = z3.BitVec(f"undef!{s.undef_n}", 8)
            s.mem[r][o] = c
            s.undef_reads.append(f"{r}+{o}")
        return c

    def load(s, p: Ptr, ty: Any) -> Any:
        if isinstance(ty, NamedT):
            ty = ty.res()
        n = s.lay.size(ty)
        s.chk(p, n)
        cells = [s._cell(p.r, p.o + i) for i in range(n)]
        if isinstance(ty, PtrT):
            c0 = cells[0]
            if isinstance(c0, tuple):
                if all(isinstance(c, tuple) and c[0] is c0[0] and c[1] == i for i, c in enumerate(cells)):
                    return c0[0]
                raise Unsupported("torn pointer load")
            if all((not is_sym(c)) and c == 0 for c in cells):
                return NULL
            raise Unsupported("pointer loaded from integer data")
        if not isinstance(ty, IntT):
            raise Unsupported("load of " + repr(ty))
        if any(isinstance(c, tuple) for c in cells):
            raise Unsupported("integer loaded from pointer bytes")
        if s.lay.big:
            cells = cells[::-1]
        if not any(is_sym(c) for c in cells):
            v = 0
            for i, c in enumerate(cells):
                v |= c << (8 * i)
            return v & mask(ty.n)
        e = z3.Concat(*[bv(c, 8) for c in cells[::-1]]) if n > 1 else bv(cells[0], 8)
        if ty.n < 8 * n:
            e = z3.Extract(ty.n - 1, 0, e)
        return simp(e)

    def store(s, p: Ptr, ty: Any, v: Any) -> None:
        if isinstance(v, Poison):
            raise UB(f"poison stored to memory ({v.why})")
        if isinstance(p, Poison):
            raise UB(f"store through a poison address ({p.why})")
        if isinstance(ty, NamedT):
            ty = ty.res()
        n = s.lay.size(ty)
        s.chk(p, n)
        if p.r in s.readonly:
            raise OOB(f"store to read-only region {p.r}")
        if isinstance(ty, PtrT):
            if isinstance(v, PtrIte):
                raise Unsupported("store of a pointer-valued ite")
            for i in range(8):
                s.mem[p.r][p.o + i] = (v, i)
            return
        if not isinstance(ty, IntT):
            raise Unsupported("store of " + repr(ty))
        if is_sym(v):
            if ty.n < 8 * n:
                v = z3.ZeroExt(8 * n - ty.n, v)
            cells = [simp(z3.Extract(8 * i + 7, 8 * i, v)) for i in range(n)]
        else:
            cells = [(v >> (8 * i)) & 255 for i in range(n)]
        if s.lay.big:
            cells = cells[::-1]
        s.mem[p.r][p.o:p.o + n] = cells

    def gep(s, bt: Any, base: Any, idx: List[Tuple[Any, Any]]) -> Any:
        for _, iv in idx:
            if isinstance(iv, Poison):
                return iv  # the address is poison; UB only if it is dereferenced
        if isinstance(base, Poison):
            return base
        if isinstance(base, PtrIte):
            raise Unsupported("gep on pointer-valued ite")
        ty = bt
        off = 0
        for k, (it, iv) in enumerate(idx):
            if is_sym(iv):
                if base.r in s.json:
                    return Ptr(base.r, ("sym", iv))
                iv = pysym.ENGINE.concretize(iv, "gep index")
                s.forks += 1
                if iv < 0:
                    iv += 1 << it.n
            if isinstance(it, IntT) and iv >> (it.n - 1):
                iv -= 1 << it.n
            if k == 0:
                off += iv * s.lay.size(ty)
                continue
            if isinstance(ty, NamedT):
                ty = ty.res()
            if isinstance(ty, StructT):
                offs, _ = s.lay.struct(ty)
                off += offs[iv]
                ty = ty.fields[iv]
            elif isinstance(ty, ArrT):
                off += iv * s.lay.size(ty.el)
                ty = ty.el
            else:
                raise Unsupported("gep into " + repr(ty))
        if isinstance(base.o, tuple):
            if off == 0:
                return base
            raise Unsupported("gep on symbolic-offset pointer")
        return Ptr(base.r, base.o + off)

    # ---- calls
    def cstr(s, p: Ptr) -> str:
        b = bytearray()
        q = p.o
        while True:
            s.chk(Ptr(p.r, q), 1)
            c = s.mem[p.r][q]
            if is_sym(c) or isinstance(c, tuple) or c is None:
                raise Unsupported("symbolic C string")
            if c == 0:
                break
            b.append(c)
            q += 1
        return b.decode("latin-1")

    def call(s, fname: str, args: List[Any], arg_types: Optional[List[Any]] = None) -> Any:
        if fname.startswith("@llvm.") and any(isinstance(a, Poison) for a in args):
            bad = next(a for a in args if isinstance(a, Poison))
            if fname.startswith(("@llvm.mem", "@llvm.va_")):
                raise UB(f"poison passed to {fname} ({bad.why})")
            return bad
        if fname.startswith("@llvm.memcpy") or fname.startswith("@llvm.memmove") or fname in ("@memcpy", "@memmove"):
            d, sp, n = args[0], args[1], args[2]
            if is_sym(n):
                raise Unsupported("symbolic memcpy length")
            s.chk(d, n)
            s.chk(sp, n)
            s.mem[d.r][d.o:d.o + n] = [s._cell(sp.r, sp.o + i) for i in range(n)]
            return d if not fname.startswith("@llvm.") else None
        if fname.startswith("@llvm.memset") or fname == "@memset":
            d, b, n = args[0], args[1], args[2]
            if is_sym(n):
                raise Unsupported("symbolic memset length")
            s.chk(d, n)
            if not is_sym(b):
                b &= 255
            else:
                b = simp(z3.Extract(7, 0, b))
            s.mem[d.r][d.o:d.o + n] = [b] * n
            return d if not fname.startswith("@llvm.") else None
        if fname.startswith("@llvm.lifetime") or fname.startswith("@llvm.dbg") or fname.startswith("@llvm.assume") or fname.startswith("@llvm.experimental.noalias"):
            return None
        if fname.startswith("@llvm.fshl") or fname.startswith("@llvm.fshr"):
            n = int(fname.split(".i")[-1])
            a, b, c = args
            if is_sym(c):
                raise Unsupported("symbolic funnel shift amount")
            c %= n
            if is_sym(a) or is_sym(b):
                cc = z3.Concat(bv(a, n), bv(b, n))
                r = z3.Extract(2 * n - 1, n, cc << c) if "fshl" in fname else z3.Extract(n - 1, 0, z3.LShR(cc, c))
                return simp(r)
            cc = (a << n) | b
            return ((cc << c) >> n) & mask(n) if "fshl" in fname else (cc >> c) & mask(n)
        for mm in ("smin", "smax", "umin", "umax"):
            if fname.startswith("@llvm." + mm):
                n = int(fname.split(".i")[-1])
                a, b = args
                if is_sym(a) or is_sym(b):
                    A, B = bv(a, n), bv(b, n)
                    cnd = {"smin": A < B, "smax": A > B, "umin": z3.ULT(A, B), "umax": z3.UGT(A, B)}[mm]
                    return simp(z3.If(cnd, A, B))
                sg = lambda x: x - (1 << n) if x >> (n - 1) else x
                if mm[0] == "s":
                    return (min if mm == "smin" else max)(a, b, key=sg)
                return (min if mm == "umin" else max)(a, b)
        if fname.startswith("@llvm.bswap"):
            n = int(fname.split(".i")[-1])
            a = args[0]
            if is_sym(a):
                return simp(z3.Concat(*[z3.Extract(8 * i + 7, 8 * i, a) for i in range(n // 8)]))
            return int.from_bytes(a.to_bytes(n // 8, "little"), "big")
        if fname.startswith("@llvm.abs"):
            n = int(fname.split(".i")[-1])
            a = bv(args[0], n)
            return simp(z3.If(a < 0, -a, a))
        if fname == "@llvm.va_start":
            s.valists[args[0].r] = s.frames[-1]
            return None
        if fname in ("@llvm.va_end", "@llvm.va_copy"):
            if fname == "@llvm.va_copy":
                s.valists[args[0].r] = s.valists[args[1].r]
            return None
        if fname == "@vsprintf":
            return s.vsprintf(*args)
        if fname == "@vsnprintf":
            lim = args[1]
            if z3.is_bv_value(lim):
                lim = lim.as_long()
            if not isinstance(lim, int):
                raise Unsupported("vsnprintf with a symbolic size")
            return s.vsprintf(args[0], args[2], args[3], limit=lim)
        if fname not in s.funcs:
            raise Unsupported("call to external " + fname)
        if s.in_arm:
            raise NoMerge()
        f = s.funcs[fname]
        regs = {pn: a for (pt, pn), a in zip(f.params, args)}
        va = None
        if f.va:
            va = list(zip((arg_types or [])[len(f.params):], args[len(f.params):]))
        s.frames.append(va)
        allocas: List[str] = []
        try:
            return s.run(f, f.mod, regs, allocas)
        finally:
            s.frames.pop()
            for r in allocas:  # stack memory dies with the frame
                s.mem.pop(r, None)

    def vsprintf(s, dst: Ptr, fmt: Ptr, ap: Ptr, limit: Optional[int] = None) -> Any:
        """appends *segments* to the JSON buffer of region dst.r: ('lit', text) |
        ('num', conv, want_bits, arg_bits, term) | ('choice', cond, textA, textB).
        limit (vsnprintf): at most limit-1 characters of this call are stored.  A call made of literals only is cut
        exactly; a call with numeric conversions must fit even with 20-digit numbers, otherwise the cut would depend on
        values (unsupported)."""
        if dst.r not in s.json:
            raise Unsupported("vsprintf into a buffer that is not the registered JSON buffer")
        va = list(s.valists[ap.r])
        txt = s.cstr(fmt)
        out_seg = s.json[dst.r]
        seg: List[Any] = []
        pos = 0
        for mm in re.finditer(r"%(ll|l|h|hh)?([dusxc%])", txt):
            if mm.start() > pos:
                seg.append(("lit", txt[pos:mm.start()]))
            pos = mm.end()
            conv = mm.group(2)
            if conv == "%":
                seg.append(("lit", "%"))
                continue
            if not va:
                raise UB("vsprintf: more conversions than arguments")
            ty, a = va.pop(0)
            if conv == "s":
                if isinstance(a, PtrIte):
                    seg.append(("choice", a.c, s.cstr(a.a), s.cstr(a.b)))
                else:
                    seg.append(("lit", s.cstr(a)))
            elif conv in "dux":
                want = 64 if mm.group(1) in ("l", "ll") else 32
                seg.append(("num", conv, want, ty.n if isinstance(ty, IntT) else 64, a))
            else:
                raise Unsupported("vsprintf conversion %" + conv)
        if pos < len(txt):
            seg.append(("lit", txt[pos:]))
        if limit is not None:
            worst = 0
            for g in seg:
                worst += len(g[1]) if g[0] == "lit" else (max(len(g[2]), len(g[3])) if g[0] == "choice" else 21)
            if worst >= limit:
                if all(g[0] == "lit" for g in seg):
                    seg = [("lit", "".join(g[1] for g in seg)[:max(limit - 1, 0)])]
                else:
                    raise Unsupported(f"vsnprintf: a call with conversions may exceed its size {limit}")
        out_seg.extend(seg)
        s.undef_n += 1
        return z3.BitVec(f"vsprintf_len!{s.undef_n}", 32)

    # ---- execution
    def run(s, f: Func, m: Module, regs: Dict[str, Any], allocas: List[str]) -> Any:
        cur = f.order[0]
        prev: Optional[str] = None
        skip = 0
        while True:
            for ins in f.blocks[cur][skip:]:
                r = s.step(f, m, regs, ins, prev, cur, allocas)
                if r is None:
                    continue
                if r[0] == "br":
                    prev, cur = cur, r[1]
                    skip = 0
                    break
                if r[0] == "brskip":
                    prev, cur, skip = r[3], r[1], r[2]
                    break
                if r[0] == "ret":
                    return r[1]
            else:
                raise Unsupported("fell off a basic block")

    def op(s, regs: Dict[str, Any], m: Module, ty: Any, v: Any) -> Any:
        if v[0] == "reg":
            try:
                return regs[v[1]]
            except KeyError:
                raise Unsupported(f"use of undefined register {v[1]}")
        return s.const(ty, v, m)

    def step(s, f: Func, m: Module, regs: Dict[str, Any], t: List[str], prev: Optional[str], cur: str, allocas: List[str]) -> Any:
        s.steps += 1
        if s.steps > s.MAX_STEPS:
            raise Inconclusive("IR step budget exceeded")
        p = P(t, m)
        dst = None
        if len(t) > 1 and t[1] == "=":
            dst = p.next()
            p.next()
        o = p.next()
        if o in ("tail", "musttail", "notail"):
            o = p.next()
        if o == "alloca":
            ty = p.type()
            n = 1
            if p.accept(",") and p.peek() != "align":
                it = p.type()
                n = s.op(regs, m, it, p.value(it))
                if is_sym(n):
                    raise Unsupported("symbolic alloca size")
            r = s.new_region(s.lay.size(ty) * n, f"{f.name}:{dst}", fill=None)
            allocas.append(r)
            regs[dst] = Ptr(r, 0)
            return None
        if o == "load":
            p.accept("volatile")
            ty = p.type()
            p.expect(",")
            pt, pv = p.tv()
            regs[dst] = s.load(s.op(regs, m, pt, pv), ty)
            return None
        if o == "store":
            p.accept("volatile")
            ty, v = p.tv()
            p.expect(",")
            pt, pv = p.tv()
            s.store(s.op(regs, m, pt, pv), ty, s.op(regs, m, ty, v))
            return None
        if o == "getelementptr":
            p.accept("inbounds")
            bt = p.type()
            p.expect(",")
            pt, pv = p.tv()
            idx = []
            while p.accept(","):
                it, iv = p.tv()
                idx.append((it, s.op(regs, m, it, iv)))
            regs[dst] = s.gep(bt, s.op(regs, m, pt, pv), idx)
            return None
        if o in ("bitcast", "zext", "sext", "trunc", "ptrtoint", "inttoptr", "freeze"):
            if o == "freeze":
                ft, v = p.tv()
                regs[dst] = s.op(regs, m, ft, v)
                return None
            ft, v = p.tv()
            p.expect("to")
            tt = p.type()
            x = s.op(regs, m, ft, v)
            if isinstance(x, Poison):
                regs[dst] = x
                return None
            if o == "bitcast":
                regs[dst] = x
                return None
            if o in ("ptrtoint", "inttoptr"):
                raise Unsupported(o)
            if is_sym(x):
                x = z3.ZeroExt(tt.n - ft.n, x) if o == "zext" else z3.SignExt(tt.n - ft.n, x) if o == "sext" else z3.Extract(tt.n - 1, 0, x)
                regs[dst] = simp(x)
                return None
            if o == "sext" and x >> (ft.n - 1):
                x |= mask(tt.n) ^ mask(ft.n)
            regs[dst] = x & mask(tt.n)
            return None
        if o in ("add", "sub", "mul", "and", "or", "xor", "shl", "lshr", "ashr", "udiv", "sdiv", "urem", "srem"):
            flags = []
            while p.peek() in ("nsw", "nuw", "exact"):
                flags.append(p.next())
            ty, a = p.tv()
            p.expect(",")
            b = p.value(ty)
            a = s.op(regs, m, ty, a)
            b = s.op(regs, m, ty, b)
            n = ty.n
            if isinstance(a, Ptr) or isinstance(b, Ptr):
                raise Unsupported("integer arithmetic on pointers")
            if isinstance(a, Poison) or isinstance(b, Poison):
                regs[dst] = a if isinstance(a, Poison) else b
                return None
            if o in ("shl", "lshr", "ashr"):
                if not is_sym(b):
                    if b >= n:
                        regs[dst] = Poison(f"{o} by {b} >= width {n} in {f.name}")
                        return None
                else:
                    s.ub_notes.append(f"{f.name}: {o} with a symbolic amount (not checked against the width)")
            if is_sym(a) or is_sym(b):
                A, B = bv(a, n), bv(b, n)
                if o in ("udiv", "urem", "sdiv", "srem") and is_sym(b):
                    raise Unsupported("division by a symbolic value")
                r = {"add": lambda: A + B, "sub": lambda: A - B, "mul": lambda: A * B, "and": lambda: A & B, "or": lambda: A | B, "xor": lambda: A ^ B, "shl": lambda: A << B,
                     "lshr": lambda: z3.LShR(A, B), "ashr": lambda: A >> B, "udiv": lambda: z3.UDiv(A, B), "urem": lambda: z3.URem(A, B), "sdiv": lambda: A / B, "srem": lambda: z3.SRem(A, B)}[o]()
                regs[dst] = simp(r)
                return None
            sa = a - (1 << n) if a >> (n - 1) else a
            sb = b - (1 << n) if b >> (n - 1) else b
            if o in ("udiv", "urem", "sdiv", "srem") and b == 0:
                raise UB(f"division by zero in {f.name}")
            if o == "add":
                r = a + b
                if "nuw" in flags and r > mask(n):
                    regs[dst] = Poison(f"add nuw overflows in {f.name}")
                    return None
                if "nsw" in flags and not (-(1 << (n - 1)) <= sa + sb < (1 << (n - 1))):
                    regs[dst] = Poison(f"add nsw overflows in {f.name}")
                    return None
            elif o == "sub":
                r = a - b
                if "nuw" in flags and a < b:
                    regs[dst] = Poison(f"sub nuw overflows in {f.name}")
                    return None
                if "nsw" in flags and not (-(1 << (n - 1)) <= sa - sb < (1 << (n - 1))):
                    regs[dst] = Poison(f"sub nsw overflows in {f.name}")
                    return None
            elif o == "mul":
                r = a * b
                if "nsw" in flags and not (-(1 << (n - 1)) <= sa * sb < (1 << (n - 1))):
                    regs[dst] = Poison(f"mul nsw overflows in {f.name}")
                    return None
            elif o == "shl":
                r = a << b
                if "nuw" in flags and r > mask(n):
                    regs[dst] = Poison(f"shl nuw overflows in {f.name}")
                    return None
            else:
                r = {"and": lambda: a & b, "or": lambda: a | b, "xor": lambda: a ^ b, "lshr": lambda: a >> b, "ashr": lambda: sa >> b, "udiv": lambda: a // b, "urem": lambda: a % b,
                     "sdiv": lambda: int(sa / sb) if sb else 0, "srem": lambda: sa - sb * int(sa / sb) if sb else 0}[o]()
            regs[dst] = r & mask(n)
            return None
        if o == "icmp":
            pred = p.next()
            ty, a = p.tv()
            p.expect(",")
            b = p.value(ty)
            a = s.op(regs, m, ty, a)
            b = s.op(regs, m, ty, b)
            if isinstance(a, Poison) or isinstance(b, Poison):
                regs[dst] = a if isinstance(a, Poison) else b
                return None
            if isinstance(a, (Ptr, PtrIte)) or isinstance(b, (Ptr, PtrIte)):
                if isinstance(a, PtrIte) or isinstance(b, PtrIte):
                    raise Unsupported("comparison of pointer-valued ite")
                if pred not in ("eq", "ne"):
                    raise Unsupported("ordered pointer comparison")
                eq = a == b
                regs[dst] = int(eq if pred == "eq" else not eq)
                return None
            n = ty.n if isinstance(ty, IntT) else 64
            if is_sym(a) or is_sym(b):
                A, B = bv(a, n), bv(b, n)
                r = {"eq": A == B, "ne": A != B, "ult": z3.ULT(A, B), "ule": z3.ULE(A, B), "ugt": z3.UGT(A, B), "uge": z3.UGE(A, B), "slt": A < B, "sle": A <= B, "sgt": A > B, "sge": A >= B}[pred]
                regs[dst] = simp(z3.If(r, z3.BitVecVal(1, 1), z3.BitVecVal(0, 1)))
                return None
            sg = lambda x: x - (1 << n) if x >> (n - 1) else x
            r2 = {"eq": a == b, "ne": a != b, "ult": a < b, "ule": a <= b, "ugt": a > b, "uge": a >= b, "slt": sg(a) < sg(b), "sle": sg(a) <= sg(b), "sgt": sg(a) > sg(b), "sge": sg(a) >= sg(b)}[pred]
            regs[dst] = int(r2)
            return None
        if o == "select":
            ct, c = p.tv()
            p.expect(",")
            ty, a = p.tv()
            p.expect(",")
            ty2, b = p.tv()
            c = s.op(regs, m, ct, c)
            a = s.op(regs, m, ty, a)
            b = s.op(regs, m, ty2, b)
            if isinstance(c, Poison):
                raise UB(f"select on poison ({c.why})")
            if is_sym(c) and (isinstance(a, Poison) or isinstance(b, Poison)):
                raise Unsupported("select with a symbolic condition and a poison arm")
            if is_sym(c):
                if isinstance(a, (Ptr, PtrIte)) or isinstance(b, (Ptr, PtrIte)):
                    regs[dst] = a if (isinstance(a, Ptr) and isinstance(b, Ptr) and a == b) else PtrIte(c == 1, a, b)
                else:
                    regs[dst] = simp(z3.If(c == 1, bv(a, ty.n), bv(b, ty.n)))
            else:
                regs[dst] = a if c else b
            return None
        if o == "phi":
            ty = p.type()
            val = None
            found = False
            while True:
                p.expect("[")
                v = p.value(ty)
                p.expect(",")
                lab = p.next()
                p.expect("]")
                if lab == prev and not found:
                    val = s.op(regs, m, ty, v)
                    found = True
                if not p.accept(","):
                    break
            if not found:
                raise Unsupported(f"phi without an entry for predecessor {prev}")
            regs["phi:" + dst] = val
            # phis of one block read their operands simultaneously: commit when the run of phis ends
            blk = f.blocks[cur]
            idx = next(i for i, x in enumerate(blk) if x is t)
            if idx + 1 >= len(blk) or blk[idx + 1][2:3] != ["phi"]:
                for k in [k for k in regs if isinstance(k, str) and k.startswith("phi:")]:
                    regs[k[4:]] = regs.pop(k)
            return None
        if o == "br":
            if p.peek() == "label":
                p.next()
                return ("br", p.next())
            ct, c = p.tv()
            c = s.op(regs, m, ct, c)
            if isinstance(c, Poison):
                raise UB(f"branch on poison ({c.why}) in {f.name}")
            p.expect(",")
            p.expect("label")
            a = p.next()
            p.expect(",")
            p.expect("label")
            b = p.next()
            if is_sym(c):
                return s.symbolic_branch(f, m, regs, c, a, b, cur, allocas)
            return ("br", a if c else b)
        if o == "switch":
            ty, v = p.tv()
            v = s.op(regs, m, ty, v)
            if isinstance(v, Poison):
                raise UB(f"switch on poison ({v.why}) in {f.name}")
            p.expect(",")
            p.expect("label")
            dflt = p.next()
            p.expect("[")
            if is_sym(v):
                if s.in_arm:
                    raise NoMerge()
                v = pysym.ENGINE.concretize(v, "switch operand") & mask(ty.n)
                s.forks += 1
            tgt = dflt
            while not p.accept("]"):
                ct = p.type()
                cv = p.value(ct)
                p.expect(",")
                p.expect("label")
                lab = p.next()
                if (cv[1] & mask(ty.n)) == v:
                    tgt = lab
            return ("br", tgt)
        if o == "ret":
            if s.in_arm:
                raise NoMerge()
            ty = p.type()
            if isinstance(ty, VoidT):
                return ("ret", None)
            return ("ret", s.op(regs, m, ty, p.value(ty)))
        if o == "call":
            while p.peek() in ("fastcc", "ccc"):
                p.next()
            p.attrs()
            rt = p.type()
            if isinstance(rt, FnT):
                rt = rt.ret
            callee = p.next()
            p.expect("(")
            args = []
            ats = []
            if not p.accept(")"):
                while True:
                    at, av = p.tv()
                    args.append(s.op(regs, m, at, av))
                    ats.append(at)
                    if p.accept(")"):
                        break
                    p.expect(",")
            if callee.startswith("%"):
                fp = regs[callee]
                if isinstance(fp, PtrIte):
                    raise Unsupported("indirect call through pointer-valued ite")
                if fp.r is None:
                    raise OOB(f"call through null function pointer in {f.name}")
                if not str(fp.r).startswith("fn:"):
                    raise OOB(f"call through data pointer {fp} in {f.name}")
                callee = fp.r[3:]
            if any(isinstance(a, Poison) for a in args) and not callee.startswith("@llvm."):
                bad = next(a for a in args if isinstance(a, Poison))
                raise UB(f"poison passed to {callee} ({bad.why})")
            r = s.call(callee, args, ats)
            if dst:
                regs[dst] = r
            return None
        if o == "unreachable":
            raise UB(f"unreachable executed in {f.name}")
        raise Unsupported("IR instruction " + " ".join(t)[:100])

    def symbolic_branch(s, f: Func, m: Module, regs: Dict[str, Any], c: Any, a: str, b: str, cur: str, allocas: List[str]) -> Any:
        cond = c == 1
        join = f.ipdom().get(cur)
        if join is not None:
            try:
                return s._merge(f, m, regs, cond, a, b, cur, join, allocas)
            except NoMerge:
                pass
        if s.in_arm:
            raise NoMerge()
        s.forks += 1
        return ("br", a if pysym.ENGINE.branch(cond) else b)

    def _merge(s, f: Func, m: Module, regs: Dict[str, Any], cond: Any, a: str, b: str, cur: str, join: str, allocas: List[str]) -> Any:
        base_mem = {r: list(v) for r, v in s.mem.items()}
        base_regs = dict(regs)
        json0 = {k: len(v) for k, v in s.json.items()}
        results = []
        s.in_arm += 1
        try:
            for start in (a, b):
                s.mem = {r: list(v) for r, v in base_mem.items()}
                lregs = dict(base_regs)
                curb, prevb, skip = start, cur, 0
                n = 0
                while curb != join:
                    nxt = None
                    for ins in f.blocks[curb][skip:]:
                        n += 1
                        if n > s.ARM_LIMIT:
                            raise NoMerge()
                        r = s.step(f, m, lregs, ins, prevb, curb, allocas)
                        if r is None:
                            continue
                        if r[0] == "br":
                            nxt = (curb, r[1], 0)
                        elif r[0] == "brskip":  # a nested merge: continue after the phis of its join
                            nxt = (r[3], r[1], r[2])
                        else:
                            raise NoMerge()
                        break
                    if nxt is None:
                        raise NoMerge()
                    prevb, curb, skip = nxt
                    if curb == join and skip:
                        raise NoMerge()  # the nested join is our join: its phis were consumed
                if any(len(v) != json0.get(k, 0) for k, v in s.json.items()):
                    raise NoMerge()
                results.append((s.mem, lregs, prevb))
        except (NoMerge, OOB, UB):
            s.mem = base_mem
            for k in s.json:
                del s.json[k][json0.get(k, 0):]
            raise NoMerge()
        finally:
            s.in_arm -= 1
        (ma, ra, pa), (mb, rb, pb) = results
        merged: Dict[str, List[Any]] = {}
        for r in set(ma) | set(mb):
            if r not in ma or r not in mb:
                continue
            la, lb = ma[r], mb[r]
            out = []
            for x, y in zip(la, lb):
                if x is y or (not is_sym(x) and not is_sym(y) and not isinstance(x, tuple) and not isinstance(y, tuple) and x == y):
                    out.append(x)
                elif isinstance(x, tuple) or isinstance(y, tuple):
                    if isinstance(x, tuple) and isinstance(y, tuple) and x[0] == y[0] and x[1] == y[1]:
                        out.append(x)
                    else:
                        s.mem = base_mem
                        raise NoMerge()
                else:
                    if x is None or y is None:
                        s.undef_n += 1
                        fresh = z3.BitVec(f"undef!{s.undef_n}", 8)
                        x = fresh if x is None else x
                        y = fresh if y is None else y
                    out.append(simp(z3.If(cond, bv(x, 8), bv(y, 8))))
            merged[r] = out
        s.mem = merged
        s.merges += 1
        # registers defined in the arms and live after the join go through its phis
        phis = [ins for ins in f.blocks[join] if ins[2:3] == ["phi"]]
        regs.clear()
        regs.update(base_regs)
        # non-phi registers defined in both arms with equal values stay available
        for k in ra:
            if k in rb and k not in base_regs:
                x, y = ra[k], rb[k]
                if isinstance(x, Ptr) and isinstance(y, Ptr) and x == y:
                    regs[k] = x
                elif not isinstance(x, (Ptr, PtrIte)) and not isinstance(y, (Ptr, PtrIte)) and not isinstance(x, tuple):
                    if not is_sym(x) and not is_sym(y) and x == y:
                        regs[k] = x
        if phis:
            vals = []
            for lr, pv in ((ra, pa), (rb, pb)):
                d = {}
                tmp = dict(lr)
                for ins in phis:
                    s.steps -= 1
                    s.step(f, m, tmp, ins, pv, join, allocas)
                for ins in phis:
                    d[ins[0]] = tmp[ins[0]]
                vals.append(d)
            for ins in phis:
                x, y = vals[0][ins[0]], vals[1][ins[0]]
                if isinstance(x, (Ptr, PtrIte)) or isinstance(y, (Ptr, PtrIte)):
                    regs[ins[0]] = x if (isinstance(x, Ptr) and isinstance(y, Ptr) and x == y) else PtrIte(cond, x, y)
                elif isinstance(x, Poison) or isinstance(y, Poison):
                    raise Unsupported("merge of a poison value at a join")
                elif not is_sym(x) and not is_sym(y) and x == y:
                    regs[ins[0]] = x
                else:
                    n = int(ins[3][1:]) if re.fullmatch(r"i\d+", ins[3]) else None
                    if n is None:
                        raise Unsupported("phi merge of non-integer type " + ins[3])
                    regs[ins[0]] = simp(z3.If(cond, bv(x, n), bv(y, n)))
            return ("brskip", join, len(phis), cur)
        return ("brskip", join, 0, cur)
