"""Solver-based checking of hit9/bitproto: shared library for the checks under /verif."""
