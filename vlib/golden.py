"""Ties the reference encoder (vlib.schema.spec_*) and the Python runtime to upstream ground
truth: the four golden sha256 digests pinned in tests/test_encoding/test_encoding.py.  For each
of those cases the upstream py/main.py runs natively against freshly generated code; its
output must hash to the golden digest, and the same message values (captured through
to_dict()) pushed through MY reference encoder must hash to it too."""
from __future__ import annotations

import hashlib
import json
import os
import re
import subprocess
from typing import Any, Dict, List, Tuple

from .common import REPO, VENV_PY, Scratch
from .compile import compile_cli, load_plain_compiler
from .schema import Alias, Enum, Field, Message, Proto, TArray, TBase, TRef, layout, spec_encode

CASES_DIR = os.path.join(REPO, "tests", "test_encoding", "encoding-cases")


def golden_digests() -> Dict[str, str]:
    src = open(os.path.join(REPO, "tests", "test_encoding", "test_encoding.py")).read()
    out = {}
    for m in re.finditer(r'_TestCase\(\s*"([\w-]+)",(?:[^()]|\([^()]*\))*?golden_sha256="([0-9a-f]{64})"', src):
        out[m.group(1)] = m.group(2)
    return out


def ast_to_model(proto: Any) -> Proto:
    """compiler AST (names and types only) -> my schema model; layout stays mine"""
    from bitproto import _ast as A

    conv: Dict[int, Any] = {}

    def ctype(t: Any) -> Any:
        if isinstance(t, A.Bool):
            return TBase("bool")
        if isinstance(t, A.Byte):
            return TBase("byte")
        if isinstance(t, A.Uint):
            return TBase("uint", t.cap)
        if isinstance(t, A.Int):
            return TBase("int", t.cap)
        if isinstance(t, A.Array):
            return TArray(ctype(t.element_type), t.cap, t.extensible)
        return TRef(cdef(t))

    def cdef(d: Any) -> Any:
        if id(d) in conv:
            return conv[id(d)]
        if isinstance(d, A.Enum):
            r: Any = Enum(d.name, d.type.cap, [(f.name, f.value) for f in d.fields()])
        elif isinstance(d, A.Alias):
            r = Alias(d.name, None)  # type: ignore
            conv[id(d)] = r
            r.to = ctype(d.type)
            return r
        elif isinstance(d, A.Message):
            r = Message(d.name, [], d.extensible)
            conv[id(d)] = r
            r.fields = [Field(ctype(f.type), f.name, f.number) for f in d.fields()]
            return r
        else:
            raise TypeError(d)
        conv[id(d)] = r
        return r

    p = Proto(proto.name)
    for _, d in proto.members.items():
        if isinstance(d, (A.Enum, A.Alias, A.Message)):
            p.defs.append(cdef(d))
    return p


WRAP = r'''
import sys, json, runpy, importlib
mod = importlib.import_module(sys.argv[1])
from bitprotolib import bp as _bp
captured = []
def patch(cls):
    orig = cls.encode
    def enc(self):
        captured.append([cls.__name__, json.loads(json.dumps(self.to_dict(), default=lambda o: list(o)))])
        return orig(self)
    cls.encode = enc
for name in dir(mod):
    c = getattr(mod, name)
    if isinstance(c, type) and issubclass(c, _bp.MessageBase) and c is not _bp.MessageBase:
        patch(c)
import io, contextlib
buf = io.StringIO()
with contextlib.redirect_stdout(buf):
    runpy.run_path("main.py", run_name="__main__")
print(json.dumps({"stdout": buf.getvalue(), "captured": captured}))
'''


def flatten(msg: Message, d: Dict[str, Any]) -> Dict[Tuple[Any, ...], int]:
    vals: Dict[Tuple[Any, ...], int] = {}
    for l in layout(msg).leaves():
        v: Any = d
        for k, s in l.path:
            v = v[s]
        vals[l.path] = int(v)
    return vals


def tiein() -> Tuple[int, int, List[str]]:
    """returns (cases checked, cases agreeing, notes)"""
    load_plain_compiler()
    from bitproto.parser import parse

    notes: List[str] = []
    ok = n = 0
    for case, digest in sorted(golden_digests().items()):
        cdir = os.path.join(CASES_DIR, case)
        bps = [f for f in os.listdir(cdir) if f.endswith(".bitproto")]
        if len(bps) != 1 or not os.path.exists(os.path.join(cdir, "py", "main.py")):
            notes.append(f"{case}: unexpected layout of the upstream case")
            continue
        n += 1
        with Scratch() as sc:
            r = compile_cli(cdir, bps[0], "py", sc.dir, ["-q"])
            if r.returncode:
                notes.append(f"{case}: compile failed {r.stderr[-120:]}")
                continue
            stem = bps[0][:-9]
            p = subprocess.run([VENV_PY, "-c", WRAP, stem + "_bp"], cwd=os.path.join(cdir, "py"), capture_output=True, text=True, timeout=300,
                               env={"PYTHONPATH": sc.dir + ":" + os.path.join(REPO, "lib", "py"), "PATH": os.environ.get("PATH", ""), "PYTHONDONTWRITEBYTECODE": "1"})
            if p.returncode:
                notes.append(f"{case}: upstream main.py failed: {p.stderr[-200:]}")
                continue
            o = json.loads(p.stdout)
            d1 = hashlib.sha256(o["stdout"].strip().encode()).hexdigest()
            model = ast_to_model(parse(os.path.join(cdir, bps[0])))
            msgs = {m.name: m for m in model.messages()}
            outs = []
            for cname, dct in o["captured"][:1]:
                msg = msgs[cname]
                data = spec_encode(layout(msg), flatten(msg, dct))
                outs.append("".join(f"{b} " for b in data))
            d2 = hashlib.sha256("".join(outs).strip().encode()).hexdigest()
            if d1 == digest and d2 == digest:
                ok += 1
            else:
                notes.append(f"{case}: python runtime {'==' if d1 == digest else '!='} golden, reference encoder {'==' if d2 == digest else '!='} golden")
    return n, ok, notes
