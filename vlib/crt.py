"""C-side harness pieces for E2: real compiler -> generated C -> clang IR (x86-64 / s390x) ->
llsym Machine; struct layout constants through an extra translation unit; gcc-built shared
object for native replay and interpreter validation."""
from __future__ import annotations

import ctypes
import os
import re
import subprocess
from typing import Any, Dict, List, Optional, Sequence, Tuple

import z3

from . import llsym
from .common import REPO, VERIF, Inconclusive, run
from .compile import CompileError, compile_inproc, write_files
from .families import Case
from .llsym import IntT, Machine, Module, Ptr
from .schema import Layout, Leaf, Message, layout

LIBC = os.path.join(REPO, "lib", "c")
SHIM = os.path.join(VERIF, "vlib", "shim")
_RES_DIR: Optional[str] = None
_LIB_IR: Dict[Tuple[Any, ...], str] = {}


def clang_resource_dir() -> str:
    global _RES_DIR
    if _RES_DIR is None:
        _RES_DIR = subprocess.check_output(["clang", "-print-resource-dir"], text=True).strip()
    return _RES_DIR


def clang_ir(src: str, out: str, olevel: str, target: str, incs: Sequence[str], defines: Sequence[str] = ()) -> None:
    cmd = ["clang", "-S", "-emit-llvm", f"-{olevel}", "-fno-vectorize", "-fno-slp-vectorize", "-Wno-everything"]
    triples = {"s390x": "s390x-linux-gnu", "ppc64": "powerpc64-linux-gnu", "mips64": "mips64-linux-gnu"}  # big-endian data layouts
    if target in triples:
        cmd += ["-target", triples[target], "-ffreestanding", "-nostdinc", "-isystem", SHIM, "-isystem", os.path.join(clang_resource_dir(), "include")]
    elif target != "x86_64":
        raise ValueError(target)
    for d in defines:
        cmd.append("-U" + d[2:] if d.startswith("U:") else "-D" + d)  # "U:NAME" undefines a predefined macro (a toolchain that lacks it)
    for i in incs:
        cmd += ["-I", i]
    cmd += ["-o", out, src]
    r = run(cmd, timeout=300)
    if r.returncode != 0:
        raise Inconclusive(f"clang rejected {os.path.basename(src)} ({target} {olevel}): {r.stderr[-400:]}")


def c_struct_name(chain: List[str]) -> str:
    return "".join(chain)


def c_expr(path: Tuple[Any, ...]) -> str:
    s = ""
    for k, v in path:
        s += (("." if s else "") + v) if k == "f" else f"[{v}]"
    return s


class CBuild:
    """generated C of one case (+ imports) and its IR in several configurations"""

    def __init__(self, case: Case, scratch_dir: str, optimize: bool = False, endian: str = "both", flt: Optional[List[str]] = None, tag: str = ""):
        self.case = case
        self.dir = os.path.join(scratch_dir, f"c_{case.name}{tag}")
        self.src = os.path.join(self.dir, "src")
        self.gen = os.path.join(self.dir, "gen")
        os.makedirs(self.src, exist_ok=True)
        files = case.proto.files(getattr(case, "style", None))
        write_files(files, self.src)
        self.stems = []
        for fn in files:
            compile_inproc(self.src, fn, "c", self.gen, optimize=optimize, filter_messages=flt, endian=endian)
            self.stems.append(fn.rsplit(".", 1)[0])
        self.main = self.stems[0]
        self.header = open(os.path.join(self.gen, self.main + "_bp.h")).read()
        self.bytes_macro = {m.group(1): (m.group(2), int(m.group(3))) for m in re.finditer(r"// Number of bytes to encode struct (\w+)\n#define (BYTES_LENGTH_\w+) (\d+)", self.header)}
        self._layout_written = False
        self.optimize = optimize
        # documented scheme: the PascalCase form of c.name_prefix leads every C type and function name of the main file
        pre = next((v.strip('"') for k, v in getattr(case.proto, "options", []) if k == "c.name_prefix"), "")
        if pre:
            self.name_prefix = "".join(w[:1].upper() + w[1:] for w in pre.strip("_").split("_") if w)

    def cfiles(self) -> List[str]:
        return [os.path.join(self.gen, s + "_bp.c") for s in self.stems]

    def write_layout_tu(self, msgs: List[Tuple[Message, List[str]]]) -> str:
        """extra TU whose constants are the struct layout as the C compiler sees it"""
        L = [f'#include "{self.main}_bp.h"', "#include <stddef.h>"]
        for mi, (msg, chain) in enumerate(msgs):
            sn = getattr(self, "name_prefix", "") + c_struct_name(chain)
            L.append(f"const unsigned long bpv_sizeof_{mi} = sizeof(struct {sn});")
            if sn in self.bytes_macro:
                L.append(f"const unsigned long bpv_bytes_{mi} = {self.bytes_macro[sn][0]};")
            for li, l in enumerate(layout(msg).leaves()):
                L.append(f"const unsigned long bpv_off_{mi}_{li} = offsetof(struct {sn}, {c_expr(l.path)});")
                L.append(f"const unsigned long bpv_sz_{mi}_{li} = sizeof(((struct {sn} *)0)->{c_expr(l.path)});")
        p = os.path.join(self.gen, "bpv_layout.c")
        with open(p, "w") as f:
            f.write("\n".join(L) + "\n")
        return p

    def modules(self, olevel: str, target: str, defines: Sequence[str] = (), single_tu: bool = False, msgs: Optional[List[Tuple[Message, List[str]]]] = None) -> Tuple[List[Module], Dict[str, int]]:
        tag = f"{target}_{olevel}_{'_'.join(defines)}_{'one' if single_tu else 'sep'}"
        outd = os.path.join(self.dir, "ir_" + tag)
        os.makedirs(outd, exist_ok=True)
        incs = [self.gen, LIBC]
        paths = []
        if single_tu:
            one = os.path.join(self.gen, "bpv_single_tu.c")
            with open(one, "w") as f:
                f.write("".join(f'#include "{os.path.basename(c)}"\n' for c in self.cfiles()) + '#include "bitproto.c"\n')
            out = os.path.join(outd, "single.ll")
            clang_ir(one, out, olevel, target, incs, defines)
            paths.append(out)
        else:
            for c in self.cfiles():
                out = os.path.join(outd, os.path.basename(c)[:-2] + ".ll")
                clang_ir(c, out, olevel, target, incs, defines)
                paths.append(out)
            paths.append(lib_ir(olevel, target, defines, outd))
        consts: Dict[str, int] = {}
        if msgs is not None:
            ltu = self.write_layout_tu(msgs)
            lout = os.path.join(outd, "layout.ll")
            clang_ir(ltu, lout, "O0", target, incs, defines)
            lm = Module(lout)
            for g, (ty, init) in lm.globals.items():
                if g.startswith("@bpv_") and init and init[0] == "int":
                    consts[g[1:]] = init[1]
                elif g.startswith("@bpv_") and init and init[0] == "zero":
                    consts[g[1:]] = 0
        return [Module(p) for p in paths], consts

    def layout_consts(self, msgs: List[Tuple[Message, List[str]]], cxx: bool) -> Dict[str, int]:
        """sizeof / offsetof of every struct as a C (or, with cxx, a C++) translation unit sees them; the C++ unit
        includes the header twice, as any larger program ends up doing"""
        ltu = self.write_layout_tu(msgs)
        src = open(ltu).read()
        if cxx:
            inc = f'#include "{self.main}_bp.h"\n'
            src = inc + src.replace("const unsigned long", 'extern "C" unsigned long')
            ltu = ltu[:-2] + "_cxx.cc"
            with open(ltu, "w") as f:
                f.write(src)
        out = ltu + ".ll"
        cmd = ["clang"] + (["-x", "c++"] if cxx else []) + ["-S", "-emit-llvm", "-O0", "-Wno-everything", "-I", self.gen, "-I", LIBC, "-o", out, ltu]
        r = run(cmd, timeout=120)
        if r.returncode != 0:
            raise CompileError(f"clang{'++' if cxx else ''} rejected the header of {self.main}: {r.stderr[-500:]}")
        consts: Dict[str, int] = {}
        for g, (ty, init) in Module(out).globals.items():
            if g.startswith("@bpv_") and init and init[0] == "int":
                consts[g[1:]] = init[1]
            elif g.startswith("@bpv_") and init and init[0] == "zero":
                consts[g[1:]] = 0
        return consts

    def shared_object(self, olevel: str = "O2", defines: Sequence[str] = ()) -> str:
        so = os.path.join(self.dir, f"native_{olevel}_{'_'.join(defines)}.so")
        if not os.path.exists(so):
            cmd = ["gcc", "-shared", "-fPIC", f"-{olevel}", "-w", "-I", self.gen, "-I", LIBC] + [f"-D{d}" for d in defines] + self.cfiles() + [os.path.join(LIBC, "bitproto.c"), "-o", so]
            r = run(cmd, timeout=300)
            if r.returncode != 0:
                raise Inconclusive(f"gcc rejected the generated C: {r.stderr[-400:]}")
        return so


def lib_ir(olevel: str, target: str, defines: Sequence[str], outd: str) -> str:
    """IR of the runtime library (from /repo's working tree; built once per process and config)"""
    key = (olevel, target, tuple(defines))
    if key not in _LIB_IR or not os.path.exists(_LIB_IR[key]):
        out = os.path.join(outd, "bitproto_lib.ll")
        clang_ir(os.path.join(LIBC, "bitproto.c"), out, olevel, target, [LIBC], defines)
        return out
    return _LIB_IR[key]


class CMsg:
    """one message in one IR configuration: struct layout, leaf access, entry points"""

    def __init__(self, mods: List[Module], consts: Dict[str, int], mi: int, msg: Message, chain: List[str], prefix: str = ""):
        self.mods = mods
        self.mi = mi
        self.msg = msg
        self.name = prefix + c_struct_name(chain)
        self.lay = layout(msg)
        try:
            self.sizeof = consts[f"bpv_sizeof_{mi}"]
            self.nbytes = consts.get(f"bpv_bytes_{mi}")
            self.off = [consts[f"bpv_off_{mi}_{li}"] for li in range(len(self.lay.leaves()))]
            self.sz = [consts[f"bpv_sz_{mi}_{li}"] for li in range(len(self.lay.leaves()))]
        except KeyError as e:
            raise Inconclusive(f"layout constant {e} missing")

    def machine(self) -> Machine:
        return Machine(self.mods)

    def storage_term(self, l: Leaf, li: int, t: Any) -> Any:
        """C storage value (8*size bits) of an in-range leaf value given as an n-bit term"""
        w = 8 * self.sz[li]
        if w < l.n:
            raise Inconclusive(f"C storage of {l.pname()} has {w} bits < {l.n}")
        if w == l.n:
            return t
        return z3.SignExt(w - l.n, t) if l.kind == "int" else z3.ZeroExt(w - l.n, t)

    def fill(self, M: Machine, region: str, values: Dict[Tuple[Any, ...], Any], free_storage: bool = False) -> None:
        for li, l in enumerate(self.lay.leaves()):
            v = values[l.path]
            ty = IntT(8 * self.sz[li])
            if isinstance(v, int):
                v &= (1 << ty.n) - 1
            elif not free_storage or v.size() != ty.n:
                v = self.storage_term(l, li, v)
            M.store(Ptr(region, self.off[li]), ty, llsym.simp(v))

    def read(self, M: Machine, region: str) -> List[Any]:
        return [M.load(Ptr(region, self.off[li]), IntT(8 * self.sz[li])) for li in range(len(self.lay.leaves()))]

    def covered(self) -> List[bool]:
        cov = [False] * self.sizeof
        for o, s in zip(self.off, self.sz):
            for i in range(o, o + s):
                cov[i] = True
        return cov


# ---- native (gcc) execution through ctypes


def native_encode(so: str, fn: str, struct_bytes: bytes, nbytes: int, guard: int = 16) -> Tuple[bytes, bool]:
    lib = ctypes.CDLL(so)
    st = ctypes.create_string_buffer(struct_bytes, len(struct_bytes))
    buf = ctypes.create_string_buffer(b"\x00" * nbytes + b"\xa5" * guard, nbytes + guard)
    getattr(lib, fn)(st, buf)
    raw = buf.raw
    return raw[:nbytes], raw[nbytes:] == b"\xa5" * guard


def native_decode(so: str, fn: str, wire: bytes, sizeof: int, guard: int = 16) -> Tuple[bytes, bool]:
    lib = ctypes.CDLL(so)
    st = ctypes.create_string_buffer(b"\x00" * sizeof + b"\xa5" * guard, sizeof + guard)
    buf = ctypes.create_string_buffer(wire + b"\x00" * 8, len(wire) + 8)
    getattr(lib, fn)(st, buf)
    raw = st.raw
    return raw[:sizeof], raw[sizeof:] == b"\xa5" * guard


def native_json(so: str, fn: str, struct_bytes: bytes, cap: int = 1 << 16) -> str:
    lib = ctypes.CDLL(so)
    st = ctypes.create_string_buffer(struct_bytes, len(struct_bytes))
    buf = ctypes.create_string_buffer(cap)
    getattr(lib, fn)(st, buf)
    return buf.value.decode("latin-1")


def pack_struct(cm: CMsg, vals: Dict[Tuple[Any, ...], int], little: bool = True, fill: int = 0) -> bytes:
    b = bytearray([fill]) * cm.sizeof
    for li, l in enumerate(cm.lay.leaves()):
        v = int(vals[l.path]) & ((1 << (8 * cm.sz[li])) - 1)
        b[cm.off[li]:cm.off[li] + cm.sz[li]] = v.to_bytes(cm.sz[li], "little" if little else "big")
    return bytes(b)


def unpack_struct(cm: CMsg, raw: bytes, little: bool = True) -> Dict[Tuple[Any, ...], int]:
    out = {}
    for li, l in enumerate(cm.lay.leaves()):
        v = int.from_bytes(raw[cm.off[li]:cm.off[li] + cm.sz[li]], "little" if little else "big")
        w = 8 * cm.sz[li]
        if l.kind == "int" and v >> (w - 1):
            v -= 1 << w
        out[l.path] = v
    return out
