"""Bounded schema families (the (S) quantifier).  Deterministic cores plus a seeded random
tail; every member is one symbolic run covering all its values."""
from __future__ import annotations

import itertools
import random
from dataclasses import dataclass
from typing import Any, Dict, Iterator, List, Optional, Tuple

from .schema import Alias, Const, Enum, Field, Import, Message, Proto, TArray, TBase, TRef, layout


@dataclass
class Case:
    """One schema file (plus imports) and the messages of it to be exercised."""

    name: str
    proto: Proto
    messages: List[Tuple[Message, List[str]]]  # (message, chain of enclosing names incl. own)
    tags: Tuple[str, ...] = ()

    def top(self) -> List[Message]:
        return [m for m, _ in self.messages]


def _msgs(p: Proto) -> List[Tuple[Message, List[str]]]:
    out: List[Tuple[Message, List[str]]] = []

    def rec(ds: List[Any], chain: List[str]) -> None:
        for d in ds:
            if isinstance(d, Message):
                rec(d.nested, chain + [d.name])
                out.append((d, chain + [d.name]))

    rec(p.defs, [])
    return out


def case_of(name: str, p: Proto, tags: Tuple[str, ...] = (), only: Optional[List[str]] = None) -> Case:
    ms = _msgs(p)
    if only is not None:
        ms = [x for x in ms if x[0].name in only]
    return Case(name, p, ms, tags)


# --------------------------------------------------------------------------- F_grid

GRID_TYPES: List[TBase] = [TBase("bool"), TBase("byte")] + [TBase("uint", n) for n in range(1, 65)] + [TBase("int", n) for n in range(1, 65)]
GRID_POS = ("scalar", "arr3", "arr5", "alias", "arr_of_alias", "alias_of_arr", "rows")


def grid_message(idx: int, t: TBase, off: int, pos: str, aliases: List[Alias]) -> Message:
    """leaf sits between a uint{off} pad and a uint3 tail so overruns and padding are visible"""
    fields: List[Field] = []
    if off:
        fields.append(Field(TBase("uint", off), "pad", 1))
    if pos == "scalar":
        ft: Any = t
    elif pos == "arr3":
        ft = TArray(t, 3)
    elif pos == "arr5":
        ft = TArray(t, 5)
    elif pos == "alias":
        a = Alias(f"A{idx}", t)
        aliases.append(a)
        ft = TRef(a)
    elif pos == "arr_of_alias":
        a = Alias(f"A{idx}", t)
        aliases.append(a)
        ft = TArray(TRef(a), 3)
    elif pos == "alias_of_arr":
        a = Alias(f"A{idx}", TArray(t, 3))
        aliases.append(a)
        ft = TRef(a)
    elif pos == "rows":
        # array of an alias of an array: the row totals 8 bits where the width divides 8 (a `standard` total made of
        # narrower elements), two elements otherwise
        w = t.width()
        a = Alias(f"A{idx}", TArray(t, 8 // w if 8 % w == 0 else 2))
        aliases.append(a)
        ft = TArray(TRef(a), 2)
    else:
        raise ValueError(pos)
    fields.append(Field(ft, "v", 2))
    fields.append(Field(TBase("uint", 3), "tail", 3))
    return Message(f"G{idx}", fields)


def grid_cells(quick: bool) -> List[Tuple[TBase, int, str]]:
    cells = []
    for t in GRID_TYPES:
        for off in range(8):
            for pos in GRID_POS:
                if quick:
                    w = t.width()
                    keep = off in (0, 3) or w in (1, 7, 8, 9, 15, 16, 17, 31, 32, 33, 63, 64)
                    if not keep:
                        continue
                    # quick: positions thinned for the non-boundary widths
                    if w not in (1, 2, 4, 7, 8, 9, 15, 16, 17, 31, 32, 33, 63, 64) and pos in ("arr5", "arr_of_alias", "rows"):
                        continue
                cells.append((t, off, pos))
    return cells


def f_grid(quick: bool, per_file: int = 40) -> List[Case]:
    cells = grid_cells(quick)
    cases: List[Case] = []
    for fi in range(0, len(cells), per_file):
        chunk = cells[fi : fi + per_file]
        aliases: List[Alias] = []
        msgs: List[Message] = []
        for k, (t, off, pos) in enumerate(chunk):
            msgs.append(grid_message(k, t, off, pos, aliases))
        p = Proto(f"grid{fi // per_file}", aliases + msgs)  # type: ignore
        c = case_of(p.name, p, ("grid",))
        c.cells = chunk  # type: ignore
        cases.append(c)
    return cases


# --------------------------------------------------------------------------- F_shape


def _e(name: str, w: int, vals: List[int]) -> Enum:
    return Enum(name, w, [(f"{name.upper()}_{i}", v) for i, v in enumerate(vals)])


def f_shape_core() -> List[Case]:
    C: List[Case] = []

    def add(name: str, defs: List[Any], tags: Tuple[str, ...] = (), imports: Optional[List[Import]] = None, options: Optional[List[Tuple[str, str]]] = None, only: Optional[List[str]] = None) -> None:
        p = Proto(name, defs, imports or [], options or [])
        C.append(case_of(name, p, tags, only))

    U = lambda n: TBase("uint", n)
    I = lambda n: TBase("int", n)
    B = TBase("bool")
    BY = TBase("byte")

    # 1. enums of width 1..16 at every byte phase, scalar and array
    for w in range(1, 17):
        vals = sorted({0, 1, (1 << w) - 1, (1 << (w - 1))} & set(range(1 << w)))[:4]
        e = _e(f"En{w}", w, vals)
        msgs = []
        for off in range(8):
            fs = ([Field(U(off), "pad", 1)] if off else []) + [Field(TRef(e), "e", 2), Field(U(3), "tail", 3)]
            msgs.append(Message(f"S{off}", fs))
        for off in (0, 3, 7):
            fs = ([Field(U(off), "pad", 1)] if off else []) + [Field(TArray(TRef(e), 2), "es", 2), Field(U(3), "tail", 3)]
            msgs.append(Message(f"A{off}", fs))
        add(f"enum{w}", [e] + msgs, ("enum",))

    # enums without a zero member / single member
    e_nz = _e("Nz", 3, [1, 2, 5])
    e_one = _e("One", 2, [3])
    add("enum_nozero", [e_nz, e_one, Message("M", [Field(TRef(e_nz), "a", 1), Field(TRef(e_one), "b", 2), Field(TArray(TRef(e_nz), 2), "c", 3)])], ("enum", "enum_nozero"))

    # 2. nesting <= 3 with every combination of extensible marks
    for bits in range(8):
        x3, x2, x1 = bool(bits & 1), bool(bits & 2), bool(bits & 4)
        l3 = Message("L3", [Field(I(7), "a", 1), Field(B, "b", 2)], ext=x3)
        l2 = Message("L2", [Field(U(5), "p", 1), Field(TRef(l3), "q", 2), Field(I(12), "r", 3)], ext=x2)
        l1 = Message("L1", [Field(U(3), "x", 1), Field(TRef(l2), "y", 2), Field(U(9), "z", 3)], ext=x1)
        add(f"nest{bits}", [l3, l2, l1], ("nest",) + (("ext",) if bits else ()))

    # nested *declarations* (message and enum inside messages)
    inner_e = _e("Kind", 2, [0, 1, 3])
    inner = Message("Inner", [Field(TRef(inner_e), "k", 1), Field(I(6), "v", 2)], nested=[inner_e])
    outer = Message("Outer", [Field(TRef(inner), "i", 1), Field(TArray(TRef(inner), 2), "is_", 2), Field(U(1), "t", 3)], nested=[inner])
    add("nested_decl", [outer], ("nest", "nested_decl"))

    # 3. arrays of messages, 2-D / 3-D arrays through aliases
    cell = Message("Cell", [Field(TArray(U(4), 3), "xs", 1), Field(I(3), "s", 2)])
    grid = Message("Grid", [Field(TArray(TRef(cell), 2), "cells", 1), Field(U(5), "t", 2)])
    add("arr_msg", [cell, grid], ("array",))
    row = Alias("Row", TArray(I(5), 3))
    mat = Alias("Mat", TArray(TRef(row), 2))
    cube = Alias("Cube", TArray(TRef(mat), 2))
    add("arr_nd", [row, mat, cube, Message("M", [Field(U(3), "p", 1), Field(TRef(mat), "m", 2), Field(TRef(cube), "c", 3), Field(TArray(TRef(row), 2), "rs", 4), Field(U(2), "t", 5)])], ("array", "alias"))
    brow = Alias("Bytes4", TArray(BY, 4))
    add("arr_bytes", [brow, Message("M", [Field(U(5), "p", 1), Field(TArray(BY, 3), "raw", 2), Field(TRef(brow), "al", 3), Field(TArray(TRef(brow), 2), "two", 4), Field(B, "t", 5)])], ("array", "bytes"))
    add("arr_bool", [Message("M", [Field(TArray(B, 9), "flags", 1), Field(U(7), "t", 2)])], ("array",))
    # batch-copy path: standard widths, aligned and unaligned
    for n in (8, 16, 32, 64):
        for off in (0, 5):
            fs = ([Field(U(off), "pad", 1)] if off else []) + [Field(TArray(U(n), 5), "u", 2), Field(TArray(I(n), 3), "s", 3), Field(U(3), "tail", 4)]
            add(f"batch{n}_{off}", [Message("M", fs)], ("array", "batch"))

    # 4. every combination of extensible message / array / element
    for bits in range(8):
        xm, xa, xe = bool(bits & 1), bool(bits & 2), bool(bits & 4)
        el = Message("El", [Field(U(6), "a", 1), Field(I(9), "b", 2)], ext=xe)
        m = Message("M", [Field(U(3), "h", 1), Field(TArray(TRef(el), 3, ext=xa), "els", 2), Field(TArray(U(5), 4, ext=xa), "nums", 3), Field(U(7), "t", 4)], ext=xm)
        add(f"ext{bits}", [el, m], ("ext",) if bits else ())
    # extensible arrays over capacity / element-size combinations (D5 region included on purpose)
    k = 0
    for cap, w in [(1, 1), (2, 3), (3, 8), (4, 4), (5, 8), (5, 1), (6, 2), (7, 7), (8, 16), (8, 1), (12, 3), (20, 8), (17, 1)]:
        m = Message("M", [Field(U(3), "h", 1), Field(TArray(U(w), cap, ext=True), "arr", 2), Field(U(8), "tail", 3)])
        add(f"extarr{k}", [m], ("ext", "extarr"))
        k += 1
    ea = Alias("EA", TArray(I(11), 3, ext=True))
    add("extalias", [ea, Message("M", [Field(TRef(ea), "a", 1), Field(TArray(TRef(ea), 2, ext=True), "b", 2), Field(U(4), "t", 3)], ext=True)], ("ext", "alias"))

    # 5. imports with and without `as`
    lib_e = _e("Color", 3, [0, 1, 5])
    lib_m = Message("Pt", [Field(I(10), "x", 1), Field(I(10), "y", 2)])
    lib_a = Alias("Ts", I(48))
    lib = Proto("shared", [lib_e, lib_a, lib_m])
    for as_name in (None, "lib"):
        q = as_name or "shared"
        m = Message("M", [Field(TRef(lib_e, f"{q}.Color"), "c", 1), Field(TRef(lib_m, f"{q}.Pt"), "p", 2), Field(TRef(lib_a, f"{q}.Ts"), "t", 3), Field(TArray(TRef(lib_m, f"{q}.Pt"), 2), "ps", 4), Field(U(3), "z", 5)])
        add(f"imp_{q}", [m], ("import",), imports=[Import(lib, as_name)])

    # declarations nested three deep, multi-word style-guide names (the order of the enclosing names matters from here on)
    z_mood = Enum("Mood", 2, [("MOOD_OK", 0), ("MOOD_SAD", 1), ("MOOD_WILD", 3)])
    z_tail = Message("Tail", [Field(U(3), "length", 1), Field(B, "curly", 2)])
    z_monkey = Message("Monkey", [Field(TRef(z_tail), "tail", 1), Field(TRef(z_mood), "mood", 2), Field(I(5), "bananas", 3)], nested=[z_mood, z_tail])
    z_zoo = Message("ZooKeeper", [Field(TRef(z_monkey), "monkey", 1), Field(TRef(z_tail, "Monkey.Tail"), "spare_tail", 2), Field(TArray(TRef(z_tail, "Monkey.Tail"), 2), "more_tails", 3), Field(U(2), "gate", 4)], nested=[z_monkey])
    add("nested_decl3", [z_zoo], ("nest", "nested_decl"))

    # an extensible message WITHOUT fields (a placeholder for later versions): alone, nested, as an array element
    rsv = Message("Reserved", [], ext=True)
    add("empty_ext", [rsv, Message("M", [Field(U(3), "h", 1), Field(TRef(rsv), "r", 2), Field(TArray(TRef(rsv), 2), "rs", 3), Field(U(6), "t", 4)])], ("ext", "empty"))

    # the largest legal field number on message-typed fields
    inner255 = Message("Inner", [Field(U(5), "v", 1), Field(I(7), "w", 255)])
    add("fieldnum255", [inner255, Message("M", [Field(U(3), "a", 1), Field(TArray(TRef(inner255), 2), "items", 254), Field(TRef(inner255), "last", 255)])], ("numbers",))

    # very long (valid) field and message names: nothing in the runtimes may depend on the length of a name
    long_inner = Message("TelemetryFrameWithAVeryLongDescriptiveName", [Field(U(7), "a_rather_long_field_name_of_forty_two_chars_", 1), Field(I(9), "x", 2)])
    add("long_names", [long_inner, Message("M", [Field(U(3), "brief", 1), Field(TRef(long_inner), "the_quick_brown_fox_jumps_over_the_lazy_dog_again_and_again", 2),
                                                 Field(TArray(U(5), 2), "an_array_whose_name_is_longer_than_thirty_two", 3), Field(B, "t", 4)])], ("names",))

    # types nested in a message of the imported file, used from the importing file (with and without `as`)
    n_kind = _e("Kind", 2, [0, 1, 3])
    n_inner = Message("Inner", [Field(U(3), "v", 1), Field(I(4), "w", 2)])
    n_outer = Message("Outer", [Field(TRef(n_inner), "i", 1), Field(TRef(n_kind), "k", 2), Field(I(6), "s", 3)], nested=[n_kind, n_inner])
    nlib = Proto("deep", [n_outer])
    for as_name in (None, "dp"):
        q = as_name or "deep"
        m = Message("M", [Field(TRef(n_inner, f"{q}.Outer.Inner"), "i", 1), Field(TRef(n_kind, f"{q}.Outer.Kind"), "k", 2), Field(TRef(n_outer, f"{q}.Outer"), "o", 3),
                          Field(TArray(TRef(n_inner, f"{q}.Outer.Inner"), 2), "is_", 4), Field(TArray(TRef(n_kind, f"{q}.Outer.Kind"), 2), "ks", 5), Field(U(5), "z", 6)])
        add(f"imp_nested_{q}", [m], ("import",), imports=[Import(nlib, as_name)])

    # an import whose types are used only as array elements (directly and through an alias of an array)
    u_axis = _e("Axis", 2, [0, 1, 2])
    u_sample = Message("Sample", [Field(I(11), "v", 1), Field(U(4), "q", 2)])
    ulib = Proto("units", [u_axis, u_sample])
    u_win = Alias("Window", TArray(TRef(u_sample, "units.Sample"), 2))
    add("imp_array_only", [u_win, Message("M", [Field(TArray(TRef(u_axis, "units.Axis"), 3), "axes", 1), Field(TRef(u_win), "w", 2), Field(U(3), "t", 3)])], ("import", "array"), imports=[Import(ulib, None)])

    # an import used only for its constants
    clib = Proto("limits", [Const("CAP", "3", 3), Const("WIDE", "2 * 2", 4)])
    add("imp_const_only", [Message("M", [Field(TArray(BY, 3, cap_text="limits.CAP"), "raw", 1), Field(TArray(U(5), 4, cap_text="limits.WIDE"), "vs", 2), Field(U(3), "t", 3)])], ("import", "const"), imports=[Import(clib, None)])

    # 6. field-number permutations (declaration order != number order)
    base = [(U(3), "a"), (I(13), "b"), (B, "c"), (U(17), "d")]
    for pi, perm in enumerate(itertools.permutations(range(4))):
        if pi % 4 != 1:
            continue
        nums = [7, 200, 1, 33]
        fs = [Field(base[i][0], base[i][1], nums[perm[i]]) for i in range(4)]
        sub = Message("Sub", [Field(U(5), "q", 9), Field(I(4), "r", 2)])
        fs.append(Field(TRef(sub), "s", 100))
        add(f"perm{pi}", [sub, Message("M", fs)], ("perm",))

    # 7. empty messages
    em = Message("Empty", [])
    emx = Message("EmptyX", [], ext=True)
    add("empty", [em, emx, Message("M", [Field(U(3), "a", 1), Field(TRef(em), "e", 2), Field(TRef(emx), "x", 3), Field(U(3), "b", 4)])], ("empty",))

    # 8. 64-bit fields at odd offsets
    for off in (1, 3, 7):
        add(f"wide{off}", [Message("M", [Field(U(off), "p", 1), Field(U(64), "u", 2), Field(I(64), "s", 3), Field(I(63), "s63", 4), Field(U(57), "u57", 5), Field(B, "t", 6)])], ("wide",))

    # 9. large capacities
    add("big_bytes", [Message("M", [Field(U(3), "h", 1), Field(TArray(BY, 400), "raw", 2), Field(U(5), "t", 3)])], ("large",))
    add("big_u13", [Message("M", [Field(TArray(U(13), 100), "v", 1), Field(B, "t", 2)])], ("large",))
    add("big_i3", [Message("M", [Field(U(1), "h", 1), Field(TArray(I(3), 64), "v", 2)])], ("large",))

    # 16-bit prefixes whose value needs the high byte: extensible message >= 256 bits, extensible array capacity >= 256
    add("big_ext_msg", [Message("M", [Field(U(3), "h", 1), Field(TArray(BY, 40), "raw", 2), Field(I(13), "t", 3)], ext=True),
                        Message("W", [Field(U(5), "a", 1), Field(TRef(None), "m", 2), Field(U(9), "z", 3)])], ("large", "ext"))
    C[-1].proto.defs[1].fields[1].type.target = C[-1].proto.defs[0]
    add("big_ext_arr", [Message("M", [Field(U(1), "h", 1), Field(TArray(U(3), 300, ext=True), "v", 2), Field(TArray(BY, 257, ext=True), "raw", 3), Field(U(6), "t", 4)])], ("large", "ext"))
    # arrays of messages nested two levels deep through an alias (index depth of message accessors)
    cell2 = Message("Cell", [Field(U(4), "x", 1), Field(I(5), "y", 2)])
    rowm = Alias("Row", TArray(TRef(cell2), 2))
    add("arr_msg_2d", [cell2, rowm, Message("M", [Field(U(3), "p", 1), Field(TArray(TRef(rowm), 3), "rows", 2), Field(TRef(rowm), "one", 3), Field(U(2), "t", 4)])], ("array", "alias"))
    # a local message with the same name as an imported one, different layout
    lib_pt2 = Message("Pt", [Field(I(10), "x", 1), Field(I(10), "y", 2)])
    lib2 = Proto("geo", [lib_pt2])
    loc_pt = Message("Pt", [Field(U(7), "q", 1)])
    add("imp_samename", [loc_pt, Message("M", [Field(TRef(lib_pt2, "geo.Pt"), "far", 1), Field(TRef(loc_pt), "near", 2), Field(TArray(TRef(lib_pt2, "geo.Pt"), 2), "fars", 3), Field(TArray(TRef(loc_pt), 2), "nears", 4), Field(U(3), "t", 5)])],
        ("import", "noc"), imports=[Import(lib2, None)], only=["M"])  # "noc": C has one name space for struct tags, the schema is outside C10's precondition there

    # 2-D arrays whose aliased ROW totals exactly 8/16/32/64 bits but is made of narrower elements (not contiguous
    # in C memory), and rows of whole-byte integers as controls
    rows = [("Nib", U(4), 2), ("Flags", B, 8), ("Quad", U(4), 4), ("Duo", I(2), 4), ("Bits16", U(1), 16), ("Oct", I(8), 4), ("W16", U(16), 2), ("Tri", U(3), 8), ("Six", I(6), 4)]
    ral = [Alias(n, TArray(t, c)) for n, t, c in rows]
    add("rows2d", ral + [Message("M", [Field(U(3), "p", 1)] + [Field(TArray(TRef(a), 2 + (i % 2)), f"g{i}", i + 2) for i, a in enumerate(ral)] + [Field(U(2), "t", 40)])], ("array", "alias", "batch"))
    # arrays of integers whose C storage is wider than their wire bytes (element stride != wire bytes), and arrays of
    # aliases to non-standard-width integers
    add("uarr_odd", [Message("M", [Field(U(1), "p", 1)] + [Field(TArray(U(w), 3), f"u{w}", i + 2) for i, w in enumerate((17, 20, 24, 33, 40, 48, 56))] + [Field(TArray(I(w), 2), f"s{w}", i + 20) for i, w in enumerate((17, 24, 40, 56))] + [Field(U(3), "t", 60)])], ("array",))
    sa = [Alias("S12", U(12)), Alias("D5", I(5)), Alias("U24", U(24)), Alias("I40", I(40)), Alias("B1", B), Alias("Y8", BY), Alias("U16", U(16))]
    add("arr_alias_odd", sa + [Message("M", [Field(U(5), "p", 1)] + [Field(TArray(TRef(a), 3), f"a{i}", i + 2) for i, a in enumerate(sa)] + [Field(U(1), "t", 30)])], ("array", "alias"))

    # signed arrays: every byte-phase, non-standard widths
    for w in (2, 7, 9, 24, 31, 33, 40, 48, 56, 63):
        add(f"sarr{w}", [Message("M", [Field(U(3), "p", 1), Field(TArray(I(w), 3), "v", 2), Field(I(w), "s", 3), Field(U(2), "t", 4)])], ("signed",))

    # C struct packing alignment option (layout of the struct changes, the wire must not)
    for al in (1, 2, 4, 8):
        inner_p = Message("Inner", [Field(U(3), "a", 1), Field(I(33), "b", 2), Field(B, "c", 3)])
        add(f"packed{al}", [inner_p, Message("M", [Field(B, "f", 1), Field(I(64), "big", 2), Field(U(3), "t", 3), Field(TArray(I(17), 3), "arr", 4), Field(TRef(inner_p), "inner", 5), Field(TArray(TRef(inner_p), 2), "inners", 6), Field(U(9), "z", 7)])],
            ("packed",), options=[("c.struct_packing_alignment", str(al))])

    # upstream-like mixed schema
    ts = Alias("Timestamp", I(64))
    tri = Alias("TernaryInt32", TArray(I(32), 3, ext=True))
    ds = _e("DroneStatus", 3, [0, 1, 2, 3, 4])
    ps = _e("PropellerStatus", 2, [0, 1, 2])
    prop = Message("Propeller", [Field(U(8), "id", 1), Field(TRef(ps), "status", 2)], ext=True)
    net = Message("Network", [Field(U(4), "signal", 1), Field(TRef(ts), "heartbeat_at", 2)])
    pose = Message("Pose", [Field(I(32), "yaw", 1), Field(I(32), "pitch", 2), Field(I(32), "roll", 3)])
    fl = Message("Flight", [Field(TRef(pose), "pose", 1), Field(TRef(tri), "velocity", 2)], ext=True)
    dr = Message("Drone", [Field(TRef(ds), "status", 1), Field(TRef(fl), "flight", 3), Field(TArray(TRef(prop), 4, ext=True), "propellers", 4), Field(TRef(net), "network", 5)])
    add("drone", [ts, tri, ds, ps, prop, net, pose, fl, dr], ("mixed", "ext"), only=["Drone", "Flight", "Propeller"])
    return C


# --------------------------------------------------------------------------- random tail


def rand_case(rng: random.Random, idx: int, traditional: bool = False, allow_enum: bool = True) -> Case:
    """random schema; redrawn (same generator state, so still a function of the seed) while a checked message has more
    enum-member combinations than the per-message path budget of the Python engine can enumerate"""
    for _ in range(50):
        c = _rand_case(rng, idx, traditional, allow_enum)
        worst = 1
        for m, _ch in c.messages:
            prod = 1
            for l in layout(m).leaves():
                if l.kind == "enum" and l.enum:
                    prod *= len(l.enum.members) + 1
            worst = max(worst, prod)
        if worst <= 300:
            return c
    return _rand_case(rng, idx, traditional, False)


def _rand_case(rng: random.Random, idx: int, traditional: bool = False, allow_enum: bool = True) -> Case:
    defs: List[Any] = []
    enums: List[Enum] = []
    aliases: List[Alias] = []
    msgs: List[Message] = []

    def base() -> TBase:
        r = rng.random()
        if r < 0.1:
            return TBase("bool")
        if r < 0.2:
            return TBase("byte")
        w = rng.choice([1, 2, 3, 5, 7, 8, 9, 12, 13, 15, 16, 17, 24, 31, 32, 33, 48, 63, 64, rng.randint(1, 64)])
        return TBase("int" if rng.random() < 0.45 else "uint", w)

    def single(depth: int) -> Any:
        r = rng.random()
        if allow_enum and enums and r < 0.15:
            return TRef(rng.choice(enums))
        if msgs and r < 0.35 and depth < 3:
            return TRef(rng.choice(msgs))
        if aliases and r < 0.5:
            return TRef(rng.choice(aliases))
        return base()

    def anytype(depth: int) -> Any:
        if rng.random() < 0.3:
            return TArray(single(depth), rng.choice([1, 2, 3, 4, 5]), ext=(not traditional and rng.random() < 0.3))
        return single(depth)

    ne = rng.randint(0, 2) if allow_enum else 0
    for i in range(ne):
        w = rng.choice([1, 2, 3, 4, 7, 8, 9, 12])
        vals = sorted(rng.sample(range(min(1 << w, 64)), k=min(rng.randint(1, 4), 1 << w)))
        if 0 not in vals and rng.random() < 0.8:
            vals[0] = 0
        enums.append(_e(f"E{i}", w, sorted(set(vals))))
    defs.extend(enums)
    for i in range(rng.randint(0, 2)):
        if rng.random() < 0.5:
            a = Alias(f"T{i}", base())
        else:
            el: Any = base() if rng.random() < 0.7 or not enums else TRef(rng.choice(enums))
            a = Alias(f"T{i}", TArray(el, rng.choice([1, 2, 3]), ext=(not traditional and rng.random() < 0.3)))
        aliases.append(a)
        defs.append(a)
    for i in range(rng.randint(1, 4)):
        nf = rng.randint(0 if i else 1, 5)
        nums = sorted(rng.sample(range(1, 256), nf))
        rng.shuffle(nums)
        fs = [Field(anytype(1), f"f{j}", nums[j]) for j in range(nf)]
        m = Message(f"M{i}", fs, ext=(not traditional and rng.random() < 0.3))
        msgs.append(m)
        defs.append(m)
    p = Proto(f"rnd{idx}", defs)
    return case_of(p.name, p, ("random",), only=[msgs[-1].name] + ([msgs[0].name] if len(msgs) > 1 else []))


def f_naming() -> List[Case]:
    """schemas about NAMES (used by C10 / C15 only: the runtime checks find their entry points by the plain scheme):
    importer and imported file with different / one-sided c.name_prefix, acronym runs in PascalCase names"""
    out: List[Case] = []
    U = lambda n: TBase("uint", n)
    I = lambda n: TBase("int", n)
    for tag, main_pre, lib_pre in (("both", "app_", "lib_"), ("lib_only", "", "lib_"), ("main_only", "app_", "")):
        color = _e("Color", 3, [0, 1, 5])
        point = Message("Point", [Field(I(10), "x", 1), Field(I(10), "y", 2)])
        stamp = Alias("Stamp", I(48))
        lib = Proto("shared", [color, stamp, point], [], [("c.name_prefix", f'"{lib_pre}"')] if lib_pre else [])
        m = Message("Scene", [Field(TRef(color, "shared.Color"), "c", 1), Field(TRef(point, "shared.Point"), "p", 2), Field(TRef(stamp, "shared.Stamp"), "t", 3), Field(TArray(TRef(point, "shared.Point"), 2), "ps", 4), Field(U(3), "z", 5)])
        p = Proto(f"imp_prefix_{tag}", [m], [Import(lib, None)], [("c.name_prefix", f'"{main_pre}"')] if main_pre else [])
        out.append(case_of(p.name, p, ("import", "prefix")))
    # the imported file's name differs from its proto name; imported with and without `as`
    for as_name in (None, "st"):
        lvl = _e("Level", 3, [0, 2, 5])
        stp = Alias("Stamp", I(40))
        rd = Message("Reading", [Field(TRef(lvl), "level", 1), Field(TRef(stp), "at", 2)])
        sens = Proto("sensors", [lvl, stp, rd], [], [], "sensor_types.bitproto")
        q = as_name or "sensors"
        m = Message("Station", [Field(TRef(lvl, f"{q}.Level"), "level", 1), Field(TRef(stp, f"{q}.Stamp"), "at", 2), Field(TRef(rd, f"{q}.Reading"), "last", 3), Field(TArray(TRef(lvl, f"{q}.Level"), 2), "levels", 4)])
        out.append(case_of(f"imp_stem_{q}", Proto(f"imp_stem_{q}", [m], [Import(sens, as_name)]), ("import", "names")))
    tls = Message("TLSConfig", [Field(U(4), "version", 1), Field(TBase("bool"), "strict", 2)])
    http = Message("HTTPServer", [Field(TRef(tls), "tls", 1), Field(U(16), "port", 2)], nested=[tls])
    gps = Message("GPSFix", [Field(I(28), "lat", 1), Field(I(29), "lon", 2), Field(TRef(http), "server", 3)])
    rgb = Alias("RGBColor", TArray(U(8), 3))
    uid = _e("UserID", 4, [0, 3, 9])
    p = Proto("acronyms", [Const("MAX_CAGES", "4", 4), Const("PORT_2G", "2 + 1", 3), rgb, uid, http, gps, Message("M", [Field(TRef(gps), "fix", 1), Field(TRef(rgb), "color", 2), Field(TRef(uid), "uid", 3)])])
    out.append(case_of(p.name, p, ("names",)))
    # digits inside PascalCase names (the word rule puts digit groups on their own)
    mk = Message("Mk2Drone", [Field(U(9), "rpm", 1)])
    fleet = Message("Fleet", [Field(TRef(mk), "lead", 1), Field(TArray(TRef(mk), 2), "wing", 2)], nested=[mk])
    vec = Message("Vector3", [Field(I(12), "x", 1), Field(I(12), "y", 2), Field(I(12), "z", 3)])
    ip = Message("Ipv4Header", [Field(U(4), "version", 1), Field(TRef(vec), "v", 2)])
    strs = Proto("strings", [Const("QUOTED", '"say \\"hi\\" twice"', 'say "hi" twice'), Const("WIN_PATH", '"C:\\\\temp\\\\new"', "C:\\temp\\new"), Const("MULTI", '"a\\nb\\tc"', "a\nb\tc"),
                              Const("PLAIN", '"plain ?? text"', "plain ?? text"), Message("M", [Field(U(3), "a", 1)])])
    out.append(case_of(strs.name, strs, ("names", "strings")))
    p = Proto("digits", [Const("LEVEL_3", "3", 3), vec, ip, fleet, Message("M", [Field(TRef(ip), "h", 1), Field(TRef(fleet), "f", 2)])])
    out.append(case_of(p.name, p, ("names",)))
    return out


def f_shape(quick: bool, seed: int, traditional: bool = False) -> List[Case]:
    cases = f_shape_core()
    rng = random.Random(1000003 * (seed + 1))
    for i in range(20 if quick else 600):
        cases.append(rand_case(rng, i, traditional=False))
    if traditional:
        cases = [c for c in cases if not is_extensible_case(c)]
    return cases


def type_has_ext(t: Any) -> bool:
    if isinstance(t, TArray):
        return t.ext or type_has_ext(t.el)
    if isinstance(t, TRef):
        tg = t.target
        if isinstance(tg, Alias):
            return type_has_ext(tg.to)
        if isinstance(tg, Message):
            return tg.ext or any(type_has_ext(f.type) for f in tg.fields)
    return False


def is_extensible_case(c: Case) -> bool:
    def rec(ds: List[Any]) -> bool:
        for d in ds:
            if isinstance(d, Message) and (d.ext or any(type_has_ext(f.type) for f in d.fields) or rec(d.nested)):
                return True
            if isinstance(d, Alias) and type_has_ext(d.to):
                return True
        return False

    return rec(c.proto.defs) or any(rec(im.proto.defs) for im in c.proto.imports)


# --------------------------------------------------------------------------- F_evo (C05)

import copy


def _ext_nodes(p: Proto) -> List[Tuple[str, Any]]:
    """extensible nodes of a proto in a deterministic order: ('msg', Message) | ('arr', TArray)"""
    out: List[Tuple[str, Any]] = []
    seen: set = set()

    def rec_type(t: Any) -> None:
        if isinstance(t, TArray):
            if t.ext and id(t) not in seen:
                seen.add(id(t))
                out.append(("arr", t))
            rec_type(t.el)

    def rec(ds: List[Any]) -> None:
        for d in ds:
            if isinstance(d, Alias):
                rec_type(d.to)
            elif isinstance(d, Message):
                rec(d.nested)
                if d.ext:
                    out.append(("msg", d))
                for f in d.fields:
                    rec_type(f.type)

    rec(p.defs)
    return out


EVO_MSG_STEPS = ("app1", "app2", "appmsg")
EVO_ARR_STEPS = ("cap+1", "cap+3", "capx2")


def _apply_step(p: Proto, idx: int, step: str, uid: int) -> None:
    kind, node = _ext_nodes(p)[idx]
    if kind == "msg":
        nxt = max([f.number for f in node.fields] or [0]) + 1
        if nxt > 250:
            return
        if step == "app1":
            node.fields.append(Field(TBase("uint", 5), f"new{uid}", nxt))
        elif step == "app2":
            # appended by NUMBER, but written at the top and in the middle of the message body: the wire follows the numbers
            node.fields.insert(0, Field(TBase("int", 13), f"new{uid}a", nxt))
            node.fields.insert((len(node.fields) + 1) // 2, Field(TArray(TBase("uint", 3), 2), f"new{uid}b", nxt + 3))
        elif step == "appmsg":
            sub = Message(f"New{uid}", [Field(TBase("uint", 9), "q", 1)], ext=True)
            # define the new message just before the first top-level definition that needs it
            p.defs.insert(0, sub)
            node.fields.append(Field(TRef(sub), f"new{uid}", nxt))
    else:
        if step == "cap+1":
            node.cap += 1
        elif step == "cap+3":
            node.cap += 3
        elif step == "capx2":
            node.cap *= 2


@dataclass
class EvoCase:
    name: str
    old: Case
    new: Case
    steps: Tuple[str, ...]
    tags: Tuple[str, ...] = ()


def evo_bases() -> List[Case]:
    bases = [c for c in f_shape_core() if "ext" in c.tags and c.name not in ("drone",) and not any(im for im in c.proto.imports)]
    U = lambda n: TBase("uint", n)
    I = lambda n: TBase("int", n)
    # arrays of extensible messages (element and capacity may both grow)
    el = Message("El", [Field(U(6), "a", 1), Field(I(9), "b", 2)], ext=True)
    m = Message("M", [Field(U(3), "h", 1), Field(TArray(TRef(el), 2, ext=True), "els", 2), Field(U(7), "t", 3)])
    bases.append(case_of("evo_arr_of_ext", Proto("evo_arr_of_ext", [el, m]), ("ext",), only=["M"]))
    # extensible array of a 2-D alias, nested message after it
    row = Alias("Row", TArray(I(5), 2, ext=True))
    inner = Message("Inner", [Field(TRef(row), "r", 1), Field(U(2), "z", 2)], ext=True)
    m2 = Message("M", [Field(TArray(TRef(row), 2, ext=True), "rows", 1), Field(TRef(inner), "inner", 2), Field(TArray(TRef(inner), 2), "inners", 3), Field(I(4), "t", 4)], ext=True)
    bases.append(case_of("evo_rows", Proto("evo_rows", [row, inner, m2]), ("ext",), only=["M"]))
    # a large extensible message / array: the 16-bit prefix needs its high byte
    big = Message("Big", [Field(TArray(TBase("byte"), 40), "raw", 1), Field(U(5), "k", 2)], ext=True)
    m5 = Message("M", [Field(U(3), "h", 1), Field(TRef(big), "big", 2), Field(TArray(U(1), 260, ext=True), "bits", 3), Field(I(7), "t", 4)])
    bases.append(case_of("evo_big", Proto("evo_big", [big, m5]), ("ext", "large"), only=["M"]))
    # empty extensible placeholder
    res = Message("Reserved", [], ext=True)
    m3 = Message("M", [Field(U(3), "h", 1), Field(TRef(res), "r", 2), Field(TArray(TRef(res), 2), "rs", 3), Field(U(6), "t", 4)])
    bases.append(case_of("evo_reserved", Proto("evo_reserved", [res, m3]), ("ext",), only=["M"]))
    # signed/enum elements in grown arrays, arrays at the very end of the message
    e = _e("Mode", 3, [0, 2, 5])
    m4 = Message("M", [Field(U(1), "h", 1), Field(TArray(TRef(e), 2, ext=True), "modes", 2), Field(TArray(I(11), 3, ext=True), "vals", 3), Field(TArray(TBase("byte"), 2, ext=True), "raw", 4)])
    bases.append(case_of("evo_tail", Proto("evo_tail", [e, m4]), ("ext",), only=["M"]))
    # fields DECLARED out of number order in extensible messages (the wire follows the numbers, also for appended fields)
    pin = Message("Pin", [Field(U(5), "fine", 4), Field(I(9), "lat", 2), Field(U(3), "h", 1)], ext=True)
    m7 = Message("M", [Field(I(12), "lon", 3), Field(TRef(pin), "pin", 2), Field(U(6), "t", 7), Field(U(2), "a", 1)], ext=True)
    bases.append(case_of("evo_perm", Proto("evo_perm", [pin, m7]), ("ext", "perm"), only=["M"]))
    # every element kind in a grown array, each followed by a field that must still be found: bool (1 bit in 1 byte),
    # byte, a sub-byte uint, an alias of an int, an alias of bool
    flag = Alias("Flag", TBase("bool"))
    tick = Alias("Tick", I(13))
    m6 = Message("M", [Field(TArray(TBase("bool"), 3, ext=True), "flags", 1), Field(U(5), "a", 2), Field(TArray(TBase("byte"), 2, ext=True), "raw", 3), Field(I(6), "b", 4),
                       Field(TArray(U(3), 2, ext=True), "tri", 5), Field(TBase("bool"), "c", 6), Field(TArray(TRef(flag), 2, ext=True), "fl2", 7), Field(TArray(TRef(tick), 1, ext=True), "ticks", 8), Field(U(9), "t", 9)])
    bases.append(case_of("evo_elem_kinds", Proto("evo_elem_kinds", [flag, tick, m6]), ("ext",), only=["M"]))
    return bases


def f_evo(quick: bool, seed: int) -> List[EvoCase]:
    out: List[EvoCase] = []
    rng = random.Random(seed * 31 + 5)
    for base in evo_bases():
        nodes = _ext_nodes(base.proto)
        singles: List[Tuple[int, str]] = []
        for i, (kind, _) in enumerate(nodes):
            for st in EVO_MSG_STEPS if kind == "msg" else EVO_ARR_STEPS:
                singles.append((i, st))
        chains: List[Tuple[Tuple[int, str], ...]] = [(s,) for s in singles]
        pairs = [(a, b) for a in singles for b in singles]
        if quick:
            rng.shuffle(pairs)
            pairs = pairs[: max(4, len(singles))]
            chains = chains[:: 2] if len(chains) > 12 else chains
        chains += pairs
        if not quick and len(singles) >= 3:  # seeded sample of three-step chains
            for _ in range(6):
                chains.append(tuple(rng.choice(singles) for _ in range(3)))
        only = [m.name for m in base.top()]
        for ci, ch in enumerate(chains):
            p2 = copy.deepcopy(base.proto)
            p2.name = base.proto.name  # same file/proto name: versions of one schema
            for k, (i, st) in enumerate(ch):
                # node indices refer to the traversal order of the *current* proto; appended
                # messages are inserted in front, so re-locate by identity order offset
                cur = _ext_nodes(p2)
                shift = len(cur) - len(nodes)
                _apply_step(p2, i + shift if st != "zzz" else i, st, 10 * ci + k)
            new = case_of(base.name, p2, base.tags, only)
            out.append(EvoCase(f"{base.name}#{ci}", base, new, tuple(f"{i}:{st}" for i, st in ch), base.tags))
    return out


# --------------------------------------------------------------------------- F_rw (C12)

from .schema import Style


@dataclass
class RwCase:
    name: str
    a: Case
    b: Case
    rewrites: Tuple[str, ...]
    pairs: List[Tuple[Tuple[Message, List[str]], Tuple[Message, List[str]]]]  # corresponding messages
    style_b: Optional[Style] = None


def _all_msgs(ds: List[Any]) -> List[Message]:
    out = []
    for d in ds:
        if isinstance(d, Message):
            out.extend(_all_msgs(d.nested))
            out.append(d)
    return out


def _walk_types(p: Proto):
    """yield (holder, attr) for every type slot: Field.type, Alias.to, TArray.el"""
    def rec_t(holder: Any, attr: str):
        t = getattr(holder, attr)
        yield holder, attr
        if isinstance(t, TArray):
            yield from rec_t(t, "el")
    for d in p.defs:
        if isinstance(d, Alias):
            yield from rec_t(d, "to")
    for m in _all_msgs(p.defs):
        for f in m.fields:
            yield from rec_t(f, "type")


def _has_local_dotted(p: Proto) -> bool:
    """does the schema refer to one of its own nested definitions by a dotted path?  Rewrites that move or rename
    nested definitions would have to re-derive such paths; they leave these schemas alone (rename follows them)."""
    imp_names = {im.as_name or im.proto.name for im in p.imports}
    for h, a in _walk_types(p):
        t = getattr(h, a)
        if isinstance(t, TRef) and t.text_ and "." in t.text_ and t.text_.split(".")[0] not in imp_names:
            return True
    return False


def rw_rename(p: Proto) -> bool:
    # dotted references written in the schema follow the renaming of every component (messages and nested enums get the
    # suffix below); import-qualified texts are left alone (the imported file is not renamed)
    imp_names = {im.as_name or im.proto.name for im in p.imports}
    for h, a in _walk_types(p):
        t = getattr(h, a)
        if isinstance(t, TRef) and t.text_ and "." in t.text_ and t.text_.split(".")[0] not in imp_names:
            t.text_ = ".".join(part + "Rn" for part in t.text_.split("."))
    for d in p.defs:
        if isinstance(d, (Alias, Enum, Const)):
            d.name = d.name + "Rn"
    for m in _all_msgs(p.defs):
        m.name = m.name + "Rn"
        for f in m.fields:
            f.name = "r_" + f.name
        for n in m.nested:
            if isinstance(n, Enum):
                n.name += "Rn"
    for d in list(p.defs) + [n for m in _all_msgs(p.defs) for n in m.nested]:
        if isinstance(d, Enum):
            d.members = [(nm + "_RN", v) for nm, v in d.members]
    for h, a in _walk_types(p):
        t = getattr(h, a)
        if isinstance(t, TRef) and t.text_ and "." not in t.text_:
            t.text_ = None
        if isinstance(t, TArray) and t.cap_text and not t.cap_text[0].isdigit() and "(" not in t.cap_text and " " not in t.cap_text:
            t.cap_text = t.cap_text + "Rn"
    return True


def rw_reorder_fields(p: Proto) -> bool:
    ch = False
    for m in _all_msgs(p.defs):
        if len(m.fields) > 1:
            m.fields.reverse()
            ch = True
    return ch


def _deps(d: Any) -> List[Any]:
    out: List[Any] = []

    def rec_t(t: Any) -> None:
        if isinstance(t, TArray):
            rec_t(t.el)
        elif isinstance(t, TRef):
            out.append(t.target)

    if isinstance(d, Alias):
        rec_t(d.to)
    elif isinstance(d, Message):
        for n in d.nested:
            out.extend(x for x in _deps(n) if x is not n)
        for f in d.fields:
            rec_t(f.type)
    return out


def rw_reorder_defs(p: Proto) -> bool:
    """another valid topological order: repeatedly emit the *last* ready definition"""
    ids = {id(d): d for d in p.defs}
    nested_owner = {}
    for d in p.defs:
        if isinstance(d, Message):
            for m in _all_msgs(d.nested) + [n for n in d.nested]:
                nested_owner[id(m)] = d
    remaining = list(p.defs)
    done: List[Any] = []
    has_const = any(isinstance(d, Const) for d in p.defs)
    if has_const:
        return False
    while remaining:
        ready = [d for d in remaining if all((id(x) not in ids and id(nested_owner.get(id(x), x)) not in ids) or any(x is y or nested_owner.get(id(x)) is y for y in done) or x is d or nested_owner.get(id(x)) is d for x in _deps(d))]
        if not ready:
            return False
        d = ready[-1]
        remaining.remove(d)
        done.append(d)
    ch = any(a is not b for a, b in zip(done, p.defs))
    p.defs = done
    return ch


def rw_alias_intro(p: Proto) -> bool:
    k = 0
    new: List[Alias] = []
    for m in _all_msgs(p.defs):
        for f in m.fields:
            t = f.type
            if isinstance(t, TBase) or (isinstance(t, TArray) and isinstance(t.el, TBase) and not t.cap_text):
                a = Alias(f"Rw{k}", t)
                k += 1
                new.append(a)
                f.type = TRef(a)
    p.defs = new + p.defs  # type: ignore
    return bool(new)


def rw_alias_inline(p: Proto) -> bool:
    ch = False
    for m in _all_msgs(p.defs):
        for f in m.fields:
            t = f.type
            if isinstance(t, TRef) and isinstance(t.target, Alias) and "." not in (t.text_ or ""):
                f.type = copy.deepcopy(t.target.to) if isinstance(t.target.to, TBase) else TArray(copy.copy(t.target.to.el), t.target.to.cap, t.target.to.ext, t.target.to.cap_text)  # never share a TRef: later rewrites edit its text
                ch = True
            elif isinstance(t, TArray) and isinstance(t.el, TRef) and isinstance(t.el.target, Alias) and isinstance(t.el.target.to, TBase) and "." not in (t.el.text_ or ""):
                t.el = copy.deepcopy(t.el.target.to)
                ch = True
    return ch


def rw_nest(p: Proto) -> bool:
    """move a top-level message/enum that is referenced from exactly one top-level message
    (and from nothing else) into that message"""
    if _has_local_dotted(p):
        return False
    users: Dict[int, List[Any]] = {}
    for d in p.defs:
        for x in _deps(d):
            users.setdefault(id(x), []).append(d)
    for d in list(p.defs):
        if not isinstance(d, (Message, Enum)):
            continue
        us = users.get(id(d), [])
        tops = {id(u) for u in us}
        if len(tops) == 1 and isinstance(us[0], Message) and us[0] is not d and us[0] in p.defs:
            host = us[0]
            if isinstance(d, Message) and (d.nested or any(id(x) != id(d) and isinstance(x, (Message, Enum)) and x in p.defs and False for x in _deps(d))):
                continue
            if any(getattr(n, "name", None) == d.name for n in host.nested) or any(f.name == d.name for f in host.fields):
                continue
            p.defs.remove(d)
            host.nested.append(d)
            return True
    return False


def rw_hoist(p: Proto) -> bool:
    if _has_local_dotted(p):
        return False
    names = {d.name for d in p.defs}
    for m in p.defs:
        if isinstance(m, Message) and m.nested:
            n = m.nested[0]
            if n.name in names:
                continue
            # refs written as a plain name keep resolving (file scope is searched last)
            m.nested.remove(n)
            p.defs.insert(p.defs.index(m), n)
            for h, a in _walk_types(p):
                t = getattr(h, a)
                if isinstance(t, TRef) and t.target is n:
                    t.text_ = None
            return True
    return False


def rw_to_import(p: Proto) -> bool:
    if _has_local_dotted(p):
        return False
    if p.imports:
        return False
    def uses_const(d: Any) -> bool:
        # capacities written as constant names refer to constants of the main file, which stay there
        def rec(t: Any) -> bool:
            return isinstance(t, TArray) and (bool(t.cap_text) or rec(t.el))
        if isinstance(d, Alias):
            return rec(d.to)
        if isinstance(d, Message):
            return any(rec(f.type) for m in _all_msgs([d]) for f in m.fields)
        return False

    movable = []
    for d in p.defs:
        if isinstance(d, (Enum, Alias)) or (isinstance(d, Message) and not d.nested):
            if all(any(x is y for y in movable) for x in _deps(d)) and not uses_const(d):
                movable.append(d)
        if len(movable) >= 2:
            break
    if not movable:
        return False
    lib = Proto(p.name + "_lib", list(movable))
    for d in movable:
        p.defs.remove(d)
    p.imports.append(Import(lib, None))
    for h, a in _walk_types(p):
        t = getattr(h, a)
        if isinstance(t, TRef) and any(t.target is d for d in movable):
            t.text_ = f"{lib.name}.{t.target.name}"
    return True


def rw_const_expr(p: Proto) -> bool:
    k = 0
    consts: List[Const] = []
    for h, a in _walk_types(p):
        t = getattr(h, a)
        if isinstance(t, TArray) and not t.cap_text:
            if k % 4 == 0:
                c = Const(f"CAP_{k}", f"({t.cap} + {k + 3}) * 2 / 2 - {k + 3}", t.cap)
            elif k % 4 == 3:
                # chains without parentheses: left to right, * and / before + and -
                c = Const(f"CAP_{k}", f"{t.cap} * 12 / 3 / 4 + 96 / 8 / 2 - 2 * 3 + 7 - 4 - 3", t.cap)
            elif k % 4 == 2:
                # exact integer division far beyond what a double represents (2^53 + 1 is odd)
                c = Const(f"CAP_{k}", f"({t.cap} + 9007199254740993) / 1 - 9007199254740993 + 36028797018963969 / 36028797018963969 - 1", t.cap)
            else:
                c = Const(f"CAP_{k}", f"0x{t.cap:x}", t.cap)
            consts.append(c)
            t.cap_text = c.name
            k += 1
    p.defs = consts + p.defs  # type: ignore
    return bool(consts)


def rw_renumber(p: Proto) -> bool:
    ch = False
    for m in _all_msgs(p.defs):
        order = sorted(m.fields, key=lambda f: f.number)
        for r, f in enumerate(order):
            nn = 3 * r + 2 if r < len(order) - 1 or len(order) < 2 else 255  # the last field gets the largest legal number
            if nn != f.number:
                ch = True
            f.number = nn
    return ch


def rw_rename_shadow(p: Proto) -> bool:
    """rename a nested enum/message to the name of a file-level definition that its host does
    not reference (legal shadowing: the nested one must keep being used inside the host)"""
    if _has_local_dotted(p):
        return False
    tops = {d.name: d for d in p.defs if isinstance(d, (Enum, Message, Alias))}
    for host in [d for d in p.defs if isinstance(d, Message)]:
        used = {id(x) for x in _deps(host)}
        for n in host.nested:
            for tn, td in tops.items():
                if td is host or id(td) in used or tn == n.name or any(getattr(x, "name", None) == tn for x in host.nested):
                    continue
                if isinstance(td, type(n)) or isinstance(n, Enum):
                    n.name = tn
                    for h, a in _walk_types(p):
                        t = getattr(h, a)
                        if isinstance(t, TRef) and t.target is n:
                            t.text_ = None
                    return True
    return False


def _unshare_types(p: Proto) -> None:
    """give every type slot its own TRef / TArray / TBase node (targets keep their identity): a rewrite that edits the
    text of one reference must never edit another one through a shared node"""
    def clone(t: Any) -> Any:
        if isinstance(t, TArray):
            return TArray(clone(t.el), t.cap, t.ext, t.cap_text)
        return copy.copy(t)
    for d in p.defs:
        if isinstance(d, Alias):
            d.to = clone(d.to)
    for m in _all_msgs(p.defs):
        for f in m.fields:
            f.type = clone(f.type)
    for imp in p.imports:
        _unshare_types(imp.proto)


REWRITES = {
    "rename": rw_rename, "reorder_fields": rw_reorder_fields, "reorder_defs": rw_reorder_defs, "alias_intro": rw_alias_intro, "alias_inline": rw_alias_inline,
    "nest": rw_nest, "hoist": rw_hoist, "to_import": rw_to_import, "const_expr": rw_const_expr, "renumber": rw_renumber, "style": None, "rename_shadow": rw_rename_shadow,
}
STYLE_B = Style(semi=True, indent="  ", blank_between=2, comments=True, trailing_ws=True)


def rw_bases() -> List[Case]:
    keep = ("arr_alias_odd", "uarr_odd", "nest0", "nest5", "nested_decl", "arr_msg", "arr_nd", "arr_bytes", "ext3", "ext7", "extalias", "perm1", "perm9", "empty", "wide3", "sarr9", "sarr24", "drone", "enum3", "enum9", "batch16_5", "extarr4")
    bases = [c for c in f_shape_core() if c.name in keep]
    # bases with a file-level and a nested definition of different widths (for rename_shadow)
    kind = _e("Kind", 3, [0, 1, 5])
    mode = _e("Mode", 5, [0, 17, 30])
    other = Message("Other", [Field(TRef(kind), "k", 1)])
    sub = Message("Sub", [Field(TBase("int", 6), "v", 1), Field(TBase("byte"), "tag", 2), Field(TBase("bool"), "on", 3), Field(TBase("byte"), "tag2", 4)])
    item = Message("Item", [Field(TBase("uint", 11), "w", 1), Field(TBase("bool"), "b", 2)])
    packet = Message("Packet", [Field(TRef(mode), "mode", 1), Field(TArray(TRef(mode), 2), "modes", 2), Field(TRef(item), "item", 3), Field(TBase("uint", 4), "t", 4)], nested=[mode, item])
    bases.append(case_of("shadowable", Proto("shadowable", [kind, sub, other, packet]), ("shadow",)))
    # three levels of nesting and a coincidence of inner names: Link.Port.Stat next to a file-level Port with its own Stat
    # (different layouts); only the FULL chain of enclosing names keeps the generated definitions apart
    st_a = Message("Stat", [Field(TBase("uint", 5), "up", 1), Field(TBase("int", 7), "delta", 2)])
    port_a = Message("Port", [Field(TRef(st_a), "stat", 1), Field(TBase("uint", 3), "lane", 2)], nested=[st_a])
    link = Message("Link", [Field(TRef(port_a), "port", 1), Field(TRef(st_a, "Port.Stat"), "last", 2)], nested=[port_a])
    st_b = Message("Stat", [Field(TBase("uint", 11), "count", 1), Field(TBase("bool"), "ok", 2)])
    port_b = Message("Port", [Field(TRef(st_b), "stat", 1), Field(TBase("int", 4), "bias", 2)], nested=[st_b])
    top = Message("Top", [Field(TRef(link), "link", 1), Field(TRef(port_b), "port", 2), Field(TRef(st_b, "Port.Stat"), "stat", 3), Field(TBase("uint", 2), "t", 4)])
    bases.append(case_of("nest_coincide", Proto("nest_coincide", [link, port_b, top]), ("nest", "nested_decl"), only=["Top", "Link"]))
    return bases


def f_rw(quick: bool, seed: int) -> List[RwCase]:
    rng = random.Random(seed * 17 + 3)
    bases = rw_bases()
    for i in range(6 if quick else 40):
        bases.append(rand_case(rng, 500 + i))
    out: List[RwCase] = []
    names = list(REWRITES)
    for base in bases:
        combos: List[Tuple[str, ...]] = [(n,) for n in names]
        for _ in range(2 if quick else 8):
            combos.append(tuple(rng.sample(names, rng.choice([2, 3]))))
        for combo in combos:
            memo: Dict[int, Any] = {}
            p2 = copy.deepcopy(base.proto, memo)
            applied = []
            style = None
            for rw in combo:
                if rw == "style":
                    style = STYLE_B
                    applied.append(rw)
                else:
                    _unshare_types(p2)
                    if REWRITES[rw](p2):
                        applied.append(rw)
            if not applied:
                continue
            # the rewritten main proto keeps its file name unless renamed explicitly
            b = case_of(base.name, p2, base.tags)
            chains_b = {id(m): ch for m, ch in _msgs(p2)}
            pairs = []
            for m, ch in base.messages:
                m2 = memo.get(id(m))
                if m2 is None or id(m2) not in chains_b:
                    continue  # moved into the imported file
                pairs.append(((m, ch), (m2, chains_b[id(m2)])))
            if pairs:
                out.append(RwCase(f"{base.name}:{'+'.join(applied)}", base, b, tuple(applied), pairs, style))
    return out
