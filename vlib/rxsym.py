"""Backtracking matcher for Python `re` patterns over SYMBOLIC characters (E1 proxies): the pattern is parsed by the
standard library's own parser (re._parser, flags as ply passes them) and interpreted with the priority rules of the `re`
engine -- alternatives left to right, greedy repetitions longest first, lazy ones shortest first -- so that WHERE a
match ends, not only whether the text is in the language, becomes a function of symbolic input.  Each comparison of a
symbolic character forks in the engine; one path = one class of texts.

Subset: literals, classes (ranges, negation, \\d \\w \\s), `.`, groups, alternation, * + ? {m,n} greedy and lazy, \\b.
Anything else raises Inconclusive.  The interpreter is validated against the real `re` on every path's witness."""
from __future__ import annotations

import re
import re._constants as C  # type: ignore
import re._parser as P  # type: ignore
from typing import Any, Callable, List, Optional

from .common import Inconclusive

Cont = Callable[[int], Optional[int]]


class SymMatcher:
    def __init__(self, pattern: str, flags: int = re.VERBOSE):
        self.pattern = pattern
        self.flags = flags
        try:
            self.tree = P.parse(pattern, flags)
        except re.error as e:
            raise Inconclusive(f"regex {pattern!r} does not parse: {e}")
        self.steps = 0

    # ---- character predicates (c is a symbolic or concrete int)
    def _in(self, items: List[Any], c: Any) -> bool:
        neg = False
        hit = False
        for op, av in items:
            if op is C.NEGATE:
                neg = True
            elif op is C.LITERAL:
                if c == av:
                    hit = True
                    break
            elif op is C.RANGE:
                lo, hi = av
                if c >= lo and c <= hi:
                    hit = True
                    break
            elif op is C.CATEGORY:
                if self._category(av, c):
                    hit = True
                    break
            else:
                raise Inconclusive(f"regex: class item {op} unsupported")
        return hit != neg

    def _word(self, c: Any) -> bool:
        return bool((c >= 97 and c <= 122) or (c >= 65 and c <= 90) or (c >= 48 and c <= 57) or c == 95)

    def _category(self, cat: Any, c: Any) -> bool:
        if cat is C.CATEGORY_DIGIT:
            return bool(c >= 48 and c <= 57)
        if cat is C.CATEGORY_NOT_DIGIT:
            return not (c >= 48 and c <= 57)
        if cat is C.CATEGORY_WORD:
            return self._word(c)
        if cat is C.CATEGORY_NOT_WORD:
            return not self._word(c)
        if cat is C.CATEGORY_SPACE:
            return bool((c >= 9 and c <= 13) or c == 32)
        if cat is C.CATEGORY_NOT_SPACE:
            return not ((c >= 9 and c <= 13) or c == 32)
        raise Inconclusive(f"regex: category {cat} unsupported")

    # ---- matching
    def match(self, s: List[Any], start: int = 0) -> Optional[int]:
        """end index of the match of the pattern at `start` (as re.match would report), or None"""
        self.s = s
        self.n = len(s)
        return self._seq(list(self.tree), 0, start, lambda j: j)

    def _seq(self, nodes: List[Any], k: int, i: int, cont: Cont) -> Optional[int]:
        if k == len(nodes):
            return cont(i)
        op, av = nodes[k]
        nxt: Cont = lambda j: self._seq(nodes, k + 1, j, cont)
        self.steps += 1
        if op is C.LITERAL:
            return nxt(i + 1) if i < self.n and self.s[i] == av else None
        if op is C.NOT_LITERAL:
            return nxt(i + 1) if i < self.n and not (self.s[i] == av) else None
        if op is C.ANY:
            if self.flags & re.DOTALL:
                return nxt(i + 1) if i < self.n else None
            return nxt(i + 1) if i < self.n and not (self.s[i] == 10) else None
        if op is C.IN:
            return nxt(i + 1) if i < self.n and self._in(av, self.s[i]) else None
        if op is C.SUBPATTERN:
            _g, add, dele, p = av
            if add or dele:
                raise Inconclusive("regex: inline flags unsupported")
            return self._seq(list(p), 0, i, nxt)
        if op is C.BRANCH:
            for alt in av[1]:
                r = self._seq(list(alt), 0, i, nxt)
                if r is not None:
                    return r
            return None
        if op in (C.MAX_REPEAT, C.MIN_REPEAT):
            lo, hi, p = av
            body = list(p)
            greedy = op is C.MAX_REPEAT

            def rep(j: int, count: int) -> Optional[int]:
                def again() -> Optional[int]:
                    if hi is not C.MAXREPEAT and count >= hi:
                        return None
                    # a round that consumes nothing ends the repetition (as sre does)
                    return self._seq(body, 0, j, lambda j2: rep(j2, count + 1) if (j2 > j or count + 1 < lo) else None)

                def leave() -> Optional[int]:
                    return nxt(j) if count >= lo else None

                first, second = (again, leave) if greedy else (leave, again)
                r = first()
                return r if r is not None else second()

            return rep(i, 0)
        if op is C.AT:
            if av is C.AT_BOUNDARY or av is C.AT_NON_BOUNDARY:
                before = i > 0 and self._word(self.s[i - 1])
                after = i < self.n and self._word(self.s[i])
                return nxt(i) if ((before != after) == (av is C.AT_BOUNDARY)) else None
            raise Inconclusive(f"regex: anchor {av} unsupported")
        raise Inconclusive(f"regex: construct {op} unsupported")
