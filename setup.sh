#!/bin/sh
# Offline setup: nothing to build. Verifies the tools the checks rely on are present.
set -e
cd "$(dirname "$0")"
/usr/local/bin/python3-vt -c "import z3, sys; print('z3', z3.get_version_string(), 'python', sys.version.split()[0])"
test -d /venv/lib/python3.12/site-packages/ply || { echo "ply missing"; exit 1; }
test -x /venv/bin/python
command -v clang >/dev/null && clang --version | head -1
command -v gcc >/dev/null && gcc --version | head -1
mkdir -p evidence replays
echo setup ok
