# spike: synthetic token source with symbolic layout -> D13 (_get_col on first line)
import sys
src=open('/tmp/probe/sym1.py').read().split("n1,n2,w,v,cap,mb=z3.Ints")[0]
# inject max before modules load
src=src.replace("BI['isinstance']=sym_isinstance","BI['isinstance']=sym_isinstance; BI['max']=lambda *a: sym_max(*a)")
exec(src)
def sym_max(a,b):
    if isinstance(a,SymInt) or isinstance(b,SymInt): return SymInt(z3.If(L(a)>=L(b),L(a),L(b)))
    return builtins.max(a,b)
SymInt.__bool__=lambda s: ENGINE.branch(s.e!=0)
class Layout:
    """stub for lexer.lexdata: answers rfind('\\n',0,pos) for registered token positions"""
    def __init__(self): self.pos={}
    def reg(self, lexpos, linestart): self.pos[lexpos.e.get_id()]=linestart
    def rfind(self, sub, a, b):
        assert sub=="\n" and a==0
        if isinstance(b,int): return 990
        return SymInt(self.pos[b.e.get_id()]-1)
    def count(self, sub): return 10
    def __len__(self): return 1000
Lm,Sm,Cm=z3.Ints("L S C")   # line, line start offset, 0-based column of the name token M
def run():
    ENGINE.pc += [Lm>=1, Cm>=8, z3.Implies(Lm==1,Sm==0), z3.Implies(Lm>=2,Sm>=Lm-1)]
    lay=Layout(); holder=h4.Toks([], lay)
    def tok(ty,val,line,lexpos):
        t=h4.mk(ty,val,line,lexpos); t.lexer=holder; return t
    lpM=SymInt(Sm+Cm); lay.reg(lpM,Sm)
    lpK=SymInt(Sm+Cm-8); lay.reg(lpK,Sm)
    lpB=SymInt(Sm+Cm+2); lay.reg(lpB,Sm)
    line=SymInt(Lm)
    toks=[tok("MESSAGE","message",line,lpK), tok("IDENTIFIER","M",line,lpM), tok("{","{",line,lpB), tok("}","}",line,SymInt(Sm+Cm+3)),
          tok("NEWLINE","\n",line,SymInt(Sm+Cm+4)), tok("PROTO","proto",line+1,SymInt(Sm+Cm+5)), tok("IDENTIFIER","p",line+1,SymInt(Sm+Cm+11)), tok("NEWLINE","\n",line+1,SymInt(Sm+Cm+12))]
    lay.reg(toks[3].lexpos,Sm)
    holder.toks=toks
    p=_P; p.scope_stack.clear(); p.filepath_stack.clear(); p.comment_block.clear(); p.lexer.filepath_stack.clear()
    with p.lexer.maintain_filepath(""):
        with p.maintain_filepath(""):
            proto=p.parser.parse("", lexer=holder)
    return proto.members['M']
import time
work=[[]]; t0=time.time(); paths=0
while work:
    sched=work.pop(); ENGINE.reset(sched)
    m=run(); work.extend(ENGINE.pending); paths+=1
    s=z3.Solver(); s.add(*ENGINE.pc)
    s.push(); s.add(L(m.lineno)!=Lm); print("lineno == line of name token:", s.check()==z3.unsat); s.pop()
    s.push(); s.add(L(m.token_col_start)!=Cm+1); r=s.check(); print("token_col_start == 1-based column:", r==z3.unsat, (s.model() if r==z3.sat else "")); s.pop()
    s.push(); s.add(L(m.scope_start_col)!=Cm+2+1); r=s.check(); print("scope_start_col == column of '{':", r==z3.unsat, (s.model() if r==z3.sat else "")); s.pop()
print("paths",paths,"%.2fs"%(time.time()-t0))
