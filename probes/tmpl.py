"""Spike: translate concatenation-template methods of the real CFormatter (ast) to z3 sequence terms."""
import ast, z3, time, inspect, sys
SRC = {p: ast.parse(open(p).read()) for p in ['/repo/compiler/bitproto/renderer/impls/c/formatter.py', '/repo/compiler/bitproto/renderer/formatter.py']}
METHODS = {}
for p, tree in SRC.items():
    for node in ast.walk(tree):
        if isinstance(node, ast.ClassDef):
            for f in node.body:
                if isinstance(f, ast.FunctionDef): METHODS.setdefault(f.name, f)   # derived class file first
class Unsupported(Exception): pass
class Abs:
    def __init__(s, cls, **attrs): s.cls = cls; s.attrs = attrs
IDENT = z3.Concat(z3.Union(z3.Range("A", "Z"), z3.Range("a", "z"), z3.Re("_")), z3.Star(z3.Union(z3.Range("a", "z"), z3.Range("A", "Z"), z3.Range("0", "9"), z3.Re("_"))))
NUM = z3.Concat(z3.Range("1", "9"), z3.Star(z3.Range("0", "9")))
class Ctx:
    def __init__(s): s.cons = []; s.opaque = {}; s.n = 0
    def fresh_ident(s, key):
        if key not in s.opaque:
            s.n += 1; v = z3.String(f"id{s.n}_{key[0]}"); s.cons += [z3.InRe(v, IDENT), z3.Length(v) <= 8]; s.opaque[key] = v
        return s.opaque[key]
OPAQUE = {'format_message_name', 'format_alias_name', 'format_enum_name', 'format_definition_name'}
def tr_call(ctx, name, args, self_obj):
    if name in OPAQUE: return ctx.fresh_ident((name, id(args[0])))
    f = METHODS[name]; env = {'self': self_obj}
    for a, v in zip(f.args.args[1:], args): env[a.arg] = v
    for st in f.body:
        if isinstance(st, ast.Expr) and isinstance(st.value, ast.Constant): continue  # docstring
        if isinstance(st, ast.Assign) and len(st.targets) == 1 and isinstance(st.targets[0], ast.Name):
            env[st.targets[0].id] = ev(ctx, st.value, env); continue
        if isinstance(st, ast.Return): return ev(ctx, st.value, env)
        if isinstance(st, ast.If):
            c = ev(ctx, st.test, env)
            if c is True:
                for s2 in st.body:
                    if isinstance(s2, ast.Return): return ev(ctx, s2.value, env)
                    raise Unsupported("if body")
            elif c is False: continue
            else: raise Unsupported("symbolic if")
            continue
        if isinstance(st, ast.Raise): raise Unsupported("reached raise in " + name)
        raise Unsupported(f"stmt {ast.dump(st)[:80]} in {name}")
    raise Unsupported("no return in " + name)
def tostr(ctx, v):
    if isinstance(v, z3.SeqRef): return v
    if isinstance(v, str): return z3.StringVal(v)
    if isinstance(v, tuple) and v[0] == 'intstr': return v[1]
    raise Unsupported(f"tostr {v}")
def ev(ctx, e, env):
    if isinstance(e, ast.Constant): return e.value
    if isinstance(e, ast.Name): return env[e.id]
    if isinstance(e, ast.JoinedStr):
        parts = []
        for v in e.values:
            if isinstance(v, ast.Constant): parts.append(z3.StringVal(v.value))
            else:
                if v.format_spec is not None or v.conversion != -1: raise Unsupported("format spec")
                parts.append(tostr(ctx, ev(ctx, v.value, env)))
        return z3.Concat(*parts) if len(parts) > 1 else parts[0]
    if isinstance(e, ast.Attribute):
        o = ev(ctx, e.value, env)
        if isinstance(o, Abs):
            if e.attr in o.attrs: return o.attrs[e.attr]
            raise Unsupported(f"attr {e.attr} of {o.cls}")
        raise Unsupported("attr on " + repr(o))
    if isinstance(e, ast.Call):
        if isinstance(e.func, ast.Attribute) and isinstance(e.func.value, ast.Name) and e.func.value.id == 'self':
            return tr_call(ctx, e.func.attr, [ev(ctx, a, env) for a in e.args], env['self'])
        if isinstance(e.func, ast.Name) and e.func.id == 'isinstance':
            o = ev(ctx, e.args[0], env); return o.cls == e.args[1].id
        if isinstance(e.func, ast.Attribute) and e.func.attr == 'format' and isinstance(e.func.value, ast.Constant):
            fmt = e.func.value.value; args = [tostr(ctx, ev(ctx, a, env)) for a in e.args]; parts = []
            import re
            pos = 0
            for m in re.finditer(r'\{(\d*)\}', fmt):
                if m.start() > pos: parts.append(z3.StringVal(fmt[pos:m.start()]))
                parts.append(args[int(m.group(1) or 0)]); pos = m.end()
            if pos < len(fmt): parts.append(z3.StringVal(fmt[pos:]))
            return z3.Concat(*parts)
        raise Unsupported("call " + ast.dump(e.func)[:60])
    if isinstance(e, ast.BinOp) and isinstance(e.op, ast.Add):
        return z3.Concat(tostr(ctx, ev(ctx, e.left, env)), tostr(ctx, ev(ctx, e.right, env)))
    raise Unsupported("expr " + ast.dump(e)[:80])

def field(ctx, tag):
    msg = Abs('Message'); num = z3.String(f"num_{tag}"); ctx.cons += [z3.InRe(num, NUM), z3.Length(num) <= 3]
    return Abs('MessageField', message=msg, number=('intstr', num)), msg, num
def alias(ctx, tag): return Abs('Alias')
t0 = time.time()
ctx = Ctx(); SELF = Abs('CFormatter'); ARR = Abs('Array')
d1, m1, n1 = field(ctx, 1); d2, m2, n2 = field(ctx, 2); a1 = alias(ctx, 1); msg3 = Abs('Message')
terms = {
  'arrproc(field1)': (tr_call(ctx, 'format_bp_array_processor_name', [ARR, d1], SELF), ('f', 1)),
  'arrproc(field2)': (tr_call(ctx, 'format_bp_array_processor_name', [ARR, d2], SELF), ('f', 2)),
  'arrproc(alias)': (tr_call(ctx, 'format_bp_array_processor_name', [ARR, a1], SELF), ('a', 1)),
  'msgproc(msg3)': (tr_call(ctx, 'format_bp_message_processor_name', [msg3], SELF), ('m', 3)),
  'aliasproc(alias)': (tr_call(ctx, 'format_bp_alias_processor_name', [a1], SELF), ('ap', 1)),
  'initer(msg3)': (tr_call(ctx, 'format_bp_message_field_descriptor_initer', [msg3], SELF), ('i', 3)),
}
print("translated in %.2fs" % (time.time() - t0))
for k, (t, _) in terms.items(): print(" ", k, "=", t)
names = list(terms)
nm1 = ctx.opaque[('format_message_name', id(m1))]; nm2 = ctx.opaque[('format_message_name', id(m2))]
for i in range(len(names)):
    for j in range(i + 1, len(names)):
        s = z3.Solver(); s.set("timeout", 20000); s.add(*ctx.cons)
        s.add(terms[names[i]][0] == terms[names[j]][0])
        if names[i].startswith('arrproc(field') and names[j].startswith('arrproc(field'):
            s.add(z3.Or(nm1 != nm2, n1 != n2))   # distinct sources
        t0 = time.time(); r = s.check()
        line = f"{names[i]:18} vs {names[j]:18}: {r} {time.time()-t0:.2f}s"
        if r == z3.sat:
            mdl = s.model(); line += "  " + ", ".join(f"{d}={mdl[d]}" for d in mdl.decls() if 'id' in d.name() or 'num' in d.name())
        print(line)
