# extends sym0: full path exploration of encode+decode round trip on t1.M (C02-style)
import z3, sys, time
exec(open('/tmp/probe/sym0.py').read().split("t0=time.time()")[0])
class Abort(BaseException): pass
def SymInt_eq_patch():
    pass
# add missing ops
SymInt.__ne__=lambda s,o: SymBool(s.e!=SymInt.lift(o).e)
SymInt.__gt__=lambda s,o: SymBool(s.e>SymInt.lift(o).e)
SymInt.__le__=lambda s,o: SymBool(s.e<=SymInt.lift(o).e)
SymInt.__bool__=lambda s: ENGINE.branch(s.e!=0)
def sb_and(s,o): return SymBool(z3.And(s.e,o.e if isinstance(o,SymBool) else z3.BoolVal(bool(o))))
SymBool.__and__=sb_and
def conc_hash(self):
    # enumerate feasible values (<=16) and fork
    vals=[]; s=z3.Solver(); s.add(*ENGINE.pc)
    while len(vals)<=16 and s.check()==z3.sat:
        v=s.model().eval(self.e,model_completion=True).as_signed_long(); vals.append(v); s.add(self.e!=v)
    assert len(vals)<=16
    for v in vals[:-1]:
        if ENGINE.branch(self.e==v): return hash(v)
    ENGINE.branch(self.e==vals[-1]); return hash(vals[-1])
SymInt.__hash__=conc_hash
def sym_bool(x=False):
    if isinstance(x,SymBool): return x
    if isinstance(x,SymInt): return SymBool(x.e!=0)
    return builtins.bool(x)
def reset(sched): ENGINE.pc=[]; ENGINE.sched=list(sched); ENGINE.pos=0; ENGINE.pending=[]
def one():
    m=t1.M(); vs={}
    vs['x'],m.x=var('x',3); vs['y'],m.y=var('y',13,True); vs['a'],m.inner.a=var('a',5,True)
    bb=z3.Bool('b'); m.inner.b=SymBool(bb)
    for k in range(3): vs['arr%d'%k],m.arr[k]=var('arr%d'%k,7)
    for k in range(2): vs['bs%d'%k],m.bs[k]=var('bs%d'%k,8)
    vs['big'],m.big=var('big',64)
    cv=z3.BitVec('c',3); ENGINE.pc.append(z3.ULE(cv,2)); m.c=SymInt(z3.ZeroExt(W-3,cv),4)
    out=m.encode()
    n=t1.M(); n.decode(out)
    obl=[SymInt.lift(n.x).e==SymInt.lift(m.x).e, SymInt.lift(n.y).e==SymInt.lift(m.y).e, SymInt.lift(n.inner.a).e==SymInt.lift(m.inner.a).e, SymInt.lift(n.big).e==SymInt.lift(m.big).e,
         SymInt.lift(int(n.c)).e==z3.ZeroExt(W-3,cv)]
    obl+= [SymInt.lift(n.arr[k]).e==SymInt.lift(m.arr[k]).e for k in range(3)]+[SymInt.lift(n.bs[k]).e==SymInt.lift(m.bs[k]).e for k in range(2)]
    nb=n.inner.b; obl.append((nb.e if isinstance(nb,SymBool) else z3.BoolVal(nb))==bb)
    return obl
# need bool injection for decode: reload t1 with bool
t1=load('/tmp/probe/t1_bp.py','t1_bp',{'int':sym_int,'bytearray':sym_bytearray,'bool':sym_bool})
t0=time.time(); work=[[]]; paths=0; bad=0; exc=0
while work:
    sched=work.pop(); reset(sched)
    try: obl=one()
    except Exception as e:
        exc+=1; work.extend(ENGINE.pending); paths+=1; print("EXC",type(e).__name__,e); continue
    work.extend(ENGINE.pending); paths+=1
    s=z3.Solver(); s.add(*ENGINE.pc); s.add(z3.Not(z3.And(*obl)))
    if s.check()==z3.sat:
        bad+=1; mdl=s.model()
        for k,o in enumerate(obl):
            if not z3.is_true(mdl.eval(o,model_completion=True)): print("fails obl",k, z3.simplify(o) if k<3 else '')
        print(len(ENGINE.pc), ENGINE.sched)
print("paths",paths,"bad",bad,"exc",exc,"%.2fs"%(time.time()-t0))
