from collections import OrderedDict
def dup(n1: int, n2: int) -> bool:
    """
    post: _ == (n1 == n2)
    """
    d = OrderedDict((k, 1) for k in [n1])
    return n2 in d

def bl(w: int, v: int) -> bool:
    """
    pre: 1 <= w <= 64 and v >= 0
    post: _ == (v < 2**w)
    """
    return not (v.bit_length() > w)

def nb(n: int) -> int:
    """
    pre: 0 <= n <= 65535
    post: _ == (n + 7) // 8
    """
    if n % 8 == 0:
        return int(n / 8)
    return int(n / 8) + 1

def mul(w: int, cap: int) -> bool:
    """
    pre: 1 <= w <= 64 and 1 <= cap <= 65535
    post: _ == (cap <= 65535 // w)
    """
    return not (w * cap > 65535)
