# spike: lexed token source (real Lexer) + value substitution + real renderers with sentinel formatting
import sys
src=open('/tmp/probe/sym1.py').read().split("n1,n2,w,v,cap,mb=z3.Ints")[0]
exec(src)
import re, os, tempfile
SENT={}
def _fmt(s,spec=''):
    k=f"⟦S{len(SENT)}⟧"; SENT[k]=s.e; return k
SymInt.__format__=_fmt; SymInt.__str__=lambda s:_fmt(s); SymInt.__repr__=SymInt.__str__
SymInt.__bool__=lambda s: ENGINE.branch(s.e!=0)
from bitproto.lexer import Lexer
from bitproto.renderer.impls.c.renderer_h import RendererCHeader
from bitproto.renderer.impls.go.renderer import RendererGo
from bitproto.renderer.impls.py.renderer import RendererPy
class LexedSource:
    """real Lexer over concrete text; values of designated INT literals replaced by symbols"""
    def __init__(self, text, subst):
        self.lx=Lexer(); self.lx.input(text); self.lexdata=text; self.subst=subst; self.lineno=1; self.lexpos=0
    def input(self,s): pass
    def token(self):
        t=self.lx.token()
        if t is None: return None
        if t.type in ('INT_LITERAL','HEX_LITERAL') and t.value in self.subst: t.value=self.subst[t.value]
        t.lexer=self
        return t
def parse_text(text, subst):
    p=_P; p.scope_stack.clear(); p.filepath_stack.clear(); p.comment_block.clear(); p.lexer.filepath_stack.clear()
    srcobj=LexedSource(text,subst)
    with p.lexer.maintain_filepath(""):
        with p.maintain_filepath(""):
            return p.parser.parse("", lexer=srcobj)
a,b,c=z3.Ints("a b c")
TEXT='''proto k

const BASE = 900001
const N = (BASE + 900002) * 900003
const FLAG = true

message M {
    byte[N] payload = 1
}
'''
import time
def run():
    ENGINE.pc += [a>=0,b>=0,c>=0]
    SENT.clear()
    proto=parse_text(TEXT,{900001:SymInt(a),900002:SymInt(b),900003:SymInt(c)})
    N=proto.members['N'].value
    cap=proto.members['M'].members['payload'].type.cap
    outs={}
    for R in (RendererCHeader,RendererGo,RendererPy):
        outs[R.__name__]=R(proto,outdir='/tmp').render_string()
    return N,cap,outs,dict(SENT)
work=[[]]; t0=time.time(); paths=0
while work:
    sched=work.pop(); ENGINE.reset(sched)
    try:
        N,cap,outs,sent=run(); outcome='ok'
    except ParserError as e:
        outcome=type(e).__name__
    work.extend(ENGINE.pending); paths+=1
    s=z3.Solver(); s.add(*ENGINE.pc)
    print("path",paths,outcome,"pc:",[str(z3.simplify(x)) for x in ENGINE.pc[3:]])
    if outcome=='ok':
        exp=(a+b)*c
        s.push(); s.add(z3.Or(N.e!=exp, cap.e!=exp)); print("  value/cap == (a+b)*c for all:", s.check()==z3.unsat); s.pop()
        for name,txt in outs.items():
            m=re.search(r'(?:#define N |const N int = |N: int = )(⟦S\d+⟧)',txt)
            term=sent[m.group(1)]
            s.push(); s.add(term!=exp); print("  ",name,"literal for N is the constant's term:",s.check()==z3.unsat, "|", [l for l in txt.split('\n') if ' N ' in l or l.startswith('N:')][0][:60]); s.pop()
print("paths",paths,"%.2fs"%(time.time()-t0))
