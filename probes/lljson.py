import sys, time, z3
from llspike import *
O = sys.argv[1] if len(sys.argv)>1 else 'O0'
mods=[Module(f'/tmp/probe/t1_{O}.ll'), Module(f'/tmp/probe/lib_{O}.ll')]
M=Machine(mods); mty=mods[0].types['%struct.M']
x=z3.BitVec('x',3); y=z3.BitVec('y',13); c=z3.BitVec('c',3); a=z3.BitVec('a',5); b=z3.BitVec('b',1)
arr=[z3.BitVec(f'arr{k}',7) for k in range(3)]; bs=[z3.BitVec(f'bs{k}',8) for k in range(2)]; big=z3.BitVec('big',64)
st=M.new_region(M.lay.size(mty),'msg'); buf=M.new_region(4096,'jsonbuf')
offs,_=M.lay.struct(mty)
vals=[(offs[0],IntT(8),z3.ZeroExt(5,x)),(offs[1],IntT(16),z3.SignExt(3,y)),(offs[2],IntT(8),z3.ZeroExt(5,c)),(offs[3],IntT(8),z3.SignExt(3,a)),(offs[3]+1,IntT(8),z3.ZeroExt(7,b))]
vals+=[(offs[4]+k,IntT(8),z3.ZeroExt(1,arr[k])) for k in range(3)]+[(offs[5]+k,IntT(8),bs[k]) for k in range(2)]+[(offs[6],IntT(64),big)]
for o,t,e in vals: M.store(Ptr(st,o),t,e)
t0=time.time(); r=M.call('@JsonM',[Ptr(st,0),Ptr(buf,0)]); t1=time.time()
seg=M.json[buf]
out=[]
for sg in seg:
    if sg[0]=='lit': out.append(sg[1])
    elif sg[0]=='choice': out.append(f"<{[str(v) for v in z3.z3util.get_vars(sg[1])]} ? {sg[2]} : {sg[3]}>")
    else:
        vs=[str(v) for v in z3.z3util.get_vars(sg[4])] if is_sym(sg[4]) else [sg[4]]
        out.append(f"<%{'l' if sg[2]==64 else ''}{sg[1]}:i{sg[3]}:{vs}>")
print(O,"steps",M.steps,"%.2fs"%(t1-t0)); print("".join(out)[:1500])
