import sys
sys.path.insert(0, "/repo/compiler")
from bitproto.lexer import Lexer
from bitproto.errors import InvalidEscapingChar
from ply.lex import LexToken
_L = Lexer()
ESC = {"t":"\t","r":"\r","n":"\n",chr(92):chr(92),"'":"'",'"':'"'}

def wellformed(body: str) -> bool:
    i = 0
    while i < len(body):
        c = body[i]
        if c == chr(92):
            if i + 1 >= len(body) or body[i+1] == "\n":
                return False
            i += 2
        elif c == "\n" or c == '"':
            return False
        else:
            i += 1
    return True

def ref(body: str):
    out = ""; i = 0
    while i < len(body):
        if body[i] == chr(92):
            if body[i+1] not in ESC: return None
            out += ESC[body[i+1]]; i += 2
        else:
            out += body[i]; i += 1
    return out

def unescape(body: str) -> bool:
    """
    pre: len(body) <= 3
    pre: wellformed(body)
    post: _
    """
    t = LexToken(); t.type = "STRING_LITERAL"; t.value = '"' + body + '"'; t.lineno = 1; t.lexpos = 0; t.lexer = _L.lexer
    try:
        r = _L.t_STRING_LITERAL(t)
        return r.value == ref(body)
    except InvalidEscapingChar:
        return ref(body) is None
