import z3, sys, time, types, builtins, importlib.abc, importlib.util, os
class Abort(BaseException): pass
class SymBool:
    def __init__(self,e): self.e=e
    def __bool__(self): return ENGINE.branch(self.e)
    def __and__(self,o): return SymBool(z3.And(self.e, lift_b(o)))
def lift_b(o):
    if isinstance(o,SymBool): return o.e
    return z3.BoolVal(bool(o))
def L(x):
    if isinstance(x,SymInt): return x.e
    if isinstance(x,SymBool): return z3.If(x.e,1,0)
    if isinstance(x,(bool,int)): return z3.IntVal(int(x))
    raise TypeError("cannot lift %r"%type(x))
class SymQuot:
    def __init__(self,n,d): self.n=n; self.d=d
class SymInt:
    def __init__(self,e): self.e=e
    def __add__(s,o): return SymInt(s.e+L(o))
    __radd__=__add__
    def __sub__(s,o): return SymInt(s.e-L(o))
    def __rsub__(s,o): return SymInt(L(o)-s.e)
    def __mul__(s,o): return SymInt(s.e*L(o))
    __rmul__=__mul__
    def __floordiv__(s,o): return SymInt(s.e/L(o))  # z3 int div: floor for positive divisor
    def __mod__(s,o): return SymInt(s.e%L(o))
    def __truediv__(s,o):
        assert isinstance(o,int) and o>0 and (o&(o-1))==0
        return SymQuot(s,o)
    def __lt__(s,o): return SymBool(s.e<L(o))
    def __le__(s,o): return SymBool(s.e<=L(o))
    def __gt__(s,o): return SymBool(s.e>L(o))
    def __ge__(s,o): return SymBool(s.e>=L(o))
    def __eq__(s,o):
        if not isinstance(o,(SymInt,SymBool,int,bool)): return False
        return SymBool(s.e==L(o))
    def __ne__(s,o):
        if not isinstance(o,(SymInt,SymBool,int,bool)): return True
        return SymBool(s.e!=L(o))
    def __hash__(s): return 0
    def bit_length(s):
        # non-negative only (guard)
        r=z3.IntVal(0)
        for k in range(80,0,-1):
            pass
        e=z3.IntVal(81)
        for k in range(80,-1,-1):
            e=z3.If(s.e < 2**k, z3.IntVal(k), e)
        return SymInt(e)
    def __format__(s,spec): return "<sym>"
    def __str__(s): return "<sym>"
    __repr__=__str__
class Engine:
    def __init__(self): self.reset([])
    def reset(self,sched): self.pc=[]; self.sched=list(sched); self.pos=0; self.pending=[]; 
    nq=0
    def branch(self,e):
        e=z3.simplify(e)
        if z3.is_true(e): return True
        if z3.is_false(e): return False
        if self.pos < len(self.sched):
            d=self.sched[self.pos]; self.pos+=1
            self.pc.append(e if d else z3.Not(e)); return d
        s=z3.Solver(); s.add(*self.pc)
        s.push(); s.add(e); t=s.check()==z3.sat; s.pop()
        s.push(); s.add(z3.Not(e)); f=s.check()==z3.sat; s.pop(); Engine.nq+=2
        if t and f:
            self.pending.append(self.sched[:self.pos]+[False]); d=True
        elif t: d=True
        elif f: d=False
        else: raise Abort()
        self.sched.append(d); self.pos+=1
        self.pc.append(e if d else z3.Not(e)); return d
ENGINE=Engine()
def sym_int(x=0,*a):
    if isinstance(x,SymInt): return x
    if isinstance(x,SymBool): return SymInt(L(x))
    if isinstance(x,SymQuot): return SymInt(x.n.e / z3.IntVal(x.d))  # requires 0<=n<2^53 lemma
    return builtins.int(x,*a)
def sym_isinstance(o,c):
    if isinstance(o,SymInt):
        cs=c if isinstance(c,tuple) else (c,)
        if builtins.int in cs or sym_int in cs: return True
    if c is sym_int: c=builtins.int
    elif isinstance(c,tuple): c=tuple(builtins.int if k is sym_int else k for k in c)
    return builtins.isinstance(o,c)
BI=dict(builtins.__dict__); BI['int']=sym_int; BI['isinstance']=sym_isinstance
class Finder(importlib.abc.MetaPathFinder, importlib.abc.Loader):
    def find_spec(self, name, path, target=None):
        if name=='bitproto' or name.startswith('bitproto.'):
            rel=name.replace('.','/'); base='/repo/compiler/'+rel
            if os.path.isdir(base): return importlib.util.spec_from_file_location(name, base+'/__init__.py', loader=self, submodule_search_locations=[base])
            if os.path.exists(base+'.py'): return importlib.util.spec_from_file_location(name, base+'.py', loader=self)
        return None
    def create_module(self, spec): return None
    def exec_module(self, module):
        src=open(module.__spec__.origin).read()
        module.__dict__['__builtins__']=BI
        exec(compile(src, module.__spec__.origin, 'exec'), module.__dict__)
sys.meta_path.insert(0, Finder())
sys.path.insert(0,'/tmp/probe')
import bitproto.parser as bpp
print(bpp.__file__)
from bitproto._ast import Uint, Bool
from bitproto.errors import ParserError
from ply.lex import LexToken
import h4  # uses normal bitproto? ensure uses ours
HDR = [("PROTO","proto","proto"),("IDENTIFIER","p","p"),("NEWLINE","\n","\n")]
NL = ("NEWLINE","\n","\n")
_P=bpp.Parser()
def run(seq):
    text=""; toks=[]; line=1; holder=h4.Toks([], "")
    for ty,val,tx in seq:
        t=h4.mk(ty,val,line,len(text)); t.lexer=holder; toks.append(t); text+=tx+" "
        if ty=="NEWLINE": line+=1
    holder.toks=toks; holder.lexdata=text
    p=_P; p.scope_stack.clear(); p.filepath_stack.clear(); p.comment_block.clear(); p.lexer.filepath_stack.clear()
    with p.lexer.maintain_filepath(""):
        with p.maintain_filepath(""):
            return p.parser.parse("", lexer=holder)
def explore(f, oracle):
    paths=0; work=[[]]; t0=time.time(); bad=[]
    while work:
        sched=work.pop(); ENGINE.reset(sched)
        try:
            r=f()
        except Abort: continue
        work.extend(ENGINE.pending); paths+=1
        s=z3.Solver(); s.add(*ENGINE.pc); s.add(oracle != z3.BoolVal(r))
        if s.check()==z3.sat: bad.append((r,s.model()))
    print(f.__name__,"paths",paths,"bad",bad[:2],"%.2fs"%(time.time()-t0),"queries",Engine.nq)
n1,n2,w,v,cap,mb=z3.Ints("n1 n2 w v cap mb")
def two_fields():
    try:
        run(HDR+[("MESSAGE","message","message"),("IDENTIFIER","M","M"),("{","{","{"),NL,
            ("BOOL_TYPE",Bool(token="bool",lineno=3),"bool"),("IDENTIFIER","a","a"),("=","=","="),("INT_LITERAL",SymInt(n1),"1"),NL,
            ("BOOL_TYPE",Bool(token="bool",lineno=4),"bool"),("IDENTIFIER","b","b"),("=","=","="),("INT_LITERAL",SymInt(n2),"2"),NL,
            ("}","}","}"),NL]); return True
    except ParserError: return False
explore(two_fields, z3.And(1<=n1,n1<=255,1<=n2,n2<=255,n1!=n2))
def enum_val():
    ENGINE.pc+= [w>=1,w<=64,v>=0]
    try:
        run(HDR+[("ENUM","enum","enum"),("IDENTIFIER","E","E"),(":",":",":"),("UINT_TYPE",Uint(cap=SymInt(w),token="uintN",lineno=2),"uintN"),("{","{","{"),NL,
            ("IDENTIFIER","A","A"),("=","=","="),("INT_LITERAL",SymInt(v),"1"),NL,("}","}","}"),NL]); return True
    except ParserError: return False
pw=z3.IntVal(0)
for k in range(1,65): pw=z3.If(w==k, z3.IntVal(2**k), pw)
explore(enum_val, v<pw)
def max_bytes():
    ENGINE.pc+= [w>=1,w<=64,mb>=0]
    try:
        run(HDR+[("MESSAGE","message","message"),("IDENTIFIER","M","M"),("{","{","{"),NL,
            ("OPTION","option","option"),("IDENTIFIER","max_bytes","max_bytes"),("=","=","="),("INT_LITERAL",SymInt(mb),"3"),NL,
            ("UINT_TYPE",Uint(cap=SymInt(w),token="uintN",lineno=3),"uintN"),("IDENTIFIER","a","a"),("=","=","="),("INT_LITERAL",1,"1"),NL,
            ("}","}","}"),NL]); return True
    except ParserError: return False
explore(max_bytes, z3.Or(mb==0, (w+7)/8 <= mb))
def msg_size():
    ENGINE.pc+= [w>=1,w<=64,cap>=1,cap<=65535]
    try:
        run(HDR+[("MESSAGE","message","message"),("IDENTIFIER","M","M"),("{","{","{"),NL,
            ("UINT_TYPE",Uint(cap=SymInt(w),token="uintN",lineno=3),"uintN"),("[","[","["),("INT_LITERAL",SymInt(cap),"7"),("]","]","]"),("'","'","'"),("IDENTIFIER","a","a"),("=","=","="),("INT_LITERAL",1,"1"),NL,
            ("}","}","}"),NL]); return True
    except ParserError: return False
explore(msg_size, w*cap+16<=65535)
