"""Throw-away spike: minimal LLVM-14 textual IR interpreter with z3 data, concrete pointers."""
import re, sys, z3, time

TOK = re.compile(r'''\s*(?:(c"(?:[^"\\]|\\[0-9A-Fa-f]{2}|\\\\)*")|("(?:[^"\\]|\\.)*")|([%@][-a-zA-Z$._0-9]+|[%@]"[^"]*")|(-?\d+)|(\.\.\.)|([a-zA-Z_][a-zA-Z0-9_.]*)|(.))''')

def lex(line):
    out = []; pos = 0
    line = line.split(' ;')[0] if ' ;' in line and 'c"' not in line else line
    while pos < len(line):
        m = TOK.match(line, pos)
        if not m: break
        pos = m.end()
        t = m.group(0).strip()
        if t: out.append(t)
    return out

# ---------- types
class T: pass
class IntT(T):
    def __init__(s, n): s.n = n
    def __repr__(s): return f"i{s.n}"
class PtrT(T):
    def __init__(s, to): s.to = to
    def __repr__(s): return f"{s.to}*"
class ArrT(T):
    def __init__(s, n, el): s.n = n; s.el = el
    def __repr__(s): return f"[{s.n} x {s.el}]"
class StructT(T):
    def __init__(s, fields, packed=False, name=None): s.fields = fields; s.packed = packed; s.name = name
    def __repr__(s): return s.name or "{...}"
class NamedT(T):
    def __init__(s, name, mod): s.name = name; s.mod = mod
    def res(s): return s.mod.types[s.name]
    def __repr__(s): return s.name
class VoidT(T):
    def __repr__(s): return "void"
class FnT(T):
    def __init__(s, ret, args, va): s.ret = ret; s.args = args; s.va = va
    def __repr__(s): return f"{s.ret}(...)"
class OpaqueT(T): pass

class P:
    """token stream parser"""
    def __init__(s, toks, mod): s.t = toks; s.i = 0; s.mod = mod
    def peek(s, k=0): return s.t[s.i + k] if s.i + k < len(s.t) else None
    def next(s): v = s.t[s.i]; s.i += 1; return v
    def accept(s, x):
        if s.peek() == x: s.i += 1; return True
        return False
    def expect(s, x):
        v = s.next()
        assert v == x, (v, x, s.t)
    def type(s):
        t = s.next()
        if re.fullmatch(r'i\d+', t): ty = IntT(int(t[1:]))
        elif t == 'void': ty = VoidT()
        elif t in ('float', 'double', 'x86_fp80'): ty = IntT({'float': 32, 'double': 64, 'x86_fp80': 80}[t])
        elif t == 'opaque': ty = OpaqueT()
        elif t.startswith('%'): ty = NamedT(t, s.mod)
        elif t == '[':
            n = int(s.next()); s.expect('x'); el = s.type(); s.expect(']'); ty = ArrT(n, el)
        elif t == '{' or (t == '<' and s.peek() == '{'):
            packed = t == '<'
            if packed: s.expect('{')
            fs = []
            if not s.accept('}'):
                while True:
                    fs.append(s.type())
                    if s.accept('}'): break
                    s.expect(',')
            if packed: s.expect('>')
            ty = StructT(fs, packed)
        else: raise Exception("type? " + t + str(s.t))
        while True:
            if s.accept('*'): ty = PtrT(ty)
            elif s.peek() == '(':
                s.next(); args = []; va = False
                if not s.accept(')'):
                    while True:
                        if s.accept('...'): va = True
                        else: args.append(s.type())
                        if s.accept(')'): break
                        s.expect(',')
                ty = FnT(ty, args, va)
            else: break
        return ty
    ATTR = {'noundef', 'nonnull', 'signext', 'zeroext', 'nocapture', 'readonly', 'writeonly', 'noalias', 'immarg', 'inreg', 'returned', 'readnone', 'nofree'}
    def attrs(s):
        while True:
            p = s.peek()
            if p in s.ATTR: s.next()
            elif p in ('align', 'dereferenceable', 'dereferenceable_or_null'):
                s.next()
                if s.accept('('): s.next(); s.expect(')')
                else: s.next()
            elif p in ('byval', 'sret'):
                s.next(); s.expect('('); s.type(); s.expect(')')
            else: break
    def value(s, ty):
        """returns operand descriptor"""
        t = s.next()
        if t.startswith('%'): return ('reg', t)
        if t.startswith('@'): return ('glob', t)
        if re.fullmatch(r'-?\d+', t): return ('int', int(t))
        if t in ('true', 'false'): return ('int', 1 if t == 'true' else 0)
        if t == 'null': return ('null',)
        if t in ('undef', 'poison'): return ('undef',)
        if t == 'zeroinitializer': return ('zero',)
        if t.startswith('c"'):
            raw = t[2:-1]; b = bytearray(); k = 0
            while k < len(raw):
                if raw[k] == '\\':
                    if raw[k+1] == '\\': b.append(92); k += 2
                    else: b.append(int(raw[k+1:k+3], 16)); k += 3
                else: b.append(ord(raw[k])); k += 1
            return ('bytes', bytes(b))
        if t == 'getelementptr':
            s.accept('inbounds'); s.expect('(')
            bt = s.type(); s.expect(',')
            pt = s.type(); pv = s.value(pt); idx = []
            while s.accept(','):
                s.accept('inrange'); it = s.type(); idx.append((it, s.value(it)))
            s.expect(')')
            return ('cgep', bt, pv, idx)
        if t in ('bitcast', 'inttoptr', 'ptrtoint'):
            s.expect('('); ft = s.type(); v = s.value(ft); s.expect('to'); tt = s.type(); s.expect(')')
            return ('ccast', t, ft, v, tt)
        if t in ('[', '{') or (t == '<' and s.peek() == '{'):
            close = {'[': ']', '{': '}', '<': '}'}[t]
            if t == '<': s.next()
            els = []
            if not s.accept(close):
                while True:
                    et = s.type(); els.append((et, s.value(et)))
                    if s.accept(close): break
                    s.expect(',')
            if t == '<': s.expect('>')
            return ('agg', els)
        raise Exception("value? " + t + " in " + " ".join(s.t))
    def tv(s):
        ty = s.type(); s.attrs(); return ty, s.value(ty)

class Func:
    def __init__(s, name, ret, params, va, mod): s.name = name; s.ret = ret; s.params = params; s.va = va; s.blocks = {}; s.order = []; s.mod = mod
class Module:
    def __init__(s, path):
        s.types = {}; s.globals = {}; s.funcs = {}; s.decls = {}; s.dl = ''
        s.parse(open(path).read().split('\n'))
    def parse(s, lines):
        i = 0
        while i < len(lines):
            ln = lines[i]; i += 1
            if not ln.strip() or ln.startswith(';') or ln.startswith('source_filename') or ln.startswith('attributes') or ln.startswith('!') or ln.startswith('target triple'): continue
            if ln.startswith('target datalayout'):
                s.dl = ln.split('"')[1]; continue
            toks = lex(ln)
            if toks[0].startswith('%') and toks[1] == '=' and toks[2] == 'type':
                p = P(toks[3:], s); ty = p.type()
                if isinstance(ty, StructT): ty.name = toks[0]
                s.types[toks[0]] = ty; continue
            if toks[0].startswith('@'):
                p = P(toks[2:], s)
                while p.peek() in ('private', 'internal', 'unnamed_addr', 'local_unnamed_addr', 'dso_local', 'external', 'common', 'linkonce_odr', 'weak'): p.next()
                kind = p.next(); assert kind in ('global', 'constant'), toks
                ty = p.type()
                init = None
                if p.peek() not in (',', None): init = p.value(ty)
                s.globals[toks[0]] = (ty, init); continue
            if toks[0] == 'declare':
                m = re.search(r'(@[-a-zA-Z$._0-9]+)\(', ln); s.decls[m.group(1)] = ln; continue
            if toks[0] == 'define':
                p = P(toks[1:], s)
                while p.peek() in ('dso_local', 'internal', 'private', 'hidden', 'linkonce_odr', 'weak', 'zeroext', 'signext', 'noundef', 'nonnull'): p.next()
                ret = p.type(); name = p.next(); p.expect('(')
                params = []; va = False
                if not p.accept(')'):
                    while True:
                        if p.accept('...'): va = True
                        else:
                            pt = p.type(); p.attrs(); params.append((pt, p.next()))
                        if p.accept(')'): break
                        p.expect(',')
                f = Func(name, ret, params, va, s)
                cur = str(len(params))  # entry block label is next unnamed number
                f.blocks['%' + cur] = []; f.order.append('%' + cur)
                while True:
                    ln = lines[i]; i += 1
                    if ln.startswith('}'): break
                    if not ln.strip(): continue
                    m = re.match(r'^([-a-zA-Z$._0-9]+):', ln)
                    if m:
                        cur = m.group(1); f.blocks['%' + cur] = []; f.order.append('%' + cur); continue
                    tk = lex(ln)
                    if tk and tk[0] == 'switch' and tk[-1] == '[':
                        while True:
                            l2 = lines[i]; i += 1; tk += lex(l2)
                            if l2.strip() == ']': break
                    f.blocks['%' + cur].append(tk)
                s.funcs[name] = f; continue
            raise Exception("toplevel? " + ln)

# ---------- layout
class Layout:
    def __init__(s, dl):
        s.big = dl.startswith('E')
    def size(s, t):
        if isinstance(t, NamedT): return s.size(t.res())
        if isinstance(t, IntT): return (t.n + 7) // 8
        if isinstance(t, PtrT): return 8
        if isinstance(t, ArrT): return t.n * s.size(t.el)
        if isinstance(t, StructT): return s.struct(t)[1]
        raise Exception("size " + repr(t))
    def align(s, t):
        if isinstance(t, NamedT): return s.align(t.res())
        if isinstance(t, IntT): return min(8, 1 << ((t.n + 7) // 8 - 1).bit_length())
        if isinstance(t, PtrT): return 8
        if isinstance(t, ArrT): return s.align(t.el)
        if isinstance(t, StructT): return 1 if t.packed else max([s.align(f) for f in t.fields] or [1])
        raise Exception("align " + repr(t))
    def struct(s, t):
        off = 0; offs = []
        for f in t.fields:
            a = 1 if t.packed else s.align(f)
            off = (off + a - 1) // a * a; offs.append(off); off += s.size(f)
        a = s.align(t); off = (off + a - 1) // a * a
        return offs, off

# ---------- machine
class Ptr:
    __slots__ = ('r', 'o')
    def __init__(s, r, o): s.r = r; s.o = o
    def __repr__(s): return f"<{s.r}+{s.o}>"
    def __eq__(s, o): return isinstance(o, Ptr) and s.r == o.r and s.o == o.o
    def __hash__(s): return hash((s.r, s.o))
NULL = Ptr(None, 0)
class OOB(Exception): pass
class Unsupported(Exception): pass

def mask(n): return (1 << n) - 1
def is_sym(v): return isinstance(v, z3.ExprRef)
def bv(v, n): return v if is_sym(v) else z3.BitVecVal(v, n)
def simp(v):
    if is_sym(v):
        v = z3.simplify(v)
        if z3.is_bv_value(v): return v.as_long()
    return v

class Machine:
    def __init__(s, mods):
        s.mods = mods; s.lay = Layout(mods[0].dl); s.mem = {}; s.nreg = 0; s.steps = 0; s.funcs = {}
        s.frames = []; s.valists = {}; s.json = {}
        s.merges = 0
        for m in mods:
            for n, f in m.funcs.items(): s.funcs[n] = f
        s.gaddr = {}
        for mi, m in enumerate(mods):
            for g, (ty, init) in m.globals.items():
                r = s.new_region(s.lay.size(ty), f"g{mi}{g}")
                s.gaddr[(mi, g)] = r
        for mi, m in enumerate(mods):
            for g, (ty, init) in m.globals.items():
                if init is not None: s.store_const(Ptr(s.gaddr[(mi, g)], 0), ty, init, m)
    def new_region(s, size, name, fill=0):
        s.nreg += 1; r = f"{name}#{s.nreg}"; s.mem[r] = [fill] * size; return r
    def modidx(s, m): return s.mods.index(m)
    def glob(s, name, m):
        k = (s.modidx(m), name)
        if k in s.gaddr: return Ptr(s.gaddr[k], 0)
        for (mi, g), r in s.gaddr.items():
            if g == name and not g.startswith('@.'): return Ptr(r, 0)
        if name in s.funcs or any(name in mm.decls for mm in s.mods): return Ptr('fn:' + name, 0)
        raise Exception("glob " + name)
    def store_const(s, p, ty, v, m):
        if isinstance(ty, NamedT): ty = ty.res()
        k = v[0]
        if k == 'zero' or k == 'undef':
            return
        if k == 'bytes':
            for i, b in enumerate(v[1]): s.mem[p.r][p.o + i] = b
            return
        if k == 'agg':
            if isinstance(ty, ArrT):
                es = s.lay.size(ty.el)
                for i, (et, ev) in enumerate(v[1]): s.store_const(Ptr(p.r, p.o + i * es), et, ev, m)
            else:
                offs, _ = s.lay.struct(ty)
                for (et, ev), o in zip(v[1], offs): s.store_const(Ptr(p.r, p.o + o), et, ev, m)
            return
        s.store(p, ty, s.const(ty, v, m))
    def const(s, ty, v, m):
        k = v[0]
        if k == 'int': return v[1] & mask(ty.n) if isinstance(ty, IntT) else v[1]
        if k == 'null': return NULL
        if k == 'glob': return s.glob(v[1], m)
        if k == 'undef' or k == 'zero': return 0 if isinstance(ty, IntT) else NULL
        if k == 'cgep':
            base = s.const(None, v[2], m); return s.gep(v[1], base, [(it, s.const(it, iv, m)) for it, iv in v[3]])
        if k == 'ccast':
            return s.const(v[2], v[3], m)
        raise Exception("const " + repr(v))
    # memory
    def chk(s, p, n):
        if p.r is None or str(p.r).startswith('fn:'): raise OOB(f"deref {p}")
        if p.o < 0 or p.o + n > len(s.mem[p.r]): raise OOB(f"access {p} size {n} region size {len(s.mem[p.r])}")
    def load(s, p, ty):
        if isinstance(ty, NamedT): ty = ty.res()
        n = s.lay.size(ty); s.chk(p, n)
        cells = s.mem[p.r][p.o:p.o + n]
        if isinstance(ty, PtrT):
            c0 = cells[0]
            if isinstance(c0, tuple): return c0[0]
            if all(c == 0 for c in cells if not is_sym(c)) and not any(is_sym(c) for c in cells): return NULL
            raise Unsupported("load ptr from data")
        if any(isinstance(c, tuple) for c in cells): raise Unsupported("load int from ptr")
        if s.lay.big: cells = cells[::-1]
        if not any(is_sym(c) for c in cells):
            v = 0
            for i, c in enumerate(cells): v |= c << (8 * i)
            return v & mask(ty.n)
        e = z3.Concat(*[bv(c, 8) for c in cells[::-1]]) if n > 1 else bv(cells[0], 8)
        if ty.n < 8 * n: e = z3.Extract(ty.n - 1, 0, e)
        return simp(e)
    def store(s, p, ty, v):
        if isinstance(ty, NamedT): ty = ty.res()
        n = s.lay.size(ty); s.chk(p, n)
        if isinstance(ty, PtrT):
            for i in range(8): s.mem[p.r][p.o + i] = (v, i)
            return
        if is_sym(v):
            if ty.n < 8 * n: v = z3.ZeroExt(8 * n - ty.n, v)
            cells = [simp(z3.Extract(8 * i + 7, 8 * i, v)) for i in range(n)]
        else:
            cells = [(v >> (8 * i)) & 255 for i in range(n)]
        if s.lay.big: cells = cells[::-1]
        s.mem[p.r][p.o:p.o + n] = cells
    def gep(s, bt, base, idx):
        ty = bt; off = 0
        for k, (it, iv) in enumerate(idx):
            if is_sym(iv):
                return Ptr(base.r, ('sym', iv))
            if isinstance(it, IntT) and iv >> (it.n - 1): iv -= 1 << it.n
            if k == 0: off += iv * s.lay.size(ty); continue
            if isinstance(ty, NamedT): ty = ty.res()
            if isinstance(ty, StructT):
                offs, _ = s.lay.struct(ty); off += offs[iv]; ty = ty.fields[iv]
            elif isinstance(ty, ArrT):
                off += iv * s.lay.size(ty.el); ty = ty.el
            else: raise Exception("gep into " + repr(ty))
        return Ptr(base.r, base.o + off)
    # execution
    def call(s, fname, args, vargs=()):
        if fname.startswith('@llvm.memcpy') or fname.startswith('@llvm.memmove'):
            d, sp, n = args[0], args[1], args[2]; s.chk(d, n); s.chk(sp, n)
            s.mem[d.r][d.o:d.o + n] = list(s.mem[sp.r][sp.o:sp.o + n]); return None
        if fname.startswith('@llvm.memset'):
            d, b, n = args[0], args[1], args[2]; s.chk(d, n); s.mem[d.r][d.o:d.o + n] = [b] * n; return None
        if fname.startswith('@llvm.lifetime'): return None
        if fname.startswith('@llvm.fshl') or fname.startswith('@llvm.fshr'):
            n = int(fname.split('.i')[-1]); a, b, c = args
            if is_sym(c): raise Unsupported('sym fsh')
            c %= n
            if is_sym(a) or is_sym(b):
                cc = z3.Concat(bv(a, n), bv(b, n))
                r = z3.Extract(2*n-1, n, cc << c) if 'fshl' in fname else z3.Extract(n-1, 0, z3.LShR(cc, c))
                return simp(r)
            cc = (a << n) | b
            return ((cc << c) >> n) & mask(n) if 'fshl' in fname else (cc >> c) & mask(n)
        for mm in ('smin','smax','umin','umax'):
            if fname.startswith('@llvm.'+mm):
                n = int(fname.split('.i')[-1]); a, b = args
                if is_sym(a) or is_sym(b):
                    A,B=bv(a,n),bv(b,n)
                    cnd={'smin':A<B,'smax':A>B,'umin':z3.ULT(A,B),'umax':z3.UGT(A,B)}[mm]
                    return simp(z3.If(cnd,A,B))
                sg=lambda x: x-(1<<n) if x>>(n-1) else x
                if mm[0]=='s': return (min if mm=='smin' else max)(a,b,key=sg)
                return (min if mm=='umin' else max)(a,b)
        if fname == '@llvm.va_start':
            s.valists[args[0].r] = s.frames[-1]; return None
        if fname == '@llvm.va_end': return None
        if fname == '@vsprintf': return s.vsprintf(*args)
        if fname not in s.funcs: raise Unsupported("call " + fname)
        f = s.funcs[fname]; m = f.mod
        regs = {pn: a for (pt, pn), a in zip(f.params, args)}
        s.frames.append(list(zip(vargs_t if (vargs_t:=getattr(s,'_vt',None)) else [], args[len(f.params):])) if f.va else None)
        try:
            return s.run(f, m, regs)
        finally:
            s.frames.pop()
    def vsprintf(s, dst, fmt, ap):
        va = list(s.valists[ap.r]); txt = bytearray(); k = fmt.o
        while s.mem[fmt.r][k] != 0: txt.append(s.mem[fmt.r][k]); k += 1
        txt = txt.decode(); seg = s.json.setdefault(dst.r, [])
        import re as _re
        pos = 0
        for mm in _re.finditer(r'%(ll|l)?([dus])', txt):
            if mm.start() > pos: seg.append(('lit', txt[pos:mm.start()]))
            ty, a = va.pop(0)
            if mm.group(2) == 's' and isinstance(a, tuple) and a[0] == 'ptrite':
                def cstr(p):
                    b = bytearray(); q = p.o
                    while s.mem[p.r][q] != 0: b.append(s.mem[p.r][q]); q += 1
                    return b.decode()
                seg.append(('choice', a[1], cstr(a[2]), cstr(a[3])))
            elif mm.group(2) == 's':
                b = bytearray(); q = a.o
                while s.mem[a.r][q] != 0: b.append(s.mem[a.r][q]); q += 1
                seg.append(('lit', b.decode()))
            else:
                want = 64 if mm.group(1) else 32
                seg.append(('num', mm.group(2), want, ty.n, a))
            pos = mm.end()
        if pos < len(txt): seg.append(('lit', txt[pos:]))
        s.nlen = getattr(s, 'nlen', 0) + 1
        return z3.BitVec(f'vsprintf_len{s.nlen}', 32)
    def run(s, f, m, regs):
        cur = f.order[0]; prev = None; skip = 0
        while True:
            for ins in f.blocks[cur][skip:]:
                s.steps += 1
                r = s.step(f, m, regs, ins, prev, cur)
                if r is None: continue
                if r[0] == 'br': prev, cur = cur, r[1]; skip = 0; break
                if r[0] == 'brskip': prev, cur = cur, r[1]; skip = r[2]; break
                if r[0] == 'ret': return r[1]
            else:
                raise Exception("fell off block")
    def op(s, regs, m, ty, v):
        if v[0] == 'reg': return regs[v[1]]
        return s.const(ty, v, m)
    def step(s, f, m, regs, t, prev, cur):
        p = P(t, m)
        dst = None
        if len(t) > 1 and t[1] == '=': dst = p.next(); p.next()
        o = p.next()
        if o == 'tail' or o == 'musttail' or o == 'notail': o = p.next()
        if o == 'alloca':
            ty = p.type(); n = 1
            if p.accept(',') and p.peek() != 'align':
                it = p.type(); n = s.op(regs, m, it, p.value(it))
            regs[dst] = Ptr(s.new_region(s.lay.size(ty) * n, f"{f.name}:{dst}", fill=0), 0); return
        if o == 'load':
            p.accept('volatile'); ty = p.type(); p.expect(','); pt, pv = p.tv()
            regs[dst] = s.load(s.op(regs, m, pt, pv), ty); return
        if o == 'store':
            p.accept('volatile'); ty, v = p.tv(); p.expect(','); pt, pv = p.tv()
            s.store(s.op(regs, m, pt, pv), ty, s.op(regs, m, ty, v)); return
        if o == 'getelementptr':
            p.accept('inbounds'); bt = p.type(); p.expect(','); pt, pv = p.tv(); idx = []
            while p.accept(','):
                it, iv = p.tv(); idx.append((it, s.op(regs, m, it, iv)))
            regs[dst] = s.gep(bt, s.op(regs, m, pt, pv), idx); return
        if o in ('bitcast', 'zext', 'sext', 'trunc', 'ptrtoint', 'inttoptr'):
            ft, v = p.tv(); p.expect('to'); tt = p.type(); x = s.op(regs, m, ft, v)
            if o == 'bitcast': regs[dst] = x; return
            if o in ('ptrtoint', 'inttoptr'): raise Unsupported(o)
            if is_sym(x):
                x = z3.ZeroExt(tt.n - ft.n, x) if o == 'zext' else z3.SignExt(tt.n - ft.n, x) if o == 'sext' else z3.Extract(tt.n - 1, 0, x)
                regs[dst] = simp(x); return
            if o == 'sext' and x >> (ft.n - 1): x |= mask(tt.n) ^ mask(ft.n)
            regs[dst] = x & mask(tt.n); return
        if o in ('add', 'sub', 'mul', 'and', 'or', 'xor', 'shl', 'lshr', 'ashr', 'udiv', 'sdiv', 'urem', 'srem'):
            while p.peek() in ('nsw', 'nuw', 'exact'): p.next()
            ty, a = p.tv(); p.expect(','); b = p.value(ty)
            a = s.op(regs, m, ty, a); b = s.op(regs, m, ty, b); n = ty.n
            if is_sym(a) or is_sym(b):
                A, B = bv(a, n), bv(b, n)
                r = {'add': lambda: A + B, 'sub': lambda: A - B, 'mul': lambda: A * B, 'and': lambda: A & B, 'or': lambda: A | B, 'xor': lambda: A ^ B,
                     'shl': lambda: A << B, 'lshr': lambda: z3.LShR(A, B), 'ashr': lambda: A >> B, 'udiv': lambda: z3.UDiv(A, B), 'urem': lambda: z3.URem(A, B)}[o]()
                regs[dst] = simp(r); return
            sa = a - (1 << n) if a >> (n - 1) else a
            if o in ('shl', 'lshr', 'ashr') and b >= n: raise Unsupported("shift >= width (UB)")
            r = {'add': lambda: a + b, 'sub': lambda: a - b, 'mul': lambda: a * b, 'and': lambda: a & b, 'or': lambda: a | b, 'xor': lambda: a ^ b,
                 'shl': lambda: a << b, 'lshr': lambda: a >> b, 'ashr': lambda: sa >> b, 'udiv': lambda: a // b, 'urem': lambda: a % b}[o]()
            regs[dst] = r & mask(n); return
        if o == 'icmp':
            pred = p.next(); ty, a = p.tv(); p.expect(','); b = p.value(ty)
            a = s.op(regs, m, ty, a); b = s.op(regs, m, ty, b)
            if isinstance(a, Ptr) or isinstance(b, Ptr):
                eq = (a == b); regs[dst] = int(eq if pred == 'eq' else not eq); return
            n = ty.n
            if is_sym(a) or is_sym(b):
                A, B = bv(a, n), bv(b, n)
                r = {'eq': A == B, 'ne': A != B, 'ult': z3.ULT(A, B), 'ule': z3.ULE(A, B), 'ugt': z3.UGT(A, B), 'uge': z3.UGE(A, B), 'slt': A < B, 'sle': A <= B, 'sgt': A > B, 'sge': A >= B}[pred]
                regs[dst] = simp(z3.If(r, z3.BitVecVal(1, 1), z3.BitVecVal(0, 1))); return
            sg = lambda x: x - (1 << n) if x >> (n - 1) else x
            r = {'eq': a == b, 'ne': a != b, 'ult': a < b, 'ule': a <= b, 'ugt': a > b, 'uge': a >= b, 'slt': sg(a) < sg(b), 'sle': sg(a) <= sg(b), 'sgt': sg(a) > sg(b), 'sge': sg(a) >= sg(b)}[pred]
            regs[dst] = int(r); return
        if o == 'select':
            ct, c = p.tv(); p.expect(','); ty, a = p.tv(); p.expect(','); ty2, b = p.tv()
            c = s.op(regs, m, ct, c); a = s.op(regs, m, ty, a); b = s.op(regs, m, ty2, b)
            if is_sym(c) and isinstance(a, Ptr): regs[dst] = ('ptrite', c == 1, a, b)
            elif is_sym(c): regs[dst] = simp(z3.If(c == 1, bv(a, ty.n), bv(b, ty.n)))
            else: regs[dst] = a if c else b
            return
        if o == 'phi':
            ty = p.type()
            while True:
                p.expect('['); v = p.value(ty); p.expect(','); lab = p.next(); p.expect(']')
                if lab == prev: regs['phi:' + dst] = s.op(regs, m, ty, v)
                if not p.accept(','): break
            regs[dst] = regs.pop('phi:' + dst); return
        if o == 'br':
            if p.peek() == 'label': p.next(); return ('br', p.next())
            ct, c = p.tv(); c = s.op(regs, m, ct, c); p.expect(','); p.expect('label'); a = p.next(); p.expect(','); p.expect('label'); b = p.next()
            if is_sym(c): return s.symbolic_branch(f, m, regs, c, a, b, cur)
            return ('br', a if c else b)
        if o == 'switch':
            ty, v = p.tv(); v = s.op(regs, m, ty, v); p.expect(','); p.expect('label'); dflt = p.next(); p.expect('[')
            if is_sym(v): raise Unsupported("symbolic switch")
            tgt = dflt
            while not p.accept(']'):
                ct = p.type(); cv = p.value(ct); p.expect(','); p.expect('label'); lab = p.next()
                if (cv[1] & mask(ty.n)) == v: tgt = lab
            return ('br', tgt)
        if o == 'ret':
            ty = p.type()
            if isinstance(ty, VoidT): return ('ret', None)
            return ('ret', s.op(regs, m, ty, p.value(ty)))
        if o == 'call':
            while p.peek() in ('fastcc', 'ccc'): p.next()
            p.attrs(); rt = p.type()
            if isinstance(rt, FnT): rt = rt.ret
            callee = p.next(); p.expect('('); args = []; ats = []
            if not p.accept(')'):
                while True:
                    at, av = p.tv(); args.append(s.op(regs, m, at, av)); ats.append(at)
                    if p.accept(')'): break
                    p.expect(',')
            s._vt = None
            if callee in s.funcs and s.funcs[callee].va: s._vt = ats[len(s.funcs[callee].params):]
            if callee.startswith('%'):
                fp = regs[callee]; assert str(fp.r).startswith('fn:'), fp; callee = fp.r[3:]
            r = s.call(callee, args)
            if dst: regs[dst] = r
            return
        if o == 'unreachable': raise Exception("unreachable")
        raise Unsupported("instr " + " ".join(t))
    def symbolic_branch(s, f, m, regs, c, a, b, cur):
        # triangle / diamond if-conversion at O0-style (memory only): run each arm until common join
        # join: block reached by both; simple heuristic: arm blocks end with unconditional br
        def arm(start, other):
            # returns (join, memsnapshot) executing blocks until reaching 'other' or a block that is other's successor
            return None
        # find join: successors by following unconditional brs
        def succ_chain(lbl, limit=4):
            chain = [lbl]
            while len(chain) < limit:
                last = f.blocks[chain[-1]][-1]
                if last[0] == 'br' and last[1] == 'label': chain.append(last[2])
                else: break
            return chain
        ca, cb = succ_chain(a), succ_chain(b)
        join = next((x for x in ca if x in cb), None)
        if join is None: raise Unsupported("no simple join for symbolic branch")
        import copy
        base_mem = {r: list(v) for r, v in s.mem.items()}
        results = []
        for start in (a, b):
            s.mem = {r: list(v) for r, v in base_mem.items()}
            lregs = dict(regs); curb = start; prevb = cur
            while curb != join:
                for ins in f.blocks[curb]:
                    r = s.step(f, m, lregs, ins, prevb, curb)
                    if r is None: continue
                    assert r[0] == 'br', "ret/call in arm"
                    prevb, curb = curb, r[1]; break
            results.append((s.mem, lregs, prevb))
        (ma, ra, pa), (mb, rb, pb) = results
        cond = (c == 1)
        merged = {}
        for r in set(ma) | set(mb):
            if r not in ma or r not in mb: continue  # arm-local alloca
            la, lb = ma[r], mb[r]
            merged[r] = [x if (x is y or (not is_sym(x) and not is_sym(y) and x == y)) else simp(z3.If(cond, bv(x, 8), bv(y, 8))) for x, y in zip(la, lb)]
        s.mem = merged; s.merges += 1
        # phis at join: evaluate per arm and merge with ite; then continue after the phis
        phis = [ins for ins in f.blocks[join] if ins[2:3] == ['phi']]
        if phis:
            vals = []
            for (mm_, lr, pv) in ((ma, ra, pa), (mb, rb, pb)):
                d = {}
                for ins in phis:
                    tmp = dict(lr); s.step(f, m, tmp, ins, pv, join); d[ins[0]] = tmp[ins[0]]
                vals.append(d)
            for ins in phis:
                x, y = vals[0][ins[0]], vals[1][ins[0]]
                if isinstance(x, Ptr) or isinstance(y, Ptr):
                    assert x == y; regs[ins[0]] = x
                elif not is_sym(x) and not is_sym(y) and x == y: regs[ins[0]] = x
                else:
                    n = int(ins[3][1:]); regs[ins[0]] = simp(z3.If(cond, bv(x, n), bv(y, n)))
            return ('brskip', join, len(phis))
        return ('br', join)

if __name__ == '__main__':
    O = sys.argv[1] if len(sys.argv) > 1 else 'O0'
    t0 = time.time()
    mods = [Module(f'/tmp/probe/t1_{O}.ll'), Module(f'/tmp/probe/lib_{O}.ll')]
    M = Machine(mods)
    print("parsed %.2fs" % (time.time() - t0), "big" if M.lay.big else "little")
    mty = mods[0].types['%struct.M']; print("sizeof M", M.lay.size(mty), M.lay.struct(mty))
    # concrete run
    def run(vals):
        st = M.new_region(M.lay.size(mty), 'msg'); buf = M.new_region(16, 'buf')
        offs, _ = M.lay.struct(mty)
        for (o, ty), v in zip(zip(offs, mty.fields), vals):
            if isinstance(v, list):
                es = M.lay.size(ty.el if isinstance(ty, ArrT) else ty.res().fields[0])
                if isinstance(ty, ArrT):
                    for k, x in enumerate(v): M.store(Ptr(st, o + k * es), ty.el, x)
                else:
                    so, _ = M.lay.struct(ty.res())
                    for (fo, ft), x in zip(zip(so, ty.res().fields), v): M.store(Ptr(st, o + fo), ft, x)
            else: M.store(Ptr(st, o), ty, v)
        M.steps = 0
        M.call('@EncodeM', [Ptr(st, 0), Ptr(buf, 0)])
        return M.mem[buf]
    t0 = time.time()
    out = run([5, 0x1ABC & 0x1fff, 2, [0x1f, 1], [1, 2, 127], [0xAA, 0x55], 0x0123456789ABCDEF])
    print("concrete", bytes(out).hex(), "steps", M.steps, "%.2fs" % (time.time() - t0))
    # symbolic run
    x = z3.BitVec('x', 3); y = z3.BitVec('y', 13); c = z3.BitVec('c', 3); a = z3.BitVec('a', 5); b = z3.BitVec('b', 1)
    arr = [z3.BitVec(f'arr{k}', 7) for k in range(3)]; bs = [z3.BitVec(f'bs{k}', 8) for k in range(2)]; big = z3.BitVec('big', 64)
    t0 = time.time()
    out = run([z3.ZeroExt(5, x), z3.SignExt(3, y), z3.ZeroExt(5, c), [z3.SignExt(3, a), z3.ZeroExt(7, b)], [z3.ZeroExt(1, v) for v in arr], bs, big])
    t1 = time.time()
    stream = z3.Concat(*reversed([x, y, c, a, b] + arr + bs + [big])); N = stream.size(); stream = z3.ZeroExt((-N) % 8, stream)
    sv = z3.Solver(); sv.add(z3.Or(*[bv(o, 8) != z3.Extract(8 * i + 7, 8 * i, stream) for i, o in enumerate(out)]))
    r = sv.check(); t2 = time.time()
    print("symbolic", r, "steps", M.steps, "merges", M.merges, "exec %.2fs solve %.2fs" % (t1 - t0, t2 - t1))
    if r == z3.sat: print(sv.model())
