import sys
sys.path.insert(0, "/repo/compiler"); sys.path.insert(0, "/tmp/probe")
from h7 import wellformed, _L
from bitproto.errors import InvalidEscapingChar
from bitproto.renderer.impls.py.formatter import PyFormatter
from bitproto.renderer.impls.c.formatter import CFormatter
from ply.lex import LexToken
_F = PyFormatter(); _C = CFormatter()
BS = chr(92)
PYESC = {"t": "\t", "r": "\r", "n": "\n", BS: BS, "'": "'", '"': '"'}

def decode_plain_literal(lit: str):
    """value denoted by a one-line double-quoted literal with the escapes common to C/Go/Python, or None if it is not one"""
    if len(lit) < 2 or lit[0] != '"' or lit[-1] != '"':
        return None
    body = lit[1:-1]; out = ""; i = 0
    while i < len(body):
        c = body[i]
        if c == BS:
            if i + 1 >= len(body) or body[i + 1] not in PYESC:
                return None
            out += PYESC[body[i + 1]]; i += 2
        elif c == '"' or c == "\n":
            return None
        else:
            out += c; i += 1
    return out

def emit_roundtrip(body: str) -> bool:
    """
    pre: len(body) <= 3
    pre: wellformed(body)
    post: _
    """
    t = LexToken(); t.type = "STRING_LITERAL"; t.value = '"' + body + '"'; t.lineno = 1; t.lexpos = 0; t.lexer = _L.lexer
    try:
        v = _L.t_STRING_LITERAL(t).value
    except InvalidEscapingChar:
        return True
    return decode_plain_literal(_F.format_str_value(v)) == v and decode_plain_literal(_C.format_str_value(v)) == v
