import sys, time, z3
sys.argv=[sys.argv[0]]+sys.argv[1:]
from llspike import *
O = sys.argv[1] if len(sys.argv)>1 else 'O0'
mods=[Module(f'/tmp/probe/t1_{O}.ll'), Module(f'/tmp/probe/lib_{O}.ll')]
M=Machine(mods); mty=mods[0].types['%struct.M']
x=z3.BitVec('x',3); y=z3.BitVec('y',13); c=z3.BitVec('c',3); a=z3.BitVec('a',5); b=z3.BitVec('b',1)
arr=[z3.BitVec(f'arr{k}',7) for k in range(3)]; bs=[z3.BitVec(f'bs{k}',8) for k in range(2)]; big=z3.BitVec('big',64)
stream=z3.Concat(*reversed([x,y,c,a,b]+arr+bs+[big])); N=stream.size(); stream=z3.ZeroExt((-N)%8,stream)
st=M.new_region(M.lay.size(mty),'msg'); buf=M.new_region(16,'buf')
M.mem[buf]=[simp(z3.Extract(8*i+7,8*i,stream)) for i in range(16)]
t0=time.time(); M.call('@DecodeM',[Ptr(st,0),Ptr(buf,0)]); t1=time.time()
offs,_=M.lay.struct(mty)
exp=[(offs[0],IntT(8),z3.ZeroExt(5,x)),(offs[1],IntT(16),z3.SignExt(3,y)),(offs[2],IntT(8),z3.ZeroExt(5,c)),(offs[3],IntT(8),z3.SignExt(3,a)),(offs[3]+1,IntT(8),z3.ZeroExt(7,b))]
exp+=[(offs[4]+k,IntT(8),z3.ZeroExt(1,arr[k])) for k in range(3)]+[(offs[5]+k,IntT(8),bs[k]) for k in range(2)]+[(offs[6],IntT(64),big)]
sv=z3.Solver(); sv.add(z3.Or(*[bv(M.load(Ptr(st,o),t),t.n)!=e for o,t,e in exp]))
r=sv.check(); print(O,"decode",r,"steps",M.steps,"merges",M.merges,"exec %.2fs solve %.2fs"%(t1-t0,time.time()-t1))
if r==z3.sat: print(sv.model())
