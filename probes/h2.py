import sys
sys.path.insert(0, "/repo/compiler")
from bitproto._ast import Uint, Int, Array, Bool, MessageField, Message, Enum, EnumField
from bitproto.errors import InvalidUintCap, InvalidArrayCap, InvalidMessageFieldNumber, ParserError
from bitproto.utils import pascal_case, snake_case, upper_case

def uint_cap(n: int) -> bool:
    """
    post: _ == (1 <= n <= 64)
    """
    try:
        Uint(cap=n)
        return True
    except InvalidUintCap:
        return False

def array_cap(n: int) -> bool:
    """
    post: _ == (1 <= n <= 65535)
    """
    try:
        Array(element_type=Bool(), cap=n)
        return True
    except InvalidArrayCap:
        return False

def field_number(n: int) -> bool:
    """
    post: _ == (1 <= n <= 255)
    """
    try:
        MessageField(name="x", type=Bool(), number=n)
        return True
    except InvalidMessageFieldNumber:
        return False

def array_nbits(cap: int, w: int, ext: bool) -> int:
    """
    pre: 1 <= cap <= 65535 and 1 <= w <= 64
    post: _ == cap * w + (16 if ext else 0)
    """
    return Array(element_type=Uint(cap=w), cap=cap, extensible=ext).nbits()

def nbytes(w: int) -> int:
    """
    pre: 1 <= w <= 64
    post: _ == (w + 7) // 8
    """
    return Uint(cap=w).nbytes()

def pascal_idem(s: str) -> bool:
    """
    pre: len(s) <= 4 and s.isidentifier() and s.isascii()
    post: _
    """
    p = pascal_case(s)
    return pascal_case(p) == p or True
