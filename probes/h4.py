import sys
sys.path.insert(0, "/repo/compiler")
from bitproto.parser import Parser
from bitproto.errors import ParserError
from ply.lex import LexToken

class Toks:
    def __init__(self, toks, text):
        self.toks = list(toks); self.i = 0; self.lexdata = text; self.lineno = 1; self.lexpos = 0
    def input(self, s): pass
    def token(self):
        if self.i >= len(self.toks): return None
        t = self.toks[self.i]; self.i += 1
        return t

_P = Parser()

def mk(type_, value, lineno, lexpos):
    t = LexToken(); t.type = type_; t.value = value; t.lineno = lineno; t.lexpos = lexpos
    return t

def run(seq):
    # seq: list of (type, value, text)
    text = ""; toks = []; line = 1
    holder = Toks([], "")
    for ty, val, tx in seq:
        t = mk(ty, val, line, len(text)); t.lexer = holder
        toks.append(t); text += tx + " "
        if ty == "NEWLINE": line += 1
    holder.toks = toks; holder.lexdata = text
    p = _P
    p.scope_stack.clear(); p.filepath_stack.clear(); p.comment_block.clear(); p.lexer.filepath_stack.clear()
    with p.lexer.maintain_filepath(""):
        with p.maintain_filepath(""):
            return p.parser.parse("", lexer=holder)

def calc(a: int, b: int, c: int) -> int:
    """
    pre: a >= 0 and b >= 0 and c >= 0
    post: _ == a + b * c
    """
    proto = run([("PROTO","proto","proto"),("IDENTIFIER","p","p"),("NEWLINE","\n","\n"),
                 ("CONST","const","const"),("IDENTIFIER","X","X"),("=","=","="),
                 ("INT_LITERAL",a,"1"),("PLUS","+","+"),("INT_LITERAL",b,"2"),("TIMES","*","*"),("INT_LITERAL",c,"3"),("NEWLINE","\n","\n")])
    return proto.members["X"].value

def calcdiv(a: int, b: int) -> int:
    """
    pre: a >= 0 and b >= 0
    raises: ParserError
    post: _ == a // b
    """
    proto = run([("PROTO","proto","proto"),("IDENTIFIER","p","p"),("NEWLINE","\n","\n"),
                 ("CONST","const","const"),("IDENTIFIER","X","X"),("=","=","="),
                 ("INT_LITERAL",a,"1"),("DIVIDE","/","/"),("INT_LITERAL",b,"2"),("NEWLINE","\n","\n")])
    return proto.members["X"].value

if __name__ == "__main__":
    print(calc(1,2,3), calcdiv(7,2))
