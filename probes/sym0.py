import z3, sys, time, types, builtins
W = 192
class Overflow(Exception): pass
class SymInt:
    __slots__=("e","nb")
    def __init__(self, e, nb):
        self.e=e; self.nb=nb  # nb: signed bits needed bound
        if nb > W-1: raise Overflow(nb)
    @staticmethod
    def lift(x):
        if isinstance(x, SymInt): return x
        if isinstance(x, SymBool): return SymInt(z3.If(x.e, z3.BitVecVal(1,W), z3.BitVecVal(0,W)), 2)
        if isinstance(x, bool): x=int(x)
        if isinstance(x, int): return SymInt(z3.BitVecVal(x, W), x.bit_length()+1)
        raise TypeError(type(x))
    def __rshift__(self,k):
        assert isinstance(k,int) and k>=0
        return SymInt(self.e >> k, max(1,self.nb-k) if False else self.nb)
    def __lshift__(self,k):
        assert isinstance(k,int) and k>=0
        return SymInt(self.e << k, self.nb+k)
    def __and__(self,o):
        o=SymInt.lift(o)
        # if either is nonneg with small bits, bound = that
        return SymInt(self.e & o.e, max(self.nb,o.nb))
    __rand__=__and__
    def __or__(self,o):
        o=SymInt.lift(o); return SymInt(self.e | o.e, max(self.nb,o.nb))
    __ror__=__or__
    def __add__(self,o):
        o=SymInt.lift(o); return SymInt(self.e+o.e, max(self.nb,o.nb)+1)
    __radd__=__add__
    def __sub__(self,o):
        o=SymInt.lift(o); return SymInt(self.e-o.e, max(self.nb,o.nb)+1)
    def __lt__(self,o):
        o=SymInt.lift(o); return SymBool(self.e < o.e)
    def __ge__(self,o):
        o=SymInt.lift(o); return SymBool(self.e >= o.e)
    def __eq__(self,o):
        o=SymInt.lift(o); return SymBool(self.e == o.e)
    __hash__=None
class SymBool:
    def __init__(self,e): self.e=e
    def __bool__(self):
        return ENGINE.branch(self.e)
class Engine:
    def __init__(self): self.pc=[]; self.sched=[]; self.pos=0; self.pending=[]; self.nq=0
    def branch(self, e):
        if self.pos < len(self.sched):
            d=self.sched[self.pos]; self.pos+=1
            self.pc.append(e if d else z3.Not(e)); return d
        s=z3.Solver(); s.add(*self.pc)
        s.push(); s.add(e); t=s.check()==z3.sat; s.pop()
        s.push(); s.add(z3.Not(e)); f=s.check()==z3.sat; s.pop(); self.nq+=2
        if t and f:
            self.pending.append(self.sched[:self.pos]+[False])
            d=True
        elif t: d=True
        else: d=False
        self.sched.append(d); self.pos+=1
        self.pc.append(e if d else z3.Not(e)); return d
ENGINE=Engine()
def sym_int(x=0,*a):
    if isinstance(x,(SymInt,)): return x
    if isinstance(x,SymBool): return SymInt.lift(x)
    return builtins.int(x,*a)
class SymBytes(list):
    pass
def sym_bytearray(n=0):
    if isinstance(n,int): return SymBytes([0]*n)
    return SymBytes(list(n))
def load(path, name, extra):
    src=open(path).read()
    m=types.ModuleType(name); m.__dict__.update(extra); m.__file__=path
    sys.modules[name]=m
    exec(compile(src,path,'exec'), m.__dict__)
    return m
pkg=types.ModuleType('bitprotolib'); pkg.__path__=[]; sys.modules['bitprotolib']=pkg
bp=load('/repo/lib/py/bitprotolib/bp.py','bitprotolib.bp',{'int':sym_int,'bytearray':sym_bytearray})
pkg.bp=bp
t1=load('/tmp/probe/t1_bp.py','t1_bp',{'int':sym_int,'bytearray':sym_bytearray})

def var(name,n,signed=False):
    v=z3.BitVec(name,n)
    e=z3.SignExt(W-n,v) if signed else z3.ZeroExt(W-n,v)
    return v, SymInt(e,n+1)
t0=time.time()
m=t1.M()
vs={}
vs['x'],m.x=var('x',3); vs['y'],m.y=var('y',13,True)
vs['a'],m.inner.a=var('a',5,True)
bb=z3.Bool('b'); m.inner.b=SymBool(bb)
for k in range(3): vs['arr%d'%k],m.arr[k]=var('arr%d'%k,7)
for k in range(2): vs['bs%d'%k],m.bs[k]=var('bs%d'%k,8)
vs['big'],m.big=var('big',64)
cv=z3.BitVec('c',3); m.c=SymInt(z3.ZeroExt(W-3,cv),4)
out=m.encode()
t1_=time.time()
# spec
stream=z3.Concat(*reversed([vs['x'],vs['y'],cv,vs['a'],z3.If(bb,z3.BitVecVal(1,1),z3.BitVecVal(0,1)),vs['arr0'],vs['arr1'],vs['arr2'],vs['bs0'],vs['bs1'],vs['big']]))
N=stream.size(); print("N",N,len(out))
pad=(-N)%8
if pad: stream=z3.ZeroExt(pad,stream)
s=z3.Solver()
neq=[]
for i,b in enumerate(out):
    b=SymInt.lift(b)
    neq.append(b.e != z3.ZeroExt(W-8, z3.Extract(8*i+7,8*i,stream)))
s.add(*ENGINE.pc); s.add(z3.Or(*neq)); print("pc",ENGINE.pc)
r=s.check(); t2=time.time()
print(r, "symex %.2fs solve %.2fs"%(t1_-t0,t2-t1_), "paths pending",len(ENGINE.pending), "nq", ENGINE.nq)
