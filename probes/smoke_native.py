import random, subprocess, os, sys, json, importlib, shutil
sys.path.insert(0,'/repo/lib/py')
R=random.Random(int(sys.argv[1]) if len(sys.argv)>1 else 1)
def rnd_schema(k):
    fields=[]; lines=[f"proto s{k}", ""]
    n=R.randint(1,8)
    for i in range(n):
        kind=R.choice(["u","i","b","y","ua","ia","ya","ba"])
        w=R.choice([1,2,3,7,8,9,12,15,16,17,24,31,32,33,48,63,64])
        cap=R.choice([1,2,3,5,9])
        ext=R.random()<0.0
        fields.append((kind,w,cap))
    lines.append("message M {")
    for i,(kind,w,cap) in enumerate(fields):
        t={"u":f"uint{w}","i":f"int{w}","b":"bool","y":"byte","ua":f"uint{w}[{cap}]","ia":f"int{w}[{cap}]","ya":f"byte[{cap}]","ba":f"bool[{cap}]"}[kind]
        lines.append(f"    {t} f{i} = {i+1}")
    lines.append("}")
    return "\n".join(lines)+"\n", fields
def rv(kind,w):
    if kind in("u","ua"): return R.choice([0,(1<<w)-1,R.getrandbits(w),1<<(w-1)])
    if kind in("i","ia"): return R.choice([0,-1,(1<<(w-1))-1,-(1<<(w-1)),R.getrandbits(w)-(1<<(w-1))])
    if kind in("b","ba"): return R.choice([0,1])
    return R.getrandbits(8)
def ref(fields,vals):
    bits=[]
    for (kind,w,cap),v in zip(fields,vals):
        ww={"u":w,"i":w,"b":1,"y":8,"ua":w,"ia":w,"ya":8,"ba":1}[kind]
        for x in (v if isinstance(v,list) else [v]):
            for k in range(ww): bits.append((x>>k)&1)
    out=bytearray((len(bits)+7)//8)
    for k,b in enumerate(bits): out[k//8]|=b<<(k%8)
    return bytes(out)
bad=0
for k in range(int(sys.argv[2]) if len(sys.argv)>2 else 20):
    d=f"w{k}"; shutil.rmtree(d,ignore_errors=True); os.makedirs(d)
    txt,fields=rnd_schema(k); open(f"{d}/s{k}.bitproto","w").write(txt)
    env=dict(os.environ,PYTHONPATH="/repo/compiler")
    for lang in ("py","c"):
        subprocess.check_call([sys.executable,"-m","bitproto._main",lang,f"{d}/s{k}.bitproto",d,"-q"],env=env)
    vals=[[rv(kind,w) for _ in range(cap)] if kind.endswith("a") else rv(kind,w) for kind,w,cap in fields]
    sys.path.insert(0,d); mod=importlib.import_module(f"s{k}_bp"); sys.path.pop(0)
    m=mod.M()
    for i,((kind,w,cap),v) in enumerate(zip(fields,vals)):
        if kind=="ya": setattr(m,f"f{i}",bytearray(v))
        elif kind=="ba": setattr(m,f"f{i}",[bool(x) for x in v])
        elif kind=="b": setattr(m,f"f{i}",bool(v))
        else: setattr(m,f"f{i}",v)
    py=bytes(m.encode()); exp=ref(fields,vals)
    m2=mod.M(); m2.decode(bytearray(py))
    ok_py = py==exp and all((list(getattr(m2,f"f{i}")) if isinstance(v,list) else getattr(m2,f"f{i}"))==v for i,v in enumerate(vals))
    # C
    sets=[]
    for i,((kind,w,cap),v) in enumerate(zip(fields,vals)):
        if isinstance(v,list):
            for j,x in enumerate(v): sets.append(f"m.f{i}[{j}] = {x}LL;" if x!=-(1<<63) else f"m.f{i}[{j}] = (-9223372036854775807LL-1);")
        else: sets.append(f"m.f{i} = {v}LL;" if v!=-(1<<63) else f"m.f{i} = (-9223372036854775807LL-1);")
    c=f'''#include <stdio.h>
#include <string.h>
#include "s{k}_bp.h"
int main(){{ struct M m; memset(&m,0,sizeof m); {' '.join(sets)}
unsigned char s[BYTES_LENGTH_M+8]; memset(s,0,sizeof s); EncodeM(&m,s);
for(int i=0;i<BYTES_LENGTH_M;i++) printf("%02x",s[i]); printf("\\n");
struct M n; memset(&n,0,sizeof n); DecodeM(&n,s); char buf[65536]; JsonM(&n,buf); printf("%s\\n",buf); return 0; }}'''
    open(f"{d}/main.c","w").write(c)
    for O in ("-O0","-O2"):
        subprocess.check_call(["gcc",O,"-w","-I/repo/lib/c","-I"+d,f"{d}/main.c",f"{d}/s{k}_bp.c","/repo/lib/c/bitproto.c","-o",f"{d}/a.out"])
        out=subprocess.check_output([f"{d}/a.out"]).decode().split("\n")
        cj=json.loads(out[1])
        ok_c = out[0]==exp.hex() and all(([int(x) for x in cj[f"f{i}"]] if isinstance(v,list) else int(cj[f"f{i}"]))==v for i,v in enumerate(vals))
        if not ok_c: print("C MISMATCH",O,k,txt,vals,out[0],exp.hex(),cj); bad+=1
    if not ok_py: print("PY MISMATCH",k,txt,vals,py.hex(),exp.hex()); bad+=1
    shutil.rmtree(d)
print("done bad=",bad)
