import sys
sys.path.insert(0, "/repo/compiler")
from bitproto.utils import pascal_case, snake_case, upper_case

def pascal_small(s: str) -> bool:
    """
    pre: len(s) <= 3
    pre: all(c in "aA_1" for c in s)
    post: _
    """
    p = pascal_case(s)
    return "_" not in p

def pascal_join(a: str, b: str) -> bool:
    """
    pre: len(a) <= 2 and len(b) <= 2
    pre: all(c in "aA1" for c in a) and all(c in "aA1" for c in b)
    post: _
    """
    return pascal_case(a + "_" + b) == pascal_case(a) + pascal_case(b)

def snake_small(s: str) -> bool:
    """
    pre: len(s) <= 3
    pre: all(c in "aA_1" for c in s)
    post: _
    """
    p = snake_case(s)
    return p == p.lower()
