import sys
sys.path.insert(0, "/repo/compiler"); sys.path.insert(0, "/tmp/probe")
from h4 import run
from bitproto._ast import Uint, Bool, Byte
from bitproto.errors import ParserError, GrammarError, LexerError

HDR = [("PROTO","proto","proto"),("IDENTIFIER","p","p"),("NEWLINE","\n","\n")]
NL = ("NEWLINE","\n","\n")

def two_fields(n1: int, n2: int) -> bool:
    """
    pre: n1 >= 0 and n2 >= 0
    post: _ == (1 <= n1 <= 255 and 1 <= n2 <= 255 and n1 != n2)
    """
    try:
        run(HDR + [("MESSAGE","message","message"),("IDENTIFIER","M","M"),("{","{","{"),NL,
            ("BOOL_TYPE",Bool(token="bool",lineno=3),"bool"),("IDENTIFIER","a","a"),("=","=","="),("INT_LITERAL",n1,"1"),NL,
            ("BOOL_TYPE",Bool(token="bool",lineno=4),"bool"),("IDENTIFIER","b","b"),("=","=","="),("INT_LITERAL",n2,"2"),NL,
            ("}","}","}"),NL])
        return True
    except ParserError:
        return False

def enum_val(w: int, v: int) -> bool:
    """
    pre: 1 <= w <= 64 and v >= 0
    post: _ == (v < 2**w)
    """
    try:
        run(HDR + [("ENUM","enum","enum"),("IDENTIFIER","E","E"),(":",":",":"),("UINT_TYPE",Uint(cap=w,token="uintN",lineno=2),"uintN"),("{","{","{"),NL,
            ("IDENTIFIER","A","A"),("=","=","="),("INT_LITERAL",v,"1"),NL,
            ("}","}","}"),NL])
        return True
    except ParserError:
        return False

def msg_size(w: int, cap: int, ext: bool, mext: bool) -> bool:
    """
    pre: 1 <= w <= 64 and 1 <= cap <= 65535
    post: _ == (w * cap + (16 if ext else 0) + (16 if mext else 0) <= 65535)
    """
    try:
        run(HDR + [("MESSAGE","message","message"),("IDENTIFIER","M","M")] + ([("'","'","'")] if mext else []) + [("{","{","{"),NL,
            ("UINT_TYPE",Uint(cap=w,token="uintN",lineno=3),"uintN"),("[","[","["),("INT_LITERAL",cap,"7"),("]","]","]")] + ([("'","'","'")] if ext else []) + [("IDENTIFIER","a","a"),("=","=","="),("INT_LITERAL",1,"1"),NL,
            ("}","}","}"),NL])
        return True
    except ParserError:
        return False

def max_bytes(w: int, mb: int) -> bool:
    """
    pre: 1 <= w <= 64 and mb >= 0
    post: _ == (mb == 0 or (w + 7) // 8 <= mb)
    """
    try:
        run(HDR + [("MESSAGE","message","message"),("IDENTIFIER","M","M"),("{","{","{"),NL,
            ("OPTION","option","option"),("IDENTIFIER","max_bytes","max_bytes"),("=","=","="),("INT_LITERAL",mb,"3"),NL,
            ("UINT_TYPE",Uint(cap=w,token="uintN",lineno=3),"uintN"),("IDENTIFIER","a","a"),("=","=","="),("INT_LITERAL",1,"1"),NL,
            ("}","}","}"),NL])
        return True
    except ParserError:
        return False

if __name__ == "__main__":
    print(two_fields(1,2), two_fields(1,1), enum_val(3,7), enum_val(3,8), msg_size(8,8191,False,False), msg_size(8,8192,False,False), max_bytes(9,1), max_bytes(9,2))
